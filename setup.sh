#!/bin/bash
# Builds the framework from files on disk only and warms the Go build cache (offline).
set -eu
V="$(cd "$(dirname "$0")" && pwd)"
export GOFLAGS=-mod=mod GOPROXY=off
mkdir -p "$V/bin" "$V/work" "$V/evidence"
(cd "$V/engine/instr" && go build -o "$V/bin/instr" .)
(cd "$V/engine/vrt" && go build ./...)
# warm the cache: build every harness once against the current tree (errors here are reported by the checks)
for d in "$V"/harness/cmd/c[0-9][0-9]/; do   # (cNNb parts are built together with their check)
  id="$(basename "$d" | tr 'a-z' 'A-Z')"
  VERIF_BUILD_ONLY=1 "$V/check" "$id" quick >/dev/null 2>&1 || echo "setup: warm build of $id failed (the check will report it)"
done
echo "setup done"
