#!/bin/bash
# tools/seed_confirm.sh <ID> <A|B> [base dir] [kept name] — confirms a sub-agent's seeded change in its own scratch worktree:
#   demo fails with the change, passes without; tree builds; tests of touched + dependent packages pass.
# Then copies it to /verif/seeded/<ID>-<A|B>/ (patch.diff, demo, notes).  Full-suite confirmation: seed_fullsuite.sh.
set -u
ID=$1; X=$2
BASE="${3:-/tmp/seed}"       # second round: /tmp/seed2
NAME="${4:-$X}"              # kept as seeded/<ID>-<NAME> (second round: C, D)
S=$BASE/$ID; WT=$S/wt; OUT=$S/out
export GOFLAGS=-mod=mod GOPROXY=off
cd "$WT" || exit 2
git checkout -q -- . ; git clean -fdq
[ -f "$OUT/$X.diff" ] || { echo "no $OUT/$X.diff"; exit 2; }
demo_dir=$(grep -oE '(internal|common|crypto|handler|cmd|test)/[A-Za-z0-9_/.-]*' "$OUT/${X}_demo.txt" | grep -v '_test.go$' | head -1)
demo_dir=${demo_dir%/}
[ -d "$WT/$demo_dir" ] || demo_dir=$(dirname "$(grep -oE '(internal|common|crypto|handler|cmd|test)/[A-Za-z0-9_/.-]*_test.go' "$OUT/${X}_demo.txt" | head -1)")
runname=$(grep -oE '\-run[ =]+[^ ]+' "$OUT/${X}_demo.txt" | head -1 | sed 's/-run[ =]*//' | tr -d "'\`,\"")
tags=$(grep -oE '\-tags[ =]+[^ ]+' "$OUT/${X}_demo.txt" | head -1 | sed 's/-tags[ =]*//' | tr -d "'\`,\"")
echo "demo dir=$demo_dir run=$runname tags=$tags"
cp "$OUT/${X}_demo_test.go" "$WT/$demo_dir/zz_seed_${X}_test.go"
T=(); [ -n "$tags" ] && T=(-tags "$tags")
echo "--- demo WITHOUT change (must pass)"
go test -vet=off -count=1 "${T[@]}" -run "$runname" "./$demo_dir/" 2>&1 | grep -E "^(ok|FAIL|--- FAIL|panic)" | head -5
git apply "$OUT/$X.diff" || { echo "patch does not apply"; exit 2; }
echo "--- build"; go build ./... 2>&1 | tail -3
echo "--- demo WITH change (must fail)"
go test -vet=off -count=1 "${T[@]}" -run "$runname" "./$demo_dir/" 2>&1 | grep -E "^(ok|FAIL|--- FAIL|panic)" | head -5
rm -f "$WT/$demo_dir/zz_seed_${X}_test.go"
echo "--- files changed:"; git diff --stat | tail -4
D=/verif/seeded/$ID-$NAME; mkdir -p "$D"
cp "$OUT/$X.diff" "$D/patch.diff"; cp "$OUT/${X}_demo_test.go" "$D/demo_test.go"; cp "$OUT/${X}_demo.txt" "$D/demo.txt"; cp "$OUT/$X.md" "$D/notes.md"
git checkout -q -- . ; git clean -fdq
