#!/bin/bash
# tools/baseline_suite.sh [dir] — runs the pinned suite (command of /root/.vp/BASELINE.json) on a tree and compares the
# set of passing tests with BASELINE.stable_pass. Prints the tests of the baseline that no longer pass.
D="${1:-/repo}"
export GOFLAGS=-mod=mod GOPROXY=off
OUT="$(mktemp /tmp/suite.XXXXXX.json)"
(cd "$D" && go test -mod=mod -json -vet=off -count=1 -timeout 25m ./... > "$OUT" 2>/dev/null)
python3 - "$OUT" <<'PY'
import json,sys
passed=set(); failed=set()
for line in open(sys.argv[1]):
    try: e=json.loads(line)
    except Exception: continue
    if e.get('Test') and e.get('Action') in('pass','fail'):
        k=e['Package']+'::'+e['Test']
        (passed if e['Action']=='pass' else failed).add(k)
base=set(json.load(open('/root/.vp/BASELINE.json'))['stable_pass'])
missing=sorted(base-passed)
print("baseline stable_pass:",len(base),"passing now:",len(passed&base),"missing:",len(missing))
for m in missing[:40]: print("  NOT PASSING:",m, "(failed)" if m in failed else "(not run)")
PY
rm -f "$OUT"
