#!/bin/bash
# tools/seed_prompt/mkprompt.sh <ID> <base dir> — creates <base>/<ID>/{wt (scratch worktree of /repo at HEAD), out, prompt.txt}.
# The prompt contains only the property text (from properties.jsonl) and the paths of the worktree / output directory.
ID="$1"; BASE="$2"; V="$(cd "$(dirname "$0")/../.." && pwd)"
mkdir -p "$BASE/$ID/out"
git -C /repo worktree add -q --detach "$BASE/$ID/wt" HEAD || exit 2
python3 - "$ID" "$BASE" "$V" <<'PY'
import json,sys
pid,base,v=sys.argv[1:4]
prop=None
for line in open(v+'/properties.jsonl'):
    d=json.loads(line)
    if d['id']==pid: prop=d
text="%s — %s\n\nStatement: %s\n\nQuantified over: %s\n" % (prop['id'],prop['title'],prop['statement'],prop['quantifier']['text'])
t=open(v+'/tools/seed_prompt/PROMPT.tmpl').read()
t=t.replace('@WT@',base+'/'+pid+'/wt').replace('@OUT@',base+'/'+pid+'/out').replace('@PROP@',text)
open(base+'/'+pid+'/prompt.txt','w').write(t)
PY
echo "$BASE/$ID/prompt.txt"
