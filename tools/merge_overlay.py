#!/usr/bin/env python3
# merge_overlay.py <verif dir> <repo dir> <overlay.json>: adds the //go:build verif accessor files under inject/ to a
# go build overlay (they appear as additional files of the repository's packages; /repo itself is not touched).
import json, os, sys
v, repo, ov = sys.argv[1:4]
d = json.load(open(ov))
inj = os.path.join(v, 'inject')
for root, _, files in os.walk(inj):
    for f in files:
        if f.endswith('.go'):
            rel = os.path.relpath(os.path.join(root, f), inj)
            d['Replace'][os.path.join(repo, rel)] = os.path.join(root, f)
json.dump(d, open(ov, 'w'), indent=1)
