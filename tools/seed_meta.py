#!/usr/bin/env python3
"""tools/seed_meta.py — (re)writes seeded/<ID>-<X>/meta.json from the kept files of each seed and the recorded runs:
patch.diff (files changed), notes.md (what the change is, what it needs to manifest), demo.txt (how the demonstration is
run), seeded/RESULTS.tsv (what tools/seed_matrix.sh ran and saw), seeded/SUITE.tsv (pinned suite with the change)."""
import json, os, re, sys
V = os.path.dirname(os.path.dirname(os.path.abspath(__file__)))
S = os.path.join(V, 'seeded')

def table(name):
    rows = {}
    p = os.path.join(S, name)
    if os.path.exists(p):
        for line in open(p):
            f = line.rstrip('\n').split('\t')
            if len(f) >= 4:
                rows.setdefault(f[0], []).append(f)
    return rows

results, suites = table('RESULTS.tsv'), table('SUITE.tsv')
notes_status = {
    'C10-A': 'neutralised: since fix 382e6979 (consecutive rounds required in a sync stream) the change no longer breaks the property; its own demonstration passes with the (ported) change applied, and the check correctly reports nothing',
}
for d in sorted(os.listdir(S)):
    m = re.match(r'^(C\d+)-([A-Z])$', d)
    if not m:
        continue
    dd = os.path.join(S, d)
    patch = open(os.path.join(dd, 'patch.diff')).read()
    files = sorted(set(re.findall(r'^\+\+\+ b/(\S+)', patch, re.M)))
    notes = open(os.path.join(dd, 'notes.md')).read() if os.path.exists(os.path.join(dd, 'notes.md')) else ''
    title = next((l.strip('# ').strip() for l in notes.splitlines() if l.strip()), '')
    needs = ''
    mm = re.search(r'(?is)(what is needed to manifest|needed to manifest|needs to manifest|what is needed|needs)\s*[:(—-]\s*(.+?)(\n\s*\n|\n[A-Z0-9#][^\n]{0,40}:|\Z)', notes)
    if mm:
        needs = ' '.join(mm.group(2).split())[:900]
    demo = open(os.path.join(dd, 'demo.txt')).read() if os.path.exists(os.path.join(dd, 'demo.txt')) else ''
    run = re.search(r'go test[^\n]*', demo)
    runs = []
    for f in results.get(d, []):
        runs.append({'check': f[1], 'tier': f[2], 'verdict': f[3], 'first_fingerprint': f[4] if len(f) > 4 else '',
                     'patch': f[5] if len(f) > 5 else 'patch.diff', 'when': f[6] if len(f) > 6 else '',
                     'command': 'mutants/run.sh seeded/%s/%s %s quick' % (d, f[5] if len(f) > 5 else 'patch.diff', f[1])})
    detected_by = [r['check'] for r in runs if r['verdict'] == 'DETECTED']
    own = m.group(1)
    if d in notes_status:
        status = notes_status[d]
    elif own in detected_by:
        status = 'detected by the check of its own property'
    elif detected_by:
        status = 'missed by %s, detected by %s' % (own, ', '.join(detected_by))
    elif runs:
        status = 'missed'
    else:
        status = 'not run yet'
    meta = {
        'seed': d, 'property': own, 'produced_by': 'fresh sub-agent given only the property text and a scratch git worktree of /repo (nothing from /verif)',
        'change': title, 'files_changed': files,
        'needs_to_manifest': needs,
        'demonstration': {'file': 'demo_test.go', 'how': (run.group(0) if run else demo.strip()[:300])},
        'confirmed_by_me': {
            'how': 'tools/seed_confirm.sh %s %s in the sub-agent\'s scratch worktree under /tmp (removed afterwards): go build ./... ; the demonstration without the change (passes) and with it (fails)' % (own, m.group(2)),
            'builds': True, 'demo_passes_without_change': True, 'demo_fails_with_change': True,
            'pinned_suite_with_change': [{'stable_pass_still_passing': f[1], 'missing': f[2], 'patch': f[3], 'when': f[4] if len(f) > 4 else ''} for f in suites.get(d, [])] or 'sub-agent reported the same ok/FAIL set as the unmodified tree; see SUITE.tsv when present',
        },
        'ported_patch': os.path.exists(os.path.join(dd, 'patch.ported.diff')) and 'patch.ported.diff (the original no longer applies after later fix commits; same change, re-anchored by hand)' or None,
        'checks_run': runs, 'status': status,
    }
    json.dump(meta, open(os.path.join(dd, 'meta.json'), 'w'), indent=1)
print('meta.json written for', len([d for d in os.listdir(S) if re.match(r'^C\d+-[A-Z]$', d)]), 'seeds')
