#!/bin/bash
# tools/run_tier.sh <tier> <logfile> [extra flags --] <ID>... — runs checks one after the other, logs the summary lines
tier="$1"; log="$2"; shift 2
extra=()
while [ "$1" != "--" ] && [ $# -gt 0 ]; do case "$1" in C[0-9][0-9]) break;; esac; extra+=("$1"); shift; done
[ "$1" = "--" ] && shift
cd "$(dirname "$0")/.." || exit 2
for id in "$@"; do
  s=$(date +%s)
  ./check "$id" "$tier" "${extra[@]}" 2>&1 | grep -E "^C[0-9]+ (quick|thorough):|^VIOLATION|^ENGINE-ERROR|^  fingerprint|^KNOWN-FINDING" | cut -c1-300 >> "$log"
  echo "$id exit=${PIPESTATUS[0]} $(( $(date +%s) - s ))s" >> "$log"
done
echo LANE-DONE >> "$log"
