#!/usr/bin/env python3
"""Generates MANIFEST.json from the table below (one entry per claimed property)."""
import json, os
V = os.path.dirname(os.path.dirname(os.path.abspath(__file__)))
props = [json.loads(l)["id"] for l in open(os.path.join(V, "properties.jsonl"))]

E1 = "E1 vsched (controlled scheduler on instrumented real code)"
E2 = "E2 vbfs (explicit-state / sequence search on real objects)"
E3 = "E3 crashenum (syscall-prefix crash enumeration)"

checks = {
 "C11": dict(engine=E1, category="model_checking", design="3/C11",
   technique="stateless model checking: exhaustive enumeration of goroutine interleavings (delay-bounded / to saturation) of the real SyncChain + store stack under a controlled scheduler",
   text="Every interleaving (at channel/mutex/select/spawn granularity) of the real SyncChain server routine with a concurrent appender on the real callback/append/scheme store stack over memdb, trimmed and untrimmed bolt is enumerated — to saturation where the tree is small enough, otherwise up to the deviation bound completed within the budget (reported) — and the delivered sequence is checked against the store: from the requested round, gap-free, no repeats, byte-equal, complete at quiescence. This is the level the property needs: it is a statement about all interleavings of two real goroutines, which a test samples once.",
   note="Scheduling points are the instrumented concurrency operations of internal/chain/beacon and internal/chain/memdb; bbolt calls are atomic steps on pre-grown database files; stream.Send is instantaneous; placeholder signatures (SyncChain copies, never verifies). Trusted: Go toolchain, the instrumenter's rewrite rules (self-tested), the vrt scheduler."),
 "C12": dict(engine=E1, category="model_checking", design="3/C12",
   technique="stateless model checking of goroutine interleavings (delay-bounded) of the real store stack + SyncChain with stalled/slow/failing consumers; explicit-state BFS over Append/Flush sequences on the real partial cache",
   text="c12-stall: every schedule with at most K deviations (K reported, 2-3) of {stalled | slow | failing stream consumers, a healthy consumer, a local reader, an appender storing more beacons than all queues hold} on the real callback/append/scheme store stack with the callback queue scaled to 2 must let the appender finish every Put and give the healthy consumer a gap-free sequence. c12-cache: breadth-first search over all Append/store sequences (flooding member, honest member, fresh previous signatures) to depth 8/11 on the real partialCache with the per-member limit scaled to 3, with de-duplication on a canonical form; in every state the cache and its per-member bookkeeping are bounded by members x limit and no partial of the honest member for a round not yet stored has disappeared.",
   note="CallbackWorkerQueue 100->2 and MaxPartialsPerNode 100->3 are rewritten in the instrumented copy only (the code using them is unchanged). A stalled consumer is a Send that never returns. Without fairness the scheduler may starve the healthy stream until it is disconnected as too slow; that outcome is accepted (its delivered prefix is still checked). bbolt's writer-waits-for-open-read-transaction behaviour when the file must grow is outside the exploration (pre-grown files)."),
 "C18": dict(engine=E2, category="model_checking", design="3/C18",
   technique="explicit-state breadth-first search over Put/Del histories on the real back-ends with a sorted-map reference model; full read battery after every transition",
   text="Breadth-first search over all Put/Del histories (depth 5 quick / 7 thorough; rounds {0,1,2,3,5} with a permanent hole, two values per round) on real trimmed bolt, untrimmed bolt and the in-memory ring, each in chained and unchained context, de-duplicated on the reference map (the trimmed-bolt space closes at 78 states); after every transition Get of every round, Last, Len, a full cursor scan, cursor Last and Seek of every round followed by Next are compared with a sorted reference map that encodes only the documented differences. A second family starts from the ring at capacity, a third interleaves one write between the calls of one ring cursor scan.",
   note="State key = reference map (sound because each back-end's behaviour is a function of its key/value content; reads are nevertheless checked after every transition). PostgreSQL back-end not reachable offline. Reference model lives in harness/cmd/c18/main.go."),
 "C01": dict(engine=E1, category="model_checking", design="3/C01",
   technique="stateless model checking (delay-bounded schedule enumeration) of the real handler V against an adversary enumerating forged/valid partial sequences, and of networks of real handlers per scheme; independent reference verifier on every database write",
   text="c01-agg: the real beacon.Handler V (ticker, run loop, aggregator, cache, store stack) runs under the controlled scheduler while an adversary playing the other members delivers every sequence (length <=2 quick / <=3 thorough) over an alphabet of valid and forged partials for rounds 1-2 (wrong key, wrong round label, other previous signature, replay of V's own, truncations, bit flips in index and body, indices outside the group, duplicates); all schedules within the deviation bound. c01-net: networks of three real handlers for each of the 5 schemes. Every beacon that reaches a node's database is judged by a reference verifier that computes the digest from the scheme's specification and calls kyber directly, and (chained) must link to the stored previous beacon.",
   note="Serving paths (gRPC/HTTP responses) are exercised by the daemon-bench checks, not here. Threshold BLS is memoised as a pure function. Scheduling points: instrumented concurrency operations of internal/chain/beacon, internal/chain/memdb, crypto/vault."),
 "C02": dict(engine=E1, category="model_checking", design="3/C02",
   technique="stateless model checking: interleavings of the aggregation and sync writers (plus refused writes and an injected database failure) on the real store stack; networks of real handlers with partitions, restarts and message drops",
   text="c02-store: aggregation writer, sync writer and an adversarial writer race on the real callback/append/scheme store stack over memdb, trimmed and untrimmed bolt (chained and unchained), with one database write failure as an explorer choice, the ring at capacity and a restart step; a monitor under the stack sees every database write: writes are head+1 each, never repeated, linked; every Put's answer matches what was written. c02-net: networks of 3 real handlers with scripted partitions / stop+restart / link cuts, per-partial drop choices and a node that starts two rounds behind so that sync and aggregation race on its store: per-node write logs, cross-node agreement per round, final stores gap-free and linked, all within the completed deviation bound.",
   note="Placeholder signatures in c02-store (the stack never verifies); real threshold BLS in c02-net. bbolt atomic on pre-grown files."),
 "C03": dict(engine=E1, category="model_checking", design="3/C03",
   technique="stateless model checking of the real handler V against enumerated contributor subsets, arrival orders and adversarial insertions; ledger + reference verifier oracle",
   text="For each (n,t) (quick: (3,2),(4,3),(5,3) and two groups with holes in their share indices; thorough up to (7,4), all schemes), every number of honest contributors t-2..t (so t-1, t, t+1 with V's own), every arrival order, and every single adversarial insertion at every position (invalid signature under an honest index, duplicate, valid for another round, relabelled round, other previous signature, V's own partial echoed, garbage at a non-member index, and partials that lie ON the group polynomial at every share index nobody holds), all schedules within the deviation bound of the real handler V. Oracle: at the moment of each database write of (r, prev) the delivery ledger plus the signing hook must show >= t distinct member indices with a reference-valid partial for exactly (r, prev).",
   note="Sync is unavailable to V in these runs so that every stored beacon comes from aggregation. The live-group clause across resharing is covered with C07's harness."),
 "C04": dict(engine=E1, category="model_checking", design="3/C04",
   technique="stateless model checking of networks of real handlers with per-node clock offsets and early-timer deviations; monitors on every released partial and every database write",
   text="Networks of 3-5 real handlers where up to t-1 members run fast by up to a period minus one second; timers may fire early relative to parked goroutines (a stall), nodes start level / behind their clock, one node is stopped and restarted or partitioned; plus the V+adversary harness where t-1 members send partials for the current, next and later rounds at every moment. All schedules within the deviation bound. Oracles: every partial an honest node releases carries a round whose time has come on that node's clock; partials more than one round ahead of the receiver's clock are refused; with fewer than t fast members no honest node stores a round before its time.",
   note="A partial that is created early but never leaves the node (seen once, on a stopping node reading its closed tick channel) is reported in the outcome, not as a violation: the property speaks of release. Stall = early timer deviation; clock skew = constant offset."),
 "C05": dict(engine=E1, category="model_checking", design="3/C05",
   technique="stateless model checking (delay-bounded) of networks of real handlers under scripted fault sequences followed by a healed horizon; bounded-liveness oracle at the end of every explored execution",
   text="Networks of 3-4 real handlers under the controlled scheduler with every fault script of a fixed menu (partitions of 1-6 rounds, one-directional link cuts, stop/restart, loss of quorum by stops or by partitions, staggered recoveries; thorough adds repeated faults and a full-network stop) followed by a healed period; all schedules within the deviation bound (and per-partial drops as explorer choices in one job). Every explored execution must END with every running node's head at the current round of its clock, its store having advanced one round at a time, and every restarted node having had a partial accepted by a peer after its restart: no explored prefix leaves the network wedged. RPCs take 10 ms of virtual time so that the default schedule is the realistic one (ticks are handled before the partials of that tick arrive).",
   note="Bounded liveness only: 'eventually' = by the end of the healed horizon under default timing; unbounded fairness-based liveness is not decided (DESIGN.md section 6). Sync-renewal after a stalling peer is covered by C10's harness."),
 "C10": dict(engine=E1, category="model_checking", design="3/C10",
   technique="stateless model checking of the real SyncManager against every multiset of scripted peers in every contact order; exhaustive enumeration of store corruption patterns for check/repair",
   text="c10-sync: the real SyncManager (Run loop, Sync, tryNode) on the real participant store stack; peers scripted per identity from 15 behaviours (honest-ahead, behind, refusing, stalling, closing early, bad/empty signature at position j, skipped/repeated/regressing rounds, foreign beacon id, valid beacons with a gap, beacons of another chain); all multisets of <=2 (quick, plus all triples containing an honest peer) / <=3 (thorough) peers x EVERY contact order (rand.Perm is an explorer choice enumerated at no cost) x heights {0,2} x targets {head+1, head+3, follow}, chained and unchained, schedules within the bound. Safety: every database write reference-verifies against the pinned key, is the chain's own beacon and is head+1. Convergence: with an honest peer ahead and fail-fast bad peers the goal is reached within ONE sync call; with stalling peers some explored order reaches it and a fresh attempt is made after the 2-period expiry. c10-check: for every corruption pattern of a 5-round store (each round intact / deleted / signature altered / previous link broken; 32-1024 patterns per back-end and scheme) the real CheckPastBeacons reports exactly the rounds that cannot be read back or do not reference-verify, and CorrectPastBeacons (bad peers first, honest last) leaves a store that checks clean and holds the chain's own beacons.",
   note="Follow mode through the control API (StartFollowChain: hash pinning, retry loop) is not yet covered by this check. 'Eventually' under the code's random peer order is decided existentially over all orders."),
 "C16": dict(engine=E2, category="exploration", design="3/C16",
   technique="exhaustive enumeration of the cross product of a boundary lattice (periods x genesis x instants x rounds) against a math/big reference",
   text="Pure functions: the full cross product of 142 periods (1..60 s, every 2^k and 2^k+-1 up to 2^32-1), 9 genesis values, every second of the first 4 periods plus the instants around k*period for k in {2^j, 2^j+-1} up to 2^50 s, and 240 round numbers (0..64, 2^k, 2^k+-1 up to 2^64-1, the guard threshold and the largest schedulable round with their neighbours) is enumerated (2.1 million evaluations quick), and every answer of CurrentRound / NextRound / TimeOfRound is compared with an arbitrary-precision reference: unique bracketing round, exact next time, strict monotonicity, error value for every round whose true time is beyond the ceiling.",
   note="Exhaustive over the lattice, not over all 2^64 inputs; refusing a schedulable round (conservative guard) is allowed."),
 "C17": dict(engine=E2, category="exploration", design="3/C17",
   technique="exhaustive shape enumeration (scheme x size x optional fields x perturbed field x encoding path x node order) of hash comparisons",
   text="For all 5 schemes, groups of 1..4 (thorough 6) nodes, 3 beacon ids, explicit and derived genesis seed: equal parameters give equal chain hashes through the group file, the chain-info protobuf, the group protobuf and JSON, and on repeated calls; every single-field perturbation (period +-1 s, genesis +-1, seed bit / length, id, distributed key) changes it; membership changes do not; the empty id and the id default agree; JSON whose fields were altered under an unchanged chain_hash is rejected; the group hash is invariant under all n! listing orders and changes with threshold, genesis and transition time, id, each member key and index and each public coefficient.",
   note="Key material random per run; shapes exhaustive."),
 "C20": dict(engine=E2, category="exploration", design="3/C20",
   technique="exhaustive shape enumeration of encode/decode round trips through every path, with field-by-field comparison by reflection",
   text="All schemes x groups of 1..6 (thorough 10) nodes x all 32 subsets of the optional fields through the group file and the protobuf wire form; key pairs, shares and groups through the real file store including a shorter value saved over a longer one; chain info with the deterministic keys k*G (k<=48) through JSON and protobuf; DKG database records in all 12 statuses x 16 combinations of final group / share / participant lists / acceptors through TOML and through the real bolt DKG store (SaveCurrent/GetCurrent, SaveFinished/GetFinished), compared field by field by reflection over DBState; beacons with byte strings of length 0/1/48/96 through JSON and the wire form; thresholds {0, min-1, n+1, 2^30} and unknown or empty scheme names must be rejected by both the TOML and the protobuf decoder.",
   note="Equality = the type's Equal plus equal hash plus the scalar fields Equal ignores."),
}

na_default = "check not built yet in this session (work in progress; see DESIGN.md section 3 for the planned model-checking design)"
na = {}

man = {
 "version": 1,
 "setup_cmd": "./setup.sh",
 "hooks": {"guard": "verif",
   "enable": "no hook commits in /repo: every check runs `go build -tags verif[,conn_insecure] -overlay work/<ID>/ov/overlay.json` where the overlay maps /repo files to instrumented copies generated from the current tree and adds the `//go:build verif` accessor files of /verif/inject",
   "baseline_off_cmd": "cd /repo && GOFLAGS=-mod=mod go test -vet=off -count=1 -timeout 25m ./...",
   "source_commits": [], "add_only": True},
 "engines": [
   {"name": "E1 vsched", "path": "engine/vrt, engine/instr, engine/vrt/explore", "kind_free_text": "own AST instrumenter + cooperative scheduler runtime + stateless delay-bounded DFS (worker processes)", "serves_properties": [p for p in props if p in checks and checks[p]["engine"] == E1]},
   {"name": "E2 vbfs", "path": "harness/vlib/bfs.go", "kind_free_text": "explicit-state breadth-first search over operation/event sequences on real objects with canonical-state de-duplication and a reference model", "serves_properties": [p for p in props if p in checks and checks[p]["engine"] == E2]},
   {"name": "E3 crashenum", "path": "engine/crashenum", "kind_free_text": "strace-recorded persistence history; every syscall-prefix (and torn write) materialised and recovered with the real load path", "serves_properties": [p for p in props if p in checks and checks[p]["engine"] == E3]},
 ],
 "checks": [], "not_applicable": [],
 "notes": "All commands run from /verif. `./check <ID> <tier>` rebuilds from /repo's working tree on every call. Known findings: findings/known.json.",
}
for p in props:
    if p in checks:
        c = checks[p]
        man["checks"].append({
          "property_id": p, "quick_cmd": f"./check {p} quick", "thorough_cmd": f"./check {p} thorough",
          "evidence_file": f"/verif/evidence/{p}.json", "replay_cmd_template": f"./check {p} quick --replay {{path}}",
          "engine": c["engine"], "technique": c["technique"],
          "level_claimed": {"category": c["category"], "text": c["text"], "design_ref": "DESIGN.md " + c["design"]},
          "level_note": c["note"]})
    else:
        man["not_applicable"].append({"property_id": p, "reason": na.get(p, na_default)})
json.dump(man, open(os.path.join(V, "MANIFEST.json"), "w"), indent=1)
print("claimed:", [c["property_id"] for c in man["checks"]])
