#!/bin/bash
# tools/seed_matrix.sh [ID-X ...] — runs every kept seed (or the ones named) against the check of its own property
# (and the extra checks listed in seeded/EXTRA) on /repo, one after the other, and records the verdicts in
# seeded/RESULTS.tsv (seed, check, tier, verdict, first fingerprint, date). Seeds whose patch no longer applies use
# patch.ported.diff when present.
V="$(cd "$(dirname "$0")/.." && pwd)"
cd "$V" || exit 2
seeds=("$@")
[ ${#seeds[@]} -eq 0 ] && seeds=($(ls seeded | grep -E '^C[0-9]+-[A-Z]$'))
for s in "${seeds[@]}"; do
  prop="${s%%-*}"
  patch="seeded/$s/patch.diff"; [ -f "seeded/$s/patch.ported.diff" ] && patch="seeded/$s/patch.ported.diff"
  checks="$prop $(grep -E "^$s " seeded/EXTRA 2>/dev/null | cut -d' ' -f2-)"
  for chk in $checks; do
    out="$(mutants/run.sh "$patch" "$chk" quick 2>&1)"
    verdict="$(echo "$out" | grep -oE '^(DETECTED|MISSED|ERROR)' | tail -1)"
    fp="$(echo "$out" | grep -m1 'fingerprint:' | sed 's/.*fingerprint: //')"
    grep -v -P "^$s\t$chk\t" seeded/RESULTS.tsv > seeded/RESULTS.tmp 2>/dev/null; mv seeded/RESULTS.tmp seeded/RESULTS.tsv 2>/dev/null
    printf '%s\t%s\tquick\t%s\t%s\t%s\t%s\n' "$s" "$chk" "$verdict" "$fp" "$(basename "$patch")" "$(date -u +%Y-%m-%dT%H:%MZ)" >> seeded/RESULTS.tsv
    echo "$s $chk $verdict $fp"
  done
done
sort -o seeded/RESULTS.tsv seeded/RESULTS.tsv
