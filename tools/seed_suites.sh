#!/bin/bash
# tools/seed_suites.sh [ID-X ...] — for every kept seed: a scratch worktree of /repo at HEAD under /tmp/sfs, the seed's
# patch applied, the pinned suite run (tools/baseline_suite.sh), the result recorded in seeded/SUITE.tsv
# (seed, baseline tests still passing, missing, patch, date), the worktree removed. Four at a time.
V="$(cd "$(dirname "$0")/.." && pwd)"
cd "$V" || exit 2
seeds=("$@")
[ ${#seeds[@]} -eq 0 ] && seeds=($(ls seeded | grep -E '^C[0-9]+-[A-Z]$'))
one() {
  s="$1"; V="$2"
  patch="$V/seeded/$s/patch.diff"; [ -f "$V/seeded/$s/patch.ported.diff" ] && patch="$V/seeded/$s/patch.ported.diff"
  wt="/tmp/sfs/$s"; rm -rf "$wt"; mkdir -p /tmp/sfs
  git -C /repo worktree add -q --detach "$wt" HEAD || { echo "$s worktree failed"; return; }
  if git -C "$wt" apply "$patch" 2>/dev/null; then
    out="$("$V/tools/baseline_suite.sh" "$wt" 2>&1)"
    pass="$(echo "$out" | grep -oE 'passing now: [0-9]+' | grep -oE '[0-9]+')"
    miss="$(echo "$out" | grep -oE 'missing: [0-9]+' | grep -oE '[0-9]+')"
    names="$(echo "$out" | grep 'NOT PASSING' | sed 's/.*NOT PASSING: //' | tr '\n' ';')"
    printf '%s\t%s/378\t%s %s\t%s\t%s\n' "$s" "$pass" "$miss" "$names" "$(basename "$patch")" "$(date -u +%Y-%m-%dT%H:%MZ)" >> "$V/seeded/SUITE.tsv.new"
    echo "$s $pass/378 missing=$miss $names"
  else
    echo "$s patch does not apply"
  fi
  git -C /repo worktree remove --force "$wt"
}
export -f one
rm -f seeded/SUITE.tsv.new
printf '%s\n' "${seeds[@]}" | xargs -P 4 -I{} bash -c 'one {} '"$V"
if [ -f seeded/SUITE.tsv.new ]; then
  touch seeded/SUITE.tsv
  cut -f1 seeded/SUITE.tsv.new | while read -r s; do grep -v -P "^$s\t" seeded/SUITE.tsv > seeded/SUITE.tmp; mv seeded/SUITE.tmp seeded/SUITE.tsv; done
  cat seeded/SUITE.tsv.new >> seeded/SUITE.tsv; sort -o seeded/SUITE.tsv seeded/SUITE.tsv; rm -f seeded/SUITE.tsv.new
fi
