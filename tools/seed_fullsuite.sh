#!/bin/bash
# tools/seed_fullsuite.sh <ID> <A|B> — runs the repository's whole pinned suite with the seeded change applied (in the
# scratch worktree) and prints the set of failing tests; it must equal the baseline's always-fail set.
set -u
ID=$1; X=$2; WT=/tmp/seed/$ID/wt
export GOFLAGS=-mod=mod GOPROXY=off
cd "$WT" && git checkout -q -- . && git clean -fdq && git apply "/verif/seeded/$ID-$X/patch.diff" || exit 2
go test -vet=off -count=1 -timeout 25m ./... 2>&1 | grep -E "^--- FAIL" | sed 's/ (.*//' | sort > /tmp/seed/$ID/fail_$X.txt
git checkout -q -- . ; git clean -fdq
python3 - "$ID" "$X" <<'PY'
import json,sys
b=json.load(open('/root/.vp/BASELINE.json'))
af={t.split('::')[1] for t in b['always_fail']}
got={l.strip().replace('--- FAIL: ','') for l in open('/tmp/seed/%s/fail_%s.txt'%(sys.argv[1],sys.argv[2])) if l.strip()}
extra=sorted(t for t in got if t.split('/')[0] not in af and t not in af)
print("FULLSUITE %s-%s: failing=%d, not-in-baseline-always-fail=%s"%(sys.argv[1],sys.argv[2],len(got),extra))
PY
