package vlib

import (
	"encoding/json"
	"flag"
	"fmt"
	"os"
	"os/exec"
	"path/filepath"
	"sort"
	"strings"
	"sync"
	"time"

	vrt "verif.local/vrt"
	"verif.local/vrt/explore"
)

// E1Job is one controlled-scheduler exploration: a harness closed over one configuration.
type E1Job struct {
	Name   string
	Bound  int // deviations; <0 = saturation
	Run    explore.RunFunc
	Weight int // relative share of the time budget (default 1)
	Shards int // 0: automatic
	// Labeled re-runs one schedule with the event log on (replay); optional.
	Labeled func(devs []vrt.Dev) *explore.Exec
	// Post judges the merged statistics of the whole exploration (existential oracles over Stats.Tags).
	Post func(st *explore.Stats) []explore.Violation
}

// ReplayE1 re-runs the schedule recorded in the replay file on the job it names and prints the event log.
// Returns the exit status (1 if the violation reproduces).
func (c *Check) ReplayE1(jobs []E1Job) int {
	r, err := LoadReplay(c.Replay)
	if err != nil {
		fmt.Println("replay:", err)
		return 2
	}
	for _, j := range jobs {
		if j.Name != r.Harness {
			continue
		}
		run := j.Labeled
		if run == nil {
			run = j.Run
		}
		x := run(r.Devs)
		if x.S != nil {
			for _, l := range x.S.Log {
				fmt.Println(l)
			}
		}
		if x.S != nil {
			for _, d := range r.Devs {
				if d.Pos < len(x.S.Trace) {
					p := x.S.Trace[d.Pos]
					fmt.Printf("deviation at choice point %d: kind %c, took alternative %d of %d [%s]\n", d.Pos, p.Kind, d.Alt, p.N, p.Label)
				}
			}
		}
		fmt.Println("harness:", j.Name)
		fmt.Println("deviations:", r.Devs)
		fmt.Println("outcome:", x.Outcome)
		for _, v := range x.Violations {
			fmt.Println("violation:", v.Fingerprint, "—", v.Detail)
		}
		if len(x.Violations) > 0 {
			return 1
		}
		return 0
	}
	fmt.Println("replay: no job named", r.Harness, "in this tier (try the other tier)")
	return 2
}

var e1child = flag.String("e1child", "", "internal: job:shard/nshards:deadlineUnixMilli:outfile")

// E1Batch explores all jobs. The goroutine hand-offs of the cooperative scheduler are fastest when one OS
// thread serves a run (measured: 19 000 executions/s with GOMAXPROCS=1 against 12 000/s for 16 in-process
// workers), so the batch is spread over worker *processes*: this binary re-executes itself once per
// (job, shard) with GOMAXPROCS=1, at most c.Workers at a time, and merges the statistics.
// budget is the wall-clock budget of the whole batch.
func (c *Check) E1Batch(jobs []E1Job, budget time.Duration) {
	c.batchNo++
	if c.Replay != "" {
		if rc := c.ReplayE1(jobs); rc != 2 {
			os.Exit(rc)
		}
		return
	}
	if *e1child != "" {
		var b int
		fmt.Sscanf(*e1child, "b%d:", &b)
		if b == c.batchNo {
			c.e1ChildMain(jobs)
		}
		return
	}
	if len(jobs) == 0 {
		return
	}
	type unit struct{ job, shard, n int }
	var units []unit
	totalW := 0
	for _, j := range jobs {
		if j.Weight <= 0 {
			j.Weight = 1
		}
		totalW += j.Weight
	}
	for i, j := range jobs {
		n := j.Shards
		if n <= 0 {
			n = 1
			if len(jobs) < c.Workers {
				n = (c.Workers + len(jobs) - 1) / len(jobs)
			}
		}
		for s := 0; s < n; s++ {
			units = append(units, unit{i, s, n})
		}
	}
	// every unit gets the same slice of the budget: budget * workers / units (at least 3 s)
	waves := (len(units) + c.Workers - 1) / c.Workers
	per := budget / time.Duration(waves)
	if per < 3*time.Second {
		per = 3 * time.Second
	}
	results := make([][]*explore.Stats, len(jobs))
	var mu sync.Mutex
	sem := make(chan struct{}, c.Workers)
	var wg sync.WaitGroup
	dir := filepath.Join(c.verifDir, "work", c.ID, "e1")
	_ = os.MkdirAll(dir, 0o755)
	for ui, u := range units {
		wg.Add(1)
		sem <- struct{}{}
		go func(ui int, u unit) {
			defer wg.Done()
			defer func() { <-sem }()
			out := filepath.Join(dir, fmt.Sprintf("b%d-u%d.json", c.batchNo, ui))
			_ = os.Remove(out)
			dl := time.Now().Add(per)
			args := []string{"-tier", c.Tier, "-seed", fmt.Sprint(c.Seed), "-verif", c.verifDir, "-workers", "1",
				"-e1child", fmt.Sprintf("b%d:%d:%d/%d:%d:%s", c.batchNo, u.job, u.shard, u.n, dl.UnixMilli(), out)}
			cmd := exec.Command(os.Args[0], args...)
			cmd.Env = append(os.Environ(), "GOMAXPROCS=1", "GOGC=200")
			cmd.Stderr = os.Stderr
			err := cmd.Run()
			var st explore.Stats
			b, rerr := os.ReadFile(out)
			if err != nil || rerr != nil || json.Unmarshal(b, &st) != nil {
				c.EngineError("%s shard %d/%d: worker process failed: %v %v", jobs[u.job].Name, u.shard, u.n, err, rerr)
				return
			}
			_ = os.Remove(out)
			mu.Lock()
			results[u.job] = append(results[u.job], &st)
			mu.Unlock()
		}(ui, u)
	}
	wg.Wait()
	for i, j := range jobs {
		if len(results[i]) == 0 {
			continue
		}
		c.foldE1(j, merge(results[i]))
	}
}

func merge(l []*explore.Stats) *explore.Stats {
	m := &explore.Stats{Tags: map[string]int64{}, Outcomes: map[string]int64{}, OutcomeSample: map[string][]vrt.Dev{}, FoundCount: map[string]int64{}, CompletedBound: 1 << 30, Saturated: true}
	for _, s := range l {
		m.Execs += s.Execs
		m.Steps += s.Steps
		m.Nodes += s.Nodes
		m.ChoicePoints += s.ChoicePoints
		if s.MaxTrace > m.MaxTrace {
			m.MaxTrace = s.MaxTrace
		}
		for k, v := range s.ExecsByCost {
			for len(m.ExecsByCost) <= k {
				m.ExecsByCost = append(m.ExecsByCost, 0)
			}
			m.ExecsByCost[k] += v
		}
		// a shard whose whole subtree was enumerated has completed every bound
		if !s.Saturated && s.CompletedBound < m.CompletedBound {
			m.CompletedBound = s.CompletedBound
		}
		m.Saturated = m.Saturated && s.Saturated
		if s.Capped != "" {
			m.Capped = s.Capped
		}
		for k, v := range s.Tags {
			m.Tags[k] += v
		}
		for k, v := range s.Outcomes {
			m.Outcomes[k] += v
			if _, ok := m.OutcomeSample[k]; !ok {
				m.OutcomeSample[k] = s.OutcomeSample[k]
			}
		}
		for _, f := range s.Found {
			dup := false
			for i := range m.Found {
				if m.Found[i].Violation.Fingerprint == f.Violation.Fingerprint {
					dup = true
					if len(f.Devs) < len(m.Found[i].Devs) {
						m.Found[i] = f
					}
				}
			}
			if !dup {
				m.Found = append(m.Found, f)
			}
		}
		for k, v := range s.FoundCount {
			m.FoundCount[k] += v
		}
		m.EngineErrors = append(m.EngineErrors, s.EngineErrors...)
		if s.Wall > m.Wall {
			m.Wall = s.Wall
		}
	}
	if m.CompletedBound == 1<<30 {
		m.CompletedBound = len(m.ExecsByCost) - 1
	}
	return m
}

func (c *Check) e1ChildMain(jobs []E1Job) {
	var ji, sh, n int
	var dl int64
	var out string
	parts := strings.SplitN(*e1child, ":", 5)
	if len(parts) == 5 {
		parts = parts[1:]
	}
	if len(parts) != 4 {
		fmt.Fprintln(os.Stderr, "bad -e1child")
		os.Exit(2)
	}
	fmt.Sscan(parts[0], &ji)
	fmt.Sscanf(parts[1], "%d/%d", &sh, &n)
	fmt.Sscan(parts[2], &dl)
	out = parts[3]
	if ji >= len(jobs) {
		fmt.Fprintln(os.Stderr, "bad job index")
		os.Exit(2)
	}
	j := jobs[ji]
	run := j.Run
	if os.Getenv("VERIF_DEBUG_NATIVE") != "" {
		run = func(d []vrt.Dev) *explore.Exec {
			x := j.Run(d)
			if x.S != nil && x.S.NativeBlock != "" {
				_ = os.WriteFile(out+".nativeblock.txt", []byte(x.S.NativeBlock), 0o644)
			}
			return x
		}
	}
	st := explore.Explore(explore.Config{Bound: j.Bound, Workers: 1, Deadline: time.UnixMilli(dl), Shard: sh, NShards: n}, run)
	// keep the file small: at most 64 outcomes are carried back
	if len(st.Outcomes) > 64 {
		keys := make([]string, 0, len(st.Outcomes))
		for k := range st.Outcomes {
			keys = append(keys, k)
		}
		sort.Strings(keys)
		extra := int64(0)
		for _, k := range keys[64:] {
			extra += st.Outcomes[k]
			delete(st.Outcomes, k)
			delete(st.OutcomeSample, k)
		}
		st.Outcomes["(other outcomes)"] = extra
	}
	profStop()
	b, _ := json.Marshal(st)
	if err := os.WriteFile(out, b, 0o644); err != nil {
		fmt.Fprintln(os.Stderr, err)
		os.Exit(2)
	}
	os.Exit(0)
}

// E1 runs a single job in this process (small explorations, tests).
func (c *Check) E1(name string, cfg explore.Config, run explore.RunFunc) *explore.Stats {
	if cfg.Workers == 0 {
		cfg.Workers = 1
	}
	st := explore.Explore(cfg, run)
	c.foldE1(E1Job{Name: name, Bound: cfg.Bound, Run: run}, st)
	return st
}

func (c *Check) foldE1(j E1Job, st *explore.Stats) {
	name := j.Name
	for _, e := range st.EngineErrors {
		c.EngineError("%s: %s", name, e)
	}
	sort.Slice(st.Found, func(a, b int) bool { return st.Found[a].Violation.Fingerprint < st.Found[b].Violation.Fingerprint })
	for _, f := range st.Found {
		// double replay: the same schedule must give the same observation before it is believed
		a, b := j.Run(f.Devs), j.Run(f.Devs)
		same := a.Outcome == b.Outcome && fpSet(a) == fpSet(b) && hasFP(a, f.Violation.Fingerprint)
		if !same {
			c.EngineError("%s: unreproducible candidate %s devs=%v (outcomes %q / %q)", name, f.Violation.Fingerprint, f.Devs, a.Outcome, b.Outcome)
			continue
		}
		c.Report(f.Violation.Fingerprint, fmt.Sprintf("%s (first of %d executions; deviations=%v)", f.Violation.Detail, st.FoundCount[f.Violation.Fingerprint], f.Devs),
			map[string]any{"harness": name, "devs": f.Devs, "outcome": f.Outcome})
	}
	if j.Post != nil && st.Capped == "" && len(st.EngineErrors) == 0 {
		for _, v := range j.Post(st) {
			c.Report(v.Fingerprint, v.Detail, map[string]any{"harness": name, "aggregate": true})
		}
	}
	outs := make([]string, 0, len(st.Outcomes))
	for k := range st.Outcomes {
		outs = append(outs, k)
	}
	sort.Strings(outs)
	for i, k := range outs {
		if i < 2 {
			c.Sample(map[string]any{"harness": name, "schedule_deviations": st.OutcomeSample[k], "outcome": k, "executions_with_this_outcome": st.Outcomes[k]})
		}
	}
	if len(outs) > 8 {
		outs = outs[:8]
	}
	c.Count("states", st.Nodes)
	c.Count("transitions", st.Steps)
	c.Count("traces", st.Execs)
	c.Count("evaluations", st.Execs)
	c.Count("distinct", int64(len(st.Outcomes)))
	exh := st.Saturated || (j.Bound >= 0 && st.CompletedBound == j.Bound)
	c.Exhaustive(exh && st.Capped == "")
	c.Sub(name, map[string]any{
		"engine": "E1 controlled scheduler", "executions": st.Execs, "scheduler_steps": st.Steps, "choice_tree_nodes": st.Nodes,
		"max_choice_points": st.MaxTrace, "bound_requested": j.Bound, "bound_completed": st.CompletedBound, "saturated": st.Saturated,
		"capped": st.Capped, "execs_by_deviations": st.ExecsByCost, "distinct_outcomes": len(st.Outcomes), "outcomes_head": outs,
		"violating_fingerprints": st.FoundCount, "wall_s": st.Wall.Seconds(),
	})
}

func fpSet(x *explore.Exec) string {
	var l []string
	for _, v := range x.Violations {
		l = append(l, v.Fingerprint)
	}
	sort.Strings(l)
	return fmt.Sprint(l)
}
func hasFP(x *explore.Exec, fp string) bool {
	for _, v := range x.Violations {
		if v.Fingerprint == fp {
			return true
		}
	}
	return false
}
