package vlib

import (
	"encoding/json"
	"os"

	vrt "verif.local/vrt"
)

type E1Replay struct {
	Harness string
	Devs    []vrt.Dev
	Raw     map[string]any
}

func LoadReplay(path string) (*E1Replay, error) {
	b, err := os.ReadFile(path)
	if err != nil {
		return nil, err
	}
	var d replayDoc
	if err := json.Unmarshal(b, &d); err != nil {
		return nil, err
	}
	r := &E1Replay{Harness: d.Replay.Harness}
	for _, x := range d.Replay.Devs {
		r.Devs = append(r.Devs, vrt.Dev{Pos: x.Pos, Alt: x.Alt})
	}
	var raw map[string]any
	_ = json.Unmarshal(b, &raw)
	r.Raw = raw
	return r, nil
}
