package vlib

import (
	"fmt"
	"sort"
	"strings"
	"sync"
	"time"

	"verif.local/vrt/explore"
)

// BFSStep rebuilds a fresh real object, applies the event history (indices into the alphabet) and returns
// the canonical key of the state reached, the violations observed at the *last* step (earlier steps were
// judged when their prefix was expanded), and whether the state should not be expanded further.
type BFSStep func(hist []int) (key string, viols []explore.Violation, stop bool)

type BFSStats struct {
	States, Transitions int64
	DepthCompleted      int
	Complete            bool // the frontier became empty: every reachable state (under the alphabet) was visited
	Capped              string
}

// BFS is engine E2: breadth-first search over event histories with canonical-state de-duplication.
// A state is represented by the (shortest) history that reaches it; successors are produced by replaying
// history+event on a fresh real object.
func (c *Check) BFS(name string, nEvents func(hist []int) int, maxDepth int, deadline time.Time, step BFSStep, describe func(hist []int) any) *BFSStats {
	st := &BFSStats{}
	seen := map[string]bool{}
	k0, v0, _ := step(nil)
	seen[k0] = true
	st.States = 1
	for _, v := range v0 {
		c.Report(v.Fingerprint, name+": (initial state) "+v.Detail, map[string]any{"harness": name, "history": []int{}})
	}
	frontier := [][]int{{}}
	var mu sync.Mutex
	sampled := 0
	for depth := 1; depth <= maxDepth && len(frontier) > 0; depth++ {
		var next [][]int
		type res struct {
			hist  []int
			key   string
			viols []explore.Violation
			stop  bool
		}
		work := make(chan []int, 256)
		out := make(chan res, 256)
		var wg sync.WaitGroup
		for w := 0; w < c.Workers; w++ {
			wg.Add(1)
			go func() {
				defer wg.Done()
				for h := range work {
					k, v, s := step(h)
					out <- res{h, k, v, s}
				}
			}()
		}
		capped := ""
		go func() {
			for _, h := range frontier {
				if time.Now().After(deadline) {
					mu.Lock()
					capped = "time budget"
					mu.Unlock()
					break
				}
				n := nEvents(h)
				for e := 0; e < n; e++ {
					nh := make([]int, len(h)+1)
					copy(nh, h)
					nh[len(h)] = e
					work <- nh
				}
			}
			close(work)
			wg.Wait()
			close(out)
		}()
		for r := range out {
			st.Transitions++
			for _, v := range r.viols {
				var d any = r.hist
				if describe != nil {
					d = describe(r.hist)
				}
				c.Report(v.Fingerprint, fmt.Sprintf("%s: %s (history %v)", name, v.Detail, d), map[string]any{"harness": name, "history": r.hist, "described": d})
			}
			if !seen[r.key] {
				seen[r.key] = true
				st.States++
				if !r.stop && len(r.viols) == 0 {
					next = append(next, r.hist)
				}
				if sampled < 3 && describe != nil && depth >= 3 {
					sampled++
					c.Sample(map[string]any{"harness": name, "history": describe(r.hist), "state": r.key})
				}
			}
		}
		if capped != "" {
			st.Capped = capped
			break
		}
		st.DepthCompleted = depth
		frontier = next
	}
	st.Complete = st.Capped == "" && len(frontier) == 0
	c.Count("states", st.States)
	c.Count("transitions", st.Transitions)
	c.Count("traces", st.Transitions)
	c.Count("evaluations", st.Transitions)
	c.Count("distinct", st.States)
	c.Exhaustive(st.Capped == "" && (st.Complete || st.DepthCompleted == maxDepth))
	var keys []string
	for k := range seen {
		if len(keys) < 80 && !strings.HasPrefix(k, "noop") {
			keys = append(keys, k)
		}
	}
	sort.Strings(keys)
	c.Sub(name, map[string]any{"engine": "E2 explicit-state BFS on the real object", "states": st.States, "transitions": st.Transitions, "state_keys_head": keys,
		"depth_completed": st.DepthCompleted, "depth_requested": maxDepth, "state_space_closed": st.Complete, "capped": st.Capped})
	return st
}
