package vlib
