// Package vlib is the common reporting layer of all checks: tier/seed handling, known-findings lookup,
// VIOLATION / KNOWN-FINDING lines, replay artefacts and the evidence file.
package vlib

import (
	"crypto/sha256"
	"encoding/hex"
	"encoding/json"
	"flag"
	"fmt"
	"os"
	"path/filepath"
	"runtime/pprof"
	"sort"
	"strconv"
	"strings"
	"sync"
	"time"
)

type KnownEntry struct {
	Property    string `json:"property"`
	Fingerprint string `json:"fingerprint"`
	What        string `json:"what"`
	Status      string `json:"status"` // open | fixed
	Commit      string `json:"commit,omitempty"`
}

var profStop = func() {}

type Check struct {
	ID      string
	Level   string
	Tier    string
	Seed    int64
	Replay  string // --replay FILE
	Workers int
	Budget  time.Duration // soft wall-clock budget for the whole check (0: none)

	verifDir string
	start    time.Time
	mu       sync.Mutex
	known    map[string]KnownEntry
	seen     map[string]bool // fingerprints already printed
	nViol    int
	nKnown   int
	subs     []map[string]any
	assume   []string
	samples  []any
	counters map[string]int64
	engErr   []string
	exh      bool
	exhSet   bool
	batchNo  int
}

// New parses the common flags. level is the MANIFEST category of the check.
func New(id, level string) *Check {
	c := &Check{ID: id, Level: level, start: time.Now(), known: map[string]KnownEntry{}, seen: map[string]bool{}, counters: map[string]int64{}}
	tier := flag.String("tier", envOr("VERIF_TIER", "quick"), "quick|thorough")
	seed := flag.Int64("seed", envInt("VERIF_SEED", 1), "seed (key material only)")
	flag.StringVar(&c.Replay, "replay", "", "replay file")
	flag.StringVar(&c.verifDir, "verif", envOr("VERIF_DIR", "/verif"), "verif dir")
	flag.IntVar(&c.Workers, "workers", int(envInt("VERIF_WORKERS", 16)), "parallel explorer workers")
	budget := flag.Duration("budget", 0, "soft time budget (default: per tier, set by the check)")
	flag.Parse()
	if pf := os.Getenv("VERIF_CPUPROFILE"); pf != "" {
		f, err := os.Create(pf)
		if err == nil {
			_ = pprof.StartCPUProfile(f)
			profStop = func() { pprof.StopCPUProfile(); f.Close() }
		}
	}
	c.Tier, c.Seed, c.Budget = *tier, *seed, *budget
	if c.Tier != "quick" && c.Tier != "thorough" {
		c.Tier = "quick"
	}
	b, err := os.ReadFile(filepath.Join(c.verifDir, "findings", "known.json"))
	if err == nil {
		var l []KnownEntry
		if err := json.Unmarshal(b, &l); err != nil {
			fmt.Fprintln(os.Stderr, "vlib: findings/known.json:", err)
			os.Exit(2)
		}
		for _, e := range l {
			if e.Property == id {
				c.known[e.Fingerprint] = e
			}
		}
	}
	return c
}

func envOr(k, d string) string {
	if v := os.Getenv(k); v != "" {
		return v
	}
	return d
}
func envInt(k string, d int64) int64 {
	if v, err := strconv.ParseInt(os.Getenv(k), 10, 64); err == nil {
		return v
	}
	return d
}

func (c *Check) Quick() bool { return c.Tier == "quick" }

// Deadline returns the instant at which exploration should stop voluntarily: q/t are the per-tier budgets.
func (c *Check) Deadline(q, t time.Duration) time.Time {
	d := q
	if !c.Quick() {
		d = t
	}
	if c.Budget > 0 {
		d = c.Budget
	}
	return c.start.Add(d)
}

// DeadlineIn is a per-phase budget counted from now.
func (c *Check) DeadlineIn(q, t time.Duration) time.Time {
	d := q
	if !c.Quick() {
		d = t
	}
	if c.Budget > 0 && c.Budget < d {
		d = c.Budget
	}
	return time.Now().Add(d)
}

// Report records a violation with the given fingerprint. A fingerprint listed open in findings/known.json
// is printed once as KNOWN-FINDING; anything else is a VIOLATION with a replay artefact.
func (c *Check) Report(fingerprint, detail string, replay any) {
	c.mu.Lock()
	defer c.mu.Unlock()
	if c.seen[fingerprint] {
		return
	}
	c.seen[fingerprint] = true
	if e, ok := c.known[fingerprint]; ok && e.Status == "open" {
		c.nKnown++
		fmt.Printf("KNOWN-FINDING: property=%s %s [%s] %s\n", c.ID, e.What, fingerprint, oneLine(detail))
		return
	}
	c.nViol++
	h := sha256.Sum256([]byte(fingerprint))
	p := filepath.Join(c.verifDir, "replays", fmt.Sprintf("%s-%s.json", c.ID, hex.EncodeToString(h[:6])))
	_ = os.MkdirAll(filepath.Dir(p), 0o755)
	b, _ := json.MarshalIndent(map[string]any{"property": c.ID, "fingerprint": fingerprint, "detail": detail, "replay": replay, "tier": c.Tier, "seed": c.Seed}, "", " ")
	_ = os.WriteFile(p, b, 0o644)
	fmt.Printf("VIOLATION property=%s replay=%s\n", c.ID, p)
	fmt.Printf("  fingerprint: %s\n  detail: %s\n", fingerprint, oneLine(detail))
}

func oneLine(s string) string {
	s = strings.ReplaceAll(s, "\n", " | ")
	if len(s) > 600 {
		s = s[:600] + "..."
	}
	return s
}

// EngineError records a failure of the machinery itself (replay divergence, native block, build problem).
// It never produces a VIOLATION line; the check exits 2.
func (c *Check) EngineError(format string, a ...any) {
	c.mu.Lock()
	defer c.mu.Unlock()
	m := fmt.Sprintf(format, a...)
	c.engErr = append(c.engErr, m)
	fmt.Fprintln(os.Stderr, "ENGINE-ERROR:", oneLine(m))
}

func (c *Check) Assume(s ...string) { c.mu.Lock(); c.assume = append(c.assume, s...); c.mu.Unlock() }

// Sample keeps up to 12 written-out cases for the evidence file.
func (c *Check) Sample(v any) {
	c.mu.Lock()
	if len(c.samples) < 12 {
		c.samples = append(c.samples, v)
	}
	c.mu.Unlock()
}

// Samples returns the samples recorded so far.
func (c *Check) Samples() []any { c.mu.Lock(); defer c.mu.Unlock(); return c.samples }

func (c *Check) Count(k string, n int64) { c.mu.Lock(); c.counters[k] += n; c.mu.Unlock() }

// Exhaustive ANDs into the exhaustive flag of the run.
func (c *Check) Exhaustive(b bool) {
	c.mu.Lock()
	if !c.exhSet {
		c.exh, c.exhSet = b, true
	} else {
		c.exh = c.exh && b
	}
	c.mu.Unlock()
}

// Sub records the coverage of one sub-check (free-form map, kept under coverage.sub_checks).
func (c *Check) Sub(name string, m map[string]any) {
	c.mu.Lock()
	m["name"] = name
	c.subs = append(c.subs, m)
	c.mu.Unlock()
	b, _ := json.Marshal(m)
	fmt.Printf("sub-check %s: %s\n", name, b)
}

// Finish writes evidence/<id>.json and exits: 0 held (or only known findings), 1 violation, 2 engine error.
// Counters used: states, transitions, traces (traces_validated_against_impl), evaluations, distinct.
func (c *Check) Finish(rule string) {
	c.mergeParts()
	c.mu.Lock()
	defer c.mu.Unlock()
	cov := map[string]any{
		"rule":                rule,
		"samples":             c.samples,
		"sub_checks":          c.subs,
		"exhaustive":          c.exh && c.exhSet && len(c.engErr) == 0,
		"evaluations":         c.counters["evaluations"],
		"distinct_nontrivial": c.counters["distinct"],
		"known_findings_seen": c.nKnown,
	}
	if c.Level == "model_checking" {
		cov["states"] = c.counters["states"]
		cov["transitions"] = c.counters["transitions"]
		cov["traces_validated_against_impl"] = c.counters["traces"]
	}
	keys := make([]string, 0, len(c.counters))
	for k := range c.counters {
		keys = append(keys, k)
	}
	sort.Strings(keys)
	extra := map[string]int64{}
	for _, k := range keys {
		switch k {
		case "states", "transitions", "traces", "evaluations", "distinct":
		default:
			extra[k] = c.counters[k]
		}
	}
	if len(extra) > 0 {
		cov["counters"] = extra
	}
	if len(c.engErr) > 0 {
		cov["engine_errors"] = c.engErr
	}
	if len(c.samples) == 0 {
		cov["samples"] = []any{"(no case was explored)"}
	}
	ev := map[string]any{
		"property_id": c.ID,
		"tier":        c.Tier,
		"seed":        c.Seed,
		"level":       c.Level,
		"coverage":    cov,
		"assumptions": c.assume,
		"wall_s":      time.Since(c.start).Seconds(),
		"violations":  c.nViol,
	}
	b, _ := json.MarshalIndent(ev, "", " ")
	p := filepath.Join(c.verifDir, "evidence", c.ID+os.Getenv("VERIF_EVIDENCE_SUFFIX")+partSuffix()+".json")
	_ = os.MkdirAll(filepath.Dir(p), 0o755)
	if err := os.WriteFile(p, b, 0o644); err != nil {
		fmt.Fprintln(os.Stderr, "vlib: cannot write evidence:", err)
		os.Exit(2)
	}
	profStop()
	fmt.Printf("%s %s: violations=%d known_findings=%d engine_errors=%d wall=%.1fs evidence=%s\n", c.ID, c.Tier, c.nViol, c.nKnown, len(c.engErr), time.Since(c.start).Seconds(), p)
	switch {
	case c.nViol > 0:
		os.Exit(1)
	case len(c.engErr) > 0:
		os.Exit(2)
	}
	os.Exit(0)
}

// A check can consist of several binaries (different instrumentation profiles). A part (VERIF_EVIDENCE_PART=<p>)
// writes evidence/<ID>.part-<p>.json; the main binary, run last, folds the parts into its own evidence and removes them.
func partSuffix() string {
	if p := os.Getenv("VERIF_EVIDENCE_PART"); p != "" {
		return ".part-" + p
	}
	return ""
}

func (c *Check) mergeParts() {
	if partSuffix() != "" {
		return
	}
	files, _ := filepath.Glob(filepath.Join(c.verifDir, "evidence", c.ID+os.Getenv("VERIF_EVIDENCE_SUFFIX")+".part-*.json"))
	for _, f := range files {
		b, err := os.ReadFile(f)
		if err != nil {
			continue
		}
		var ev struct {
			Tier        string   `json:"tier"`
			Violations  int      `json:"violations"`
			Assumptions []string `json:"assumptions"`
			Coverage    struct {
				Subs       []map[string]any `json:"sub_checks"`
				Exhaustive bool             `json:"exhaustive"`
				States     int64            `json:"states"`
				Trans      int64            `json:"transitions"`
				Traces     int64            `json:"traces_validated_against_impl"`
				Evals      int64            `json:"evaluations"`
				Distinct   int64            `json:"distinct_nontrivial"`
				Known      int              `json:"known_findings_seen"`
				EngErr     []string         `json:"engine_errors"`
				Counters   map[string]int64 `json:"counters"`
				Samples    []any            `json:"samples"`
			} `json:"coverage"`
		}
		if json.Unmarshal(b, &ev) != nil || ev.Tier != c.Tier {
			_ = os.Remove(f)
			continue
		}
		c.mu.Lock()
		c.subs = append(c.subs, ev.Coverage.Subs...)
		c.assume = append(c.assume, ev.Assumptions...)
		c.nViol += ev.Violations
		c.nKnown += ev.Coverage.Known
		c.engErr = append(c.engErr, ev.Coverage.EngErr...)
		c.counters["states"] += ev.Coverage.States
		c.counters["transitions"] += ev.Coverage.Trans
		c.counters["traces"] += ev.Coverage.Traces
		c.counters["evaluations"] += ev.Coverage.Evals
		c.counters["distinct"] += ev.Coverage.Distinct
		for k, v := range ev.Coverage.Counters {
			c.counters[k] += v
		}
		if len(c.samples) < 6 {
			for _, s := range ev.Coverage.Samples {
				if _, isStr := s.(string); !isStr {
					c.samples = append(c.samples, s)
				}
			}
		}
		if !ev.Coverage.Exhaustive {
			c.exh = false
		}
		c.mu.Unlock()
		_ = os.Remove(f)
	}
}

type replayDoc struct {
	Property    string `json:"property"`
	Fingerprint string `json:"fingerprint"`
	Replay      struct {
		Harness string `json:"harness"`
		Devs    []struct {
			Pos int
			Alt int
		} `json:"devs"`
		Extra json.RawMessage `json:"extra"`
	} `json:"replay"`
}
