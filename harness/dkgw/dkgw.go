// Package dkgw builds the DKG "world" shared by C08 and C09: three real processes (leader L, node under test M,
// member B) taken through a real first DKG and a real reshare proposal under virtual time, with snapshots of M's
// database in each base state, and a builder of harness-signed gossip packets.
package dkgw

import (
	"context"
	"fmt"
	"os"
	"path/filepath"
	"time"

	pb "google.golang.org/protobuf/proto"
	"google.golang.org/protobuf/types/known/timestamppb"

	"github.com/drand/drand/v2/common/key"
	"github.com/drand/drand/v2/crypto"
	"github.com/drand/drand/v2/internal/dkg"
	"github.com/drand/drand/v2/internal/util"
	pdkg "github.com/drand/drand/v2/protobuf/dkg"
	"github.com/drand/drand/v2/verifharness/dnet"
	"github.com/drand/drand/v2/verifharness/fix"
	vrt "verif.local/vrt"
)

const BeaconID = "default"

type World struct {
	Sch        *crypto.Scheme
	KL, KM, KB *key.Pair // leader, node under test, other member
	KJ, KX     *key.Pair // joiner candidate, outsider/attacker
	PL, PM, PB *pdkg.Participant
	PJ, PX     *pdkg.Participant
	Snap       map[string]string // base state -> path of M's dkg.db copy
	At         map[string]time.Time
	Group1     *key.Group
	Group2     *key.Group          // the group after M was resharded out (nil if that resharing did not complete on L)
	Terms2     *pdkg.ProposalTerms // the real epoch-2 proposal M holds in Proposed/Accepted
	Terms3     *pdkg.ProposalTerms // the real epoch-2 proposal in which M leaves (base state "leaving")
	Err        error
}

func Part(kp *key.Pair) *pdkg.Participant {
	p, err := util.PublicKeyAsParticipant(kp.Public)
	if err != nil {
		panic(err)
	}
	return p
}

func CopyFile(from, to string) {
	b, err := os.ReadFile(from)
	if err != nil {
		panic(err)
	}
	_ = os.MkdirAll(filepath.Dir(to), 0o755)
	if err := os.WriteFile(to, b, 0o600); err != nil {
		panic(err)
	}
}

// setup runs the real commands once and snapshots M's database in each base state.
func Setup(scID, dir string) *World {
	sch, _ := crypto.SchemeFromName(scID)
	w := &World{Sch: sch, Snap: map[string]string{}, At: map[string]time.Time{}}
	w.KL, w.KM, w.KB = fix.DetKeyPair("c09/L", "10.9.0.1:7000", sch), fix.DetKeyPair("c09/M", "10.9.0.2:7000", sch), fix.DetKeyPair("c09/B", "10.9.0.3:7000", sch)
	w.KJ, w.KX = fix.DetKeyPair("c09/J", "10.9.0.4:7000", sch), fix.DetKeyPair("c09/X", "10.9.0.66:7000", sch)
	w.PL, w.PM, w.PB, w.PJ, w.PX = Part(w.KL), Part(w.KM), Part(w.KB), Part(w.KJ), Part(w.KX)
	s := vrt.Run(vrt.Options{MaxSteps: 3000000, Watchdog: 60 * time.Second, Until: vrt.Epoch.Add(30 * time.Minute)}, func() {
		ctx := context.Background()
		nt := dnet.New(sch)
		defer nt.Close()
		var nodes []*dnet.Node
		for _, kp := range []*key.Pair{w.KL, w.KM, w.KB} {
			nd, err := nt.AddNode(kp)
			if err != nil {
				w.Err = err
				return
			}
			nodes = append(nodes, nd)
		}
		L, M, B := nodes[0], nodes[1], nodes[2]
		clk := &vrt.Clock{}
		dbPath := func() string { return filepath.Join(M.Dir, dkg.BoltFileName) }
		snapshot := func(name string) {
			p := filepath.Join(dir, scID, name, dkg.BoltFileName)
			CopyFile(dbPath(), p)
			w.Snap[name] = p
			w.At[name] = clk.Now()
		}
		snapshot("fresh")
		if err := nt.Initial(ctx, L, []*pdkg.Participant{w.PL, w.PM, w.PB}, 2, clk.Now().Add(2*time.Minute), clk.Now().Add(time.Hour)); err != nil {
			w.Err = fmt.Errorf("initial: %w", err)
			return
		}
		for _, nd := range []*dnet.Node{M, B} {
			if err := nt.Join(ctx, nd, nil); err != nil {
				w.Err = fmt.Errorf("join: %w", err)
				return
			}
		}
		if err := nt.Execute(ctx, L); err != nil {
			w.Err = fmt.Errorf("execute: %w", err)
			return
		}
		clk.Sleep(nt.Cfg.KickoffGracePeriod + 4*nt.Cfg.TimeBetweenDKGPhases)
		fin := M.Finished(BeaconID)
		if fin == nil || fin.State != dkg.Complete {
			w.Err = fmt.Errorf("epoch 1 did not complete on M")
			return
		}
		w.Group1 = fin.FinalGroup
		snapshot("complete")
		// a real epoch-2 proposal from L (same set)
		if err := nt.Reshare(ctx, L, []*pdkg.Participant{w.PL, w.PM, w.PB}, nil, nil, 2, clk.Now().Add(time.Hour)); err != nil {
			w.Err = fmt.Errorf("reshare: %w", err)
			return
		}
		cur := M.Current(BeaconID)
		if cur == nil || cur.State != dkg.Proposed {
			w.Err = fmt.Errorf("M is not in Proposed after the real proposal (state %v)", cur)
			return
		}
		w.Terms2 = dkg.VerifTermsFromState(cur)
		snapshot("proposed")
		// the other member answers first: M records B's acceptance
		if err := nt.Accept(ctx, B); err != nil {
			w.Err = fmt.Errorf("accept by B: %w", err)
			return
		}
		clk.Sleep(2 * time.Second) // gossip is asynchronous
		if cur := M.Current(BeaconID); cur == nil || len(cur.Acceptors) != 1 {
			w.Err = fmt.Errorf("M did not record B's acceptance")
			return
		}
		snapshot("b-accepted")
		if err := nt.Accept(ctx, M); err != nil {
			w.Err = fmt.Errorf("accept: %w", err)
			return
		}
		snapshot("accepted")
		// "failed": the execution of that resharing failed on M. executeAndFinishDKG records exactly this: the current
		// record with its state set to Failed, the finished record (epoch 1) untouched
		{
			p := filepath.Join(dir, scID, "failed", dkg.BoltFileName)
			CopyFile(dbPath(), p)
			if st, err := dkg.NewDKGStore(filepath.Dir(p)); err == nil {
				if cur, err := st.GetCurrent(BeaconID); err == nil && cur != nil {
					cur.State = dkg.Failed
					_ = st.SaveCurrent(BeaconID, cur)
				}
				_ = st.Close()
				w.Snap["failed"] = p
				w.At["failed"] = clk.Now()
			}
		}
		// the leader aborts, then proposes a resharing in which M leaves, and executes it: M ends in Left at epoch 2
		if err := nt.Abort(ctx, L); err != nil {
			w.Err = fmt.Errorf("abort: %w", err)
			return
		}
		clk.Sleep(2 * time.Second)
		if err := nt.Reshare(ctx, L, []*pdkg.Participant{w.PL, w.PB}, nil, []*pdkg.Participant{w.PM}, 2, clk.Now().Add(time.Hour)); err != nil {
			w.Err = fmt.Errorf("reshare without M: %w", err)
			return
		}
		// "leaving": M holds the proposal that reshards it out (Proposed, listed under Leaving), nobody has accepted yet
		clk.Sleep(2 * time.Second) // gossip is asynchronous
		if cur := M.Current(BeaconID); cur != nil && cur.State == dkg.Proposed && len(cur.Leaving) == 1 {
			w.Terms3 = dkg.VerifTermsFromState(cur)
			snapshot("leaving")
		} else {
			w.Err = fmt.Errorf("M is not in Proposed as a leaver after the proposal that reshards it out (state %v)", cur)
			return
		}
		if err := nt.Accept(ctx, B); err != nil {
			w.Err = fmt.Errorf("accept by B: %w", err)
			return
		}
		clk.Sleep(2 * time.Second)
		if err := nt.Execute(ctx, L); err != nil {
			w.Err = fmt.Errorf("execute without M: %w", err)
			return
		}
		clk.Sleep(nt.Cfg.KickoffGracePeriod + 4*nt.Cfg.TimeBetweenDKGPhases)
		if cur := M.Current(BeaconID); cur == nil || cur.State != dkg.Left {
			w.Err = fmt.Errorf("M is not in Left after being resharded out (state %v)", cur)
			return
		}
		if f := L.Finished(BeaconID); f != nil && f.FinalGroup != nil {
			w.Group2 = f.FinalGroup
		}
		snapshot("left")
	})
	if s.Panic != "" && w.Err == nil {
		w.Err = fmt.Errorf("panic during set-up: %.500s", s.Panic)
	}
	if s.NativeBlock != "" && w.Err == nil {
		w.Err = fmt.Errorf("native block during set-up")
	}
	return w
}

type Case struct {
	Base     string
	Kind     string // proposal | accept | reject | execute | abort
	Claimed  string // L | B | M | J | X  (whose address the packet claims to come from)
	Signer   string // same letters: whose key signs; "Xsub": attacker key, substituted into the participant lists under the claimed sender's address; "Xdup": attacker key listed as an additional joiner under the claimed sender's address
	Mutation string
	Legit    bool // the reference predicate: this packet may change M's state
	// PreSign applies the mutation BEFORE signing: a correctly signed packet whose terms are invalid (C08)
	PreSign bool
}

func (t Case) String() string {
	return fmt.Sprintf("base=%s kind=%s claimed-sender=%s signed-by=%s mutation=%s", t.Base, t.Kind, t.Claimed, t.Signer, t.Mutation)
}

func (w *World) kp(name string) *key.Pair {
	return map[string]*key.Pair{"L": w.KL, "M": w.KM, "B": w.KB, "J": w.KJ, "X": w.KX}[name]
}
func (w *World) pt(name string) *pdkg.Participant {
	return map[string]*pdkg.Participant{"L": w.PL, "M": w.PM, "B": w.PB, "J": w.PJ, "X": w.PX}[name]
}

// proposalTerms builds the terms a proposal packet carries for the base state.
func (w *World) proposalTerms(base string, now time.Time) *pdkg.ProposalTerms {
	if base == "left" {
		// M, resharded out at epoch 2, is proposed as a joiner of epoch 3
		return &pdkg.ProposalTerms{BeaconID: BeaconID, Epoch: 3, Leader: w.PL, Threshold: 2, Timeout: timestamppb.New(now.Add(time.Hour)),
			CatchupPeriodSeconds: 1, BeaconPeriodSeconds: 3, SchemeID: w.Sch.Name, GenesisTime: timestamppb.New(time.Unix(w.Group1.GenesisTime, 0)),
			GenesisSeed: w.Group1.GenesisSeed, Remaining: []*pdkg.Participant{w.PL, w.PB}, Joining: []*pdkg.Participant{w.PM}}
	}
	if base == "fresh" {
		return &pdkg.ProposalTerms{BeaconID: BeaconID, Epoch: 1, Leader: w.PL, Threshold: 2, Timeout: timestamppb.New(now.Add(time.Hour)),
			CatchupPeriodSeconds: 1, BeaconPeriodSeconds: 3, SchemeID: w.Sch.Name, GenesisTime: timestamppb.New(now.Add(10 * time.Minute)),
			Joining: []*pdkg.Participant{w.PL, w.PM, w.PB}}
	}
	return &pdkg.ProposalTerms{BeaconID: BeaconID, Epoch: 2, Leader: w.PL, Threshold: 2, Timeout: timestamppb.New(now.Add(time.Hour)),
		CatchupPeriodSeconds: 1, BeaconPeriodSeconds: 3, SchemeID: w.Sch.Name, GenesisTime: timestamppb.New(time.Unix(w.Group1.GenesisTime, 0)),
		GenesisSeed: w.Group1.GenesisSeed, Remaining: []*pdkg.Participant{w.PL, w.PM, w.PB}}
}

func clonePart(p *pdkg.Participant) *pdkg.Participant { return pb.Clone(p).(*pdkg.Participant) }

// build makes the packet of a test case; ok=false if the combination does not exist.
func (w *World) Build(t Case, now time.Time) (*pdkg.GossipPacket, bool) {
	return w.build(t, nil, now)
}

// BuildOver builds a control packet (accept / reject / execute / abort) signed over the given terms (what the node
// under test currently holds).
func (w *World) BuildOver(t Case, over *pdkg.ProposalTerms, now time.Time) (*pdkg.GossipPacket, bool) {
	return w.build(t, over, now)
}

// ReshareOptions / InitialOptions are valid operator options for the node under test proposing itself as leader.
func (w *World) ReshareOptions(now time.Time) *pdkg.ProposalOptions {
	return &pdkg.ProposalOptions{Timeout: timestamppb.New(now.Add(time.Hour)), Threshold: 2, CatchupPeriodSeconds: 1,
		Remaining: []*pdkg.Participant{w.PL, w.PM, w.PB}}
}
func (w *World) InitialOptions(now time.Time) *pdkg.FirstProposalOptions {
	return &pdkg.FirstProposalOptions{Timeout: timestamppb.New(now.Add(time.Hour)), Threshold: 2, PeriodSeconds: 3, Scheme: w.Sch.Name, CatchupPeriodSeconds: 1,
		GenesisTime: timestamppb.New(now.Add(10 * time.Minute)), Joining: []*pdkg.Participant{w.PM, w.PL, w.PB}}
}

func (w *World) build(t Case, over *pdkg.ProposalTerms, now time.Time) (*pdkg.GossipPacket, bool) {
	var terms *pdkg.ProposalTerms
	pkt := &pdkg.GossipPacket{}
	claimed := w.pt(t.Claimed)
	switch t.Kind {
	case "proposal":
		terms = w.proposalTerms(t.Base, now)
		if t.Claimed != "L" {
			// somebody else claims to be the leader of their own proposal
			terms.Leader = claimed
			if t.Claimed == "X" || t.Claimed == "J" {
				// not a member: they put themselves in (as remaining, so that the lists stay well-formed)
				if t.Base == "fresh" {
					terms.Joining = append(terms.Joining, claimed)
					terms.Threshold = uint32(key.MinimumT(len(terms.Joining)))
				} else {
					return nil, false
				}
			}
		}
		pkt.Packet = &pdkg.GossipPacket_Proposal{Proposal: terms}
	case "accept", "reject", "execute", "abort":
		if over != nil {
			terms = pb.Clone(over).(*pdkg.ProposalTerms)
		} else {
			if t.Base != "proposed" && t.Base != "accepted" && t.Base != "b-accepted" && t.Base != "leaving" {
				return nil, false
			}
			terms = pb.Clone(w.Terms2).(*pdkg.ProposalTerms)
			if t.Base == "leaving" {
				terms = pb.Clone(w.Terms3).(*pdkg.ProposalTerms)
			}
		}
		switch t.Kind {
		case "accept":
			pkt.Packet = &pdkg.GossipPacket_Accept{Accept: &pdkg.AcceptProposal{Acceptor: w.PB}}
		case "reject":
			pkt.Packet = &pdkg.GossipPacket_Reject{Reject: &pdkg.RejectProposal{Rejector: w.PB}}
		case "execute":
			pkt.Packet = &pdkg.GossipPacket_Execute{Execute: &pdkg.StartExecution{Time: timestamppb.New(now.Add(30 * time.Second))}}
		case "abort":
			pkt.Packet = &pdkg.GossipPacket_Abort{Abort: &pdkg.AbortDKG{Reason: "c09"}}
		}
	default:
		return nil, false
	}
	signer := w.kp(t.Signer)
	if t.Signer == "Xdup" {
		// attacker key under the claimed sender's address, listed IN ADDITION to the genuine entry (as a joiner): whichever
		// entry the verifier picks for that address decides whose key the signature is checked against
		atk := fix.DetKeyPair("c09/attacker-dup-"+t.Claimed, claimed.Address, w.Sch)
		signer = atk
		if t.Kind != "proposal" {
			return nil, false
		}
		terms.Joining = append(terms.Joining, Part(atk))
		if th := uint32(key.MinimumT(len(terms.Joining) + len(terms.Remaining))); terms.Threshold < th {
			terms.Threshold = th // one participant more: keep the proposal above the security threshold
		}
	}
	if t.Signer == "Xsub" {
		// attacker key under the claimed sender's address, substituted wherever that sender is listed
		atk := fix.DetKeyPair("c09/attacker-as-"+t.Claimed, claimed.Address, w.Sch)
		ap := Part(atk)
		signer = atk
		if t.Kind != "proposal" {
			return nil, false // only a proposal carries participant lists
		}
		sub := func(l []*pdkg.Participant) {
			for i, p := range l {
				if p.Address == ap.Address {
					l[i] = ap
				}
			}
		}
		sub(terms.Joining)
		sub(terms.Remaining)
		sub(terms.Leaving)
		if terms.Leader.Address == ap.Address {
			terms.Leader = ap
		}
	}
	if t.PreSign {
		if !w.mutate(t, pkt, now) {
			return nil, false
		}
	}
	if t.Mutation == "sig-of-other-vote" {
		// the entitled member's genuine signature over the OPPOSITE vote, transplanted onto this packet: the signature
		// must cover the action, an acceptance cannot be replayed as a rejection (and vice versa)
		var other *pdkg.GossipPacket
		switch t.Kind {
		case "accept":
			other = &pdkg.GossipPacket{Packet: &pdkg.GossipPacket_Reject{Reject: &pdkg.RejectProposal{Rejector: w.PB}}}
		case "reject":
			other = &pdkg.GossipPacket{Packet: &pdkg.GossipPacket_Accept{Accept: &pdkg.AcceptProposal{Acceptor: w.PB}}}
		default:
			return nil, false
		}
		sig, err := signer.Scheme().AuthScheme.Sign(signer.Key, dkg.VerifMessageForSigning(BeaconID, other, terms))
		if err != nil {
			panic(err)
		}
		pkt.Metadata = &pdkg.GossipMetadata{BeaconID: BeaconID, Address: claimed.Address, Signature: sig}
		return pkt, true
	}
	sig, err := signer.Scheme().AuthScheme.Sign(signer.Key, dkg.VerifMessageForSigning(BeaconID, pkt, terms))
	if err != nil {
		panic(err)
	}
	pkt.Metadata = &pdkg.GossipMetadata{BeaconID: BeaconID, Address: claimed.Address, Signature: sig}
	if t.PreSign {
		return pkt, true
	}
	if !w.mutate(t, pkt, now) {
		return nil, false
	}
	return pkt, true
}

// mutate applies the case's single-field mutation to the packet; false if the combination does not exist.
func (w *World) mutate(t Case, pkt *pdkg.GossipPacket, now time.Time) bool {
	// mutation AFTER signing
	pt := func() *pdkg.ProposalTerms { return pkt.GetProposal() }
	switch t.Mutation {
	case "none":
	case "stale-epoch":
		pt().Epoch--
	case "first-epoch-again":
		// a proposal for epoch 1 that lists everybody as a joiner, as the very first one did
		p := pt()
		p.Epoch = 1
		p.GenesisSeed = nil
		p.Joining = []*pdkg.Participant{w.PL, w.PM, w.PB}
		p.Remaining, p.Leaving = nil, nil
		p.GenesisTime = timestamppb.New(now.Add(10 * time.Minute))
	case "expired-timeout":
		pt().Timeout = timestamppb.New(now.Add(-time.Minute))
	case "threshold-low":
		pt().Threshold = 1
	case "unknown-scheme":
		pt().SchemeID = "no-such-scheme"
	case "wrong-beacon-id":
		pt().BeaconID = "another-beacon"
	case "metadata-address":
		if pkt.Metadata == nil {
			return false
		}
		pkt.Metadata.Address = w.PB.Address
		if t.Claimed == "B" {
			pkt.Metadata.Address = w.PL.Address
		}
	case "metadata-beacon-id":
		if pkt.Metadata == nil {
			return false
		}
		pkt.Metadata.BeaconID = "other"
	case "signature-bitflip":
		if pkt.Metadata == nil {
			return false
		}
		pkt.Metadata.Signature[len(pkt.Metadata.Signature)/2] ^= 1
	default:
		if t.Kind != "proposal" {
			return false
		}
		p := pt()
		switch t.Mutation {
		case "epoch":
			p.Epoch++
		case "threshold":
			p.Threshold++
		case "timeout":
			p.Timeout = timestamppb.New(p.Timeout.AsTime().Add(time.Minute))
		case "beacon-period":
			p.BeaconPeriodSeconds++
		case "catchup-period":
			p.CatchupPeriodSeconds++
		case "scheme":
			if p.SchemeID == crypto.DefaultSchemeID {
				p.SchemeID = crypto.UnchainedSchemeID
			} else {
				p.SchemeID = crypto.DefaultSchemeID
			}
		case "genesis-time":
			p.GenesisTime = timestamppb.New(p.GenesisTime.AsTime().Add(time.Second))
		case "genesis-seed":
			if t.Base == "fresh" {
				return false
			}
			p.GenesisSeed = append([]byte{}, p.GenesisSeed...)
			p.GenesisSeed[0] ^= 1
		case "drop-member":
			if t.Base == "fresh" {
				p.Joining = p.Joining[:len(p.Joining)-1]
			} else {
				p.Remaining = p.Remaining[:len(p.Remaining)-1]
			}
		case "add-member":
			p.Joining = append(p.Joining, w.PJ)
		case "member-address":
			l := p.Remaining
			if t.Base == "fresh" {
				l = p.Joining
			}
			c := clonePart(l[len(l)-1])
			c.Address = "10.9.0.99:7000"
			l[len(l)-1] = c
		case "member-key":
			// another (validly self-signed) key under an existing member's address
			l := p.Remaining
			if t.Base == "fresh" {
				l = p.Joining
			}
			other := Part(fix.DetKeyPair("c09/other-key-for-B", l[len(l)-1].Address, w.Sch))
			l[len(l)-1] = other
		case "member-signature":
			l := p.Remaining
			if t.Base == "fresh" {
				l = p.Joining
			}
			c := clonePart(l[len(l)-1])
			c.Signature = append([]byte{}, c.Signature...)
			c.Signature[3] ^= 1
			l[len(l)-1] = c
		case "leader-key":
			other := Part(fix.DetKeyPair("c09/other-key-for-L", p.Leader.Address, w.Sch))
			p.Leader = other
		default:
			return false
		}
	}
	return true
}
