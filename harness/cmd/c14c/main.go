// c14c — property C14, sub-check c14-midflight: requests that arrive in the middle of a state transition.
//
// c14-robust sends its requests to daemons that are at rest. Here three real daemons run a first key generation; one
// of them (the traced member) is built with the persistence points of engine E3 (package vcrash) and is made to stop
// for a moment at one of them — one run per point it passes from the start of the execution to the end of the
// hand-over to the beacon process — and while it stands there a small request alphabet (unknown chain hash, unknown
// beacon id, the chain's own id, on the public and the peer-facing service) is sent to it. The requests themselves
// are not judged (the daemon is standing still); afterwards, with the key generation completed, the probe set must
// be answered in bounded time: "no such request leaves an internal lock held".
//
// Exhaustive over: persistence points of the traced member in that window (quick: one occurrence of each distinct
// point; thorough: every occurrence, and the leader as traced node too) x the whole request alphabet at once.
package main

import (
	"context"
	"encoding/json"
	"fmt"
	"os"
	"strings"
	"sync"
	"time"

	"github.com/drand/drand/v2/crypto"
	proto "github.com/drand/drand/v2/protobuf/drand"
	"github.com/drand/drand/v2/verifharness/bench"
	"github.com/drand/drand/v2/verifharness/vlib"
	"google.golang.org/grpc/codes"
	"google.golang.org/grpc/status"
)

const beaconID = "default"

type point struct {
	label string
	occ   int
}

func (p point) String() string { return fmt.Sprintf("%s#%d", p.label, p.occ) }

func readPoints(file string) []point {
	b, err := os.ReadFile(file)
	if err != nil {
		return nil
	}
	var out []point
	for _, l := range strings.Split(string(b), "\n") {
		l = strings.TrimSuffix(strings.TrimSpace(l), " CRASH")
		if i := strings.LastIndex(l, "#"); i > 0 {
			var n int
			fmt.Sscanf(l[i+1:], "%d", &n)
			out = append(out, point{l[:i], n})
		}
	}
	return out
}

type result struct {
	points   []point // points the traced node passed after the execution was started
	paused   bool
	problems []string
	engine   string
}

var unknownHash = []byte(strings.Repeat("\x42", 32))

// requests sent while the daemon stands at the point (each with its own deadline; outcome not judged)
func fire(ch *bench.Child) {
	mds := []*proto.Metadata{
		{ChainHash: unknownHash},
		{BeaconID: beaconID, ChainHash: unknownHash},
		{BeaconID: "no-such-beacon"},
		{BeaconID: beaconID},
	}
	var wg sync.WaitGroup
	for _, md := range mds {
		md := md
		for k := 0; k < 3; k++ {
			k := k
			wg.Add(1)
			go func() {
				defer wg.Done()
				ctx, cancel := context.WithTimeout(context.Background(), 8*time.Second)
				defer cancel()
				switch k {
				case 0:
					_, _ = ch.Public.ChainInfo(ctx, &proto.ChainInfoRequest{Metadata: md})
				case 1:
					_, _ = ch.Protocol.GetIdentity(ctx, &proto.IdentityRequest{Metadata: md})
				case 2:
					_, _ = ch.Public.PublicRand(ctx, &proto.PublicRandRequest{Round: 1, Metadata: md})
				}
			}()
		}
	}
	wg.Wait()
}

func runOnce(traced int, at *point) (res result) {
	var cl *bench.Cluster
	var err error
	logFile, flag := "", ""
	for try := 0; try < 3; try++ {
		if cl, err = bench.NewCluster(3, beaconID, crypto.DefaultSchemeID, 1, false); err != nil {
			continue
		}
		logFile, flag = cl.Dirs[traced]+"/points.log", cl.Dirs[traced]+"/pause.flag"
		env := []string{"VERIF_CRASH_LOG=" + logFile}
		if at != nil {
			env = append(env, "VERIF_PAUSE_AT="+at.String(), "VERIF_PAUSE_MS=3000", "VERIF_PAUSE_FLAG="+flag)
		}
		err = nil
		for i := range cl.Nodes {
			var e []string
			if i == traced {
				e = env
			}
			if err = cl.StartNode(i, e); err != nil {
				break
			}
		}
		if err == nil {
			break
		}
		cl.Close()
	}
	if err != nil {
		res.engine = "cluster start: " + err.Error()
		return
	}
	defer cl.Close()
	retry := func(f func() error) error {
		var e error
		for i := 0; i < 20; i++ {
			if e = f(); e == nil {
				return nil
			}
			time.Sleep(300 * time.Millisecond)
		}
		return e
	}
	if err := retry(func() error { return cl.ProposeInitial(0, []int{0, 1, 2}, 2, 8*time.Second) }); err != nil {
		res.engine = "initial proposal: " + err.Error()
		return
	}
	for _, i := range []int{1, 2} {
		i := i
		if err := retry(func() error { return cl.Join(i, nil) }); err != nil {
			res.engine = fmt.Sprintf("join %d: %v", i, err)
			return
		}
	}
	before := len(readPoints(logFile))
	// the request alphabet is sent the moment the traced daemon stands at its point
	stop := make(chan struct{})
	fired := make(chan struct{})
	go func() {
		defer close(fired)
		for {
			select {
			case <-stop:
				return
			default:
			}
			if _, err := os.Stat(flag); err == nil && at != nil {
				res.paused = true
				time.Sleep(200 * time.Millisecond)
				fire(cl.Nodes[traced])
				return
			}
			time.Sleep(20 * time.Millisecond)
		}
	}()
	if err := retry(func() error { return cl.Execute(0) }); err != nil {
		close(stop)
		res.engine = "execute: " + err.Error()
		return
	}
	werr := cl.WaitComplete(1, []int{0, 1, 2}, 120*time.Second)
	time.Sleep(1500 * time.Millisecond) // the hand-over to the beacon process follows the completion
	close(stop)
	<-fired
	if werr != nil {
		res.engine = "first DKG did not complete: " + werr.Error()
		return
	}
	if all := readPoints(logFile); len(all) >= before {
		res.points = all[before:]
	}
	// probes: every one answered (with a result or a refusal) within 5 s
	ch := cl.Nodes[traced]
	probe := func(name string, f func(ctx context.Context) error, wantOK bool) {
		ctx, cancel := context.WithTimeout(context.Background(), 5*time.Second)
		defer cancel()
		err := f(ctx)
		switch {
		case err != nil && (status.Code(err) == codes.DeadlineExceeded || ctx.Err() != nil):
			res.problems = append(res.problems, "wedged/"+name)
		case err != nil && wantOK:
			res.problems = append(res.problems, "refused/"+name+": "+err.Error())
		}
	}
	probe("Public.ChainInfo(id)", func(ctx context.Context) error {
		_, err := ch.Public.ChainInfo(ctx, &proto.ChainInfoRequest{Metadata: &proto.Metadata{BeaconID: beaconID}})
		return err
	}, true)
	probe("Protocol.GetIdentity(id)", func(ctx context.Context) error {
		_, err := ch.Protocol.GetIdentity(ctx, &proto.IdentityRequest{Metadata: &proto.Metadata{BeaconID: beaconID}})
		return err
	}, true)
	probe("Public.ChainInfo(unknown hash)", func(ctx context.Context) error {
		_, err := ch.Public.ChainInfo(ctx, &proto.ChainInfoRequest{Metadata: &proto.Metadata{ChainHash: unknownHash}})
		return err
	}, false)
	probe("control DKG status", func(ctx context.Context) error {
		done := make(chan error, 1)
		go func() { _, _, err := cl.Status(traced); done <- err }()
		select {
		case err := <-done:
			return err
		case <-ctx.Done():
			return ctx.Err()
		}
	}, true)
	if !ch.Alive() {
		res.problems = append(res.problems, "process-died")
	}
	return
}

func main() {
	bench.MaybeChild()
	c := vlib.New("C14", "model_checking")
	// no step of this sub-check waits without a deadline of its own, but it drives real processes: a run that has not
	// finished long after every deadline has passed is reported as an engine error instead of hanging
	go func() {
		d := 8*time.Minute
		if !c.Quick() {
			d *= 3
		}
		time.Sleep(d)
		c.EngineError("watchdog: the sub-check did not finish within %v", d)
		c.Finish("watchdog")
	}()
	if c.Replay != "" {
		// re-run the one point named in the replay file
		var rp struct {
			Replay struct {
				Traced int    `json:"traced"`
				Point  string `json:"point"`
			} `json:"replay"`
		}
		if b, err := os.ReadFile(c.Replay); err == nil && json.Unmarshal(b, &rp) == nil {
			if i := strings.LastIndex(rp.Replay.Point, "#"); i > 0 {
				p := point{label: rp.Replay.Point[:i]}
				fmt.Sscanf(rp.Replay.Point[i+1:], "%d", &p.occ)
				r := runOnce(rp.Replay.Traced, &p)
				fmt.Printf("replay: traced node %d stood at %s (reached: %v): problems %v %s\n", rp.Replay.Traced, p, r.paused, r.problems, r.engine)
				if len(r.problems) > 0 {
					fmt.Printf("VIOLATION property=C14 replay=%s\n", c.Replay)
					os.Exit(1)
				}
				os.Exit(0)
			}
		}
		fmt.Println("replay: cannot read the replay file")
		os.Exit(2)
	}
	roles := []int{1}
	if !c.Quick() {
		roles = []int{1, 0}
	}
	var runs, pausedRuns int64
	for _, traced := range roles {
		base := runOnce(traced, nil)
		if base.engine != "" {
			// once more: real daemons on a loaded machine
			base = runOnce(traced, nil)
		}
		if base.engine != "" || len(base.points) == 0 {
			c.EngineError("c14-midflight: baseline run of traced node %d failed: %s (points %d)", traced, base.engine, len(base.points))
			continue
		}
		if len(base.problems) > 0 {
			c.Report("c14/midflight/baseline/"+strings.SplitN(base.problems[0], ":", 2)[0], fmt.Sprintf("traced node %d, no pause, no extra request: %v", traced, base.problems), map[string]any{"traced": traced})
			continue
		}
		var todo []point
		seen := map[string]bool{}
		for _, p := range base.points {
			if c.Quick() && seen[p.label] {
				continue
			}
			seen[p.label] = true
			todo = append(todo, p)
		}
		var mu sync.Mutex
		sem := make(chan struct{}, 6)
		var wg sync.WaitGroup
		for _, p := range todo {
			p := p
			wg.Add(1)
			sem <- struct{}{}
			go func() {
				defer wg.Done()
				defer func() { <-sem }()
				r := runOnce(traced, &p)
				if r.engine != "" {
					r = runOnce(traced, &p)
				}
				if len(r.problems) > 0 {
					// a finding must show again
					if r2 := runOnce(traced, &p); len(r2.problems) == 0 {
						r.problems = nil
						mu.Lock()
						c.Count("problems_not_reproduced_on_rerun", 1)
						mu.Unlock()
					}
				}
				mu.Lock()
				defer mu.Unlock()
				if runs < 3 {
					c.Sample(map[string]any{"traced_node": traced, "stood_at": p.String(), "reached": r.paused, "requests_sent_meanwhile": 12, "probe_problems": r.problems})
				}
				runs++
				if r.paused {
					pausedRuns++
				}
				if r.engine != "" {
					c.Count("runs_skipped_for_set-up_failures", 1)
					return
				}
				for _, pr := range r.problems {
					kind := strings.SplitN(pr, ":", 2)[0]
					c.Report(fmt.Sprintf("c14/midflight/%s/at=%s", kind, p.label),
						fmt.Sprintf("traced node %d stood at persistence point %s for 3 s during the first key generation while requests with an unknown chain hash / unknown beacon id / its own id were sent to it; afterwards, key generation completed: %s", traced, p, pr),
						map[string]any{"harness": "c14-midflight", "traced": traced, "point": p.String(), "problem": pr})
				}
			}()
		}
		wg.Wait()
		c.Sub(fmt.Sprintf("c14-midflight/traced=node%d", traced), map[string]any{"engine": "E2/E3: real daemons, one run per persistence point", "points_in_window": len(base.points),
			"distinct_points": len(seen), "runs": len(todo), "requests_per_run": 12, "probes_per_run": 5})
	}
	c.Count("states", runs)
	c.Count("transitions", runs*12)
	c.Count("evaluations", runs*5)
	c.Count("traces", runs)
	c.Count("distinct", runs)
	c.Count("runs_in_which_the_daemon_stood_at_its_point", pausedRuns)
	c.Assume("the pause is a 3 s sleep at an instrumented persistence point (same instrumentation as C13); the requests sent meanwhile are not judged, only the probes after the key generation completed")
	c.Finish("one case = one first key generation of three real daemons in which the traced member stands at one persistence point while the request alphabet is sent to it")
}
