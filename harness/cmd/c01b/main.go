// c01b — second part of the C01 check: the gRPC serving path "a successful answer to a request for round r contains
// the beacon of round r and nothing else".
//
// Engine E1 on the real BeaconProcess.PublicRand (internal/core, instrumented) over a real beacon.Handler's store
// stack: requests for the round about to be produced (which wait on a store callback), for stored rounds and for
// the latest round run concurrently with an appender that stores the next rounds; every interleaving within the
// deviation bound (saturation for the small configurations). Oracle: an answer is an error, or carries exactly the
// requested round (the latest stored one for round 0) with the chain's signature for that round.
package main

import (
	"context"
	"fmt"
	"os"
	"strings"
	"time"

	"github.com/drand/drand/v2/common"
	pubchain "github.com/drand/drand/v2/common/chain"
	"github.com/drand/drand/v2/crypto"
	"github.com/drand/drand/v2/internal/core"
	pb "github.com/drand/drand/v2/protobuf/drand"
	"github.com/drand/drand/v2/verifharness/bnet"
	"github.com/drand/drand/v2/verifharness/fix"
	"github.com/drand/drand/v2/verifharness/vlib"
	vrt "verif.local/vrt"
	"verif.local/vrt/explore"
)

type cfg struct {
	Scheme   string   `json:"scheme"`
	Head     uint64   `json:"head"`
	Requests []uint64 `json:"requests"` // requested rounds (0 = latest), relative meaning: absolute round numbers
	Appends  int      `json:"appends"`
	Bound    int      `json:"bound"`
}

func (c cfg) String() string {
	return fmt.Sprintf("%s/head=%d/requests=%v/appends=%d", c.Scheme, c.Head, c.Requests, c.Appends)
}

type answer struct {
	resp *pb.PublicRandResponse
	err  error
	done bool
}

func runOne(k *bnet.Keys, c cfg, devs []vrt.Dev, labels bool) *explore.Exec {
	ref := k.RefChain(c.Head + uint64(c.Appends) + 1)
	answers := make([]*answer, len(c.Requests))
	var net *bnet.Net
	var setupErr error
	start := time.Unix(common.TimeOfRound(k.Period, k.Genesis, c.Head), 0).Add(100 * time.Millisecond)
	s := vrt.Run(vrt.Options{Devs: devs, MaxSteps: 300000, Labels: labels, Watchdog: 60 * time.Second, Start: start, Until: start.Add(3*k.Period + 2*time.Second)}, func() {
		ctx := context.Background()
		net = bnet.NewNet(k)
		nd, err := net.AddNode(ctx, k, 0, "memdb", 0)
		if err != nil {
			setupErr = err
			return
		}
		for r := uint64(1); r <= c.Head; r++ {
			if err := nd.H.Store().Put(ctx, fix.CopyBeacon(ref[r])); err != nil {
				setupErr = err
				return
			}
		}
		info := pubchain.NewChainInfo(k.Group())
		bp := core.VerifServingProcess(k.BeaconID, info.Hash(), k.Group(), nd.H, fix.Logger())
		for i, want := range c.Requests {
			i, want := i, want
			answers[i] = &answer{}
			vrt.GoNamed(fmt.Sprintf("request-%d(round %d)", i, want), func() {
				resp, err := bp.PublicRand(ctx, &pb.PublicRandRequest{Round: want})
				answers[i].resp, answers[i].err, answers[i].done = resp, err, true
			})
		}
		vrt.GoNamed("appender", func() {
			for a := 1; a <= c.Appends; a++ {
				vrt.Logf("node stores round %d", c.Head+uint64(a))
				if err := nd.H.Store().Put(ctx, fix.CopyBeacon(ref[c.Head+uint64(a)])); err != nil {
					vrt.Logf("put: %v", err)
				}
			}
		})
		clk := &vrt.Clock{}
		clk.Sleep(2*k.Period + time.Second)
		vrt.WaitIdle()
	})
	if net != nil {
		net.Close()
	}
	x := &explore.Exec{S: s}
	if s.NativeBlock != "" || s.ReplayDivergence != "" {
		x.Outcome = "ENGINE"
		return x
	}
	add := func(fp, f string, a ...any) {
		x.Violations = append(x.Violations, explore.Violation{Fingerprint: "c01/serve/" + fp, Detail: c.String() + ": " + fmt.Sprintf(f, a...)})
	}
	if setupErr != nil {
		add("harness-setup", "%v", setupErr)
		return x
	}
	if s.Panic != "" {
		add("panic", "%.600s", s.Panic)
	}
	var outs []string
	for i, a := range answers {
		want := c.Requests[i]
		switch {
		case a == nil || !a.done:
			add("request-never-returns", "PublicRand(%d) did not return within two periods", want)
			outs = append(outs, "hang")
		case a.err != nil:
			outs = append(outs, "err")
		default:
			r := a.resp.GetRound()
			outs = append(outs, fmt.Sprint(r))
			if want != 0 && r != want {
				add("wrong-round", "a successful answer to a request for round %d carries the beacon of round %d", want, r)
			}
			if want == 0 && (r < c.Head || r > c.Head+uint64(c.Appends)) {
				add("wrong-round", "the answer to a request for the latest round carries round %d (head was %d, %d rounds were appended)", r, c.Head, c.Appends)
			}
			if r < uint64(len(ref)) && string(ref[r].Signature) != string(a.resp.GetSignature()) {
				add("wrong-signature", "the answer for round %d does not carry the chain's signature of that round", r)
			}
			if err := k.RefVerify(&common.Beacon{Round: r, Signature: a.resp.GetSignature(), PreviousSig: a.resp.GetPreviousSignature()}); err != nil {
				add("answer-does-not-verify", "the answer for round %d does not verify: %v", r, err)
			}
			// (the process leaves the randomness field to the proxy / the client; when present it must be the hash)
			if rnd := crypto.RandomnessFromSignature(a.resp.GetSignature()); len(a.resp.GetRandomness()) > 0 && string(rnd) != string(a.resp.GetRandomness()) {
				add("wrong-randomness", "randomness of the answer for round %d is not sha256(signature)", r)
			}
		}
	}
	x.Outcome = strings.Join(outs, ",")
	return x
}

func main() {
	c := vlib.New("C01", "model_checking")
	genesis := vrt.Epoch.Add(2 * time.Second).Unix()
	var cfgs []cfg
	schemes := []string{crypto.DefaultSchemeID, crypto.UnchainedSchemeID}
	if !c.Quick() {
		schemes = crypto.ListSchemes()
	}
	for _, sc := range schemes {
		b1, b2 := 2, 2
		if !c.Quick() {
			b1, b2 = 4, 3
		}
		cfgs = append(cfgs,
			cfg{Scheme: sc, Head: 2, Requests: []uint64{3}, Appends: 2, Bound: b1},
			cfg{Scheme: sc, Head: 2, Requests: []uint64{3, 0}, Appends: 2, Bound: b2},
			cfg{Scheme: sc, Head: 2, Requests: []uint64{3, 3, 2}, Appends: 2, Bound: b2},
			cfg{Scheme: sc, Head: 2, Requests: []uint64{4, 3}, Appends: 3, Bound: b2},
		)
	}
	keys := map[string]*bnet.Keys{}
	for _, sc := range schemes {
		keys[sc] = bnet.NewKeys(sc, 3, 2, 3*time.Second, genesis)
	}
	var jobs []vlib.E1Job
	for _, cf := range cfgs {
		cf := cf
		k := keys[cf.Scheme]
		jobs = append(jobs, vlib.E1Job{Name: "c01-serve/" + cf.String(), Bound: cf.Bound,
			Run:     func(d []vrt.Dev) *explore.Exec { return runOne(k, cf, d, false) },
			Labeled: func(d []vrt.Dev) *explore.Exec { return runOne(k, cf, d, true) }})
	}
	if c.Replay != "" {
		os.Exit(c.ReplayE1(jobs))
	}
	c.E1Batch(jobs, time.Until(c.DeadlineIn(60*time.Second, 20*time.Minute)))
	c.Assume("scheduling points: the instrumented concurrency operations of internal/core, internal/chain/beacon, internal/chain/memdb; beacons are stored through the handler's real store stack by an appender thread (aggregation itself is c01-agg)")
	c.Finish("one case = one execution of {PublicRand requests, appender} on the real BeaconProcess over the real store stack under one schedule; distinct = distinct tuples of answered rounds")
}
