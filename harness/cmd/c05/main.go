// c05 — property C05 (bounded liveness): a threshold of connected honest nodes produces every due round; after
// an outage the chain catches up; a node that was down rejoins and contributes again.
//
// Engine E1: networks of real handlers under the controlled scheduler with scripted fault sequences
// (partitions, one-directional link cuts, node stops and restarts, loss of quorum) followed by a healed period;
// within the deviation bound every schedule (and, as explorer choices, drops of individual partials before the
// heal) is explored and every execution must END with every running node's head at the current round of its
// clock, having advanced one round at a time — i.e. no explored prefix leaves the network wedged.
package main

import (
	"fmt"
	"time"

	"github.com/drand/drand/v2/crypto"
	"github.com/drand/drand/v2/verifharness/bnet"
	"github.com/drand/drand/v2/verifharness/vlib"
	vrt "verif.local/vrt"
	"verif.local/vrt/explore"
)

func scripts(n, t int, thorough bool) [][]bnet.Fault {
	F := func(k string, node int, at uint64) bnet.Fault { return bnet.Fault{Kind: k, Node: node, AtRound: at} }
	s := [][]bnet.Fault{nil}
	for d := uint64(1); d <= 3; d++ {
		s = append(s, []bnet.Fault{F("partition", 0, 2), F("heal", 0, 2+d)})
	}
	// longer than the partial-cache window (head+4): only the tick-triggered sync can close this gap
	s = append(s, []bnet.Fault{F("partition", 0, 2), F("heal", 0, 8)})
	s = append(s,
		[]bnet.Fault{F("stop", 0, 2), F("restart", 0, 4)},
		[]bnet.Fault{F("stop", 1, 3), F("restart", 1, 4)},
		// loss of quorum: the chain halts, then resumes and catches up
		[]bnet.Fault{F("stop", 0, 2), F("stop", 1, 2), F("restart", 0, 4), F("restart", 1, 5)},
		[]bnet.Fault{F("partition", 0, 2), F("partition", 1, 2), F("heal", 0, 4), F("heal", 1, 4)},
		[]bnet.Fault{{Kind: "cut", Node: 0, Peer: 1, AtRound: 1}, {Kind: "uncut", Node: 0, Peer: 1, AtRound: 4}},
		[]bnet.Fault{F("partition", 2, 1), F("stop", 0, 2), F("heal", 2, 3), F("restart", 0, 5)},
		[]bnet.Fault{F("dbfail", 2, 3)},
		[]bnet.Fault{F("dbfail", 0, 2), F("dbfail", 1, 4)},
	)
	if thorough {
		for i := 1; i < n; i++ {
			s = append(s, []bnet.Fault{F("partition", i, 2), F("heal", i, 5)}, []bnet.Fault{F("stop", i, 2), F("restart", i, 6)})
		}
		s = append(s,
			[]bnet.Fault{F("stop", 0, 1), F("stop", 1, 1), F("stop", 2, 1), F("restart", 0, 3), F("restart", 1, 3), F("restart", 2, 4)},
			[]bnet.Fault{F("partition", 0, 2), F("heal", 0, 3), F("partition", 0, 4), F("heal", 0, 5)},
			[]bnet.Fault{F("stop", 0, 2), F("restart", 0, 3), F("stop", 0, 4), F("restart", 0, 6)})
	}
	return s
}

func run(sc *bnet.Scenario, devs []vrt.Dev, labels bool) *explore.Exec {
	r := sc.Run(devs, labels)
	x := sc.JudgeSafety(r, "c05/safety")
	sc.JudgeLiveness(r, x, "c05")
	if r.Net != nil {
		r.Net.Close()
	}
	return x
}

func main() {
	c := vlib.New("C05", "model_checking")
	genesis := vrt.Epoch.Add(2 * time.Second).Unix()
	type job struct {
		scheme string
		n, t   int
		be     []string
		rounds int
		drop   bool
		bound  int
	}
	var js []job
	if c.Quick() {
		js = []job{
			{crypto.DefaultSchemeID, 3, 2, []string{"memdb", "memdb", "memdb"}, 12, false, 1},
			{crypto.UnchainedSchemeID, 3, 2, []string{"memdb", "bolt-trimmed", "memdb"}, 12, false, 0},
		}
	} else {
		js = []job{
			{crypto.DefaultSchemeID, 3, 2, []string{"memdb", "memdb", "memdb"}, 13, false, 2},
			{crypto.UnchainedSchemeID, 3, 2, []string{"memdb", "memdb", "memdb"}, 13, false, 1},
			{crypto.DefaultSchemeID, 4, 3, []string{"memdb", "memdb", "memdb", "memdb"}, 13, false, 1},
			{crypto.SigsOnG1ID, 3, 2, []string{"bolt-trimmed", "bolt-untrimmed", "memdb"}, 13, false, 1},
			{crypto.DefaultSchemeID, 3, 2, []string{"memdb", "memdb", "memdb"}, 10, true, 1},
		}
	}
	var jobs []vlib.E1Job
	for _, j := range js {
		k := bnet.NewKeys(j.scheme, j.n, j.t, 3*time.Second, genesis)
		sc := &bnet.Scenario{Keys: k, Backends: j.be, Rounds: j.rounds, Scripts: scripts(j.n, j.t, !c.Quick()), Drop: j.drop}
		jobs = append(jobs, vlib.E1Job{Name: fmt.Sprintf("c05-live/%s/n=%d/t=%d/%v/rounds=%d/drop=%v/scripts=%d", j.scheme, j.n, j.t, j.be, j.rounds, j.drop, len(sc.Scripts)), Bound: j.bound,
			Run: func(devs []vrt.Dev) *explore.Exec { return run(sc, devs, false) }, Labeled: func(devs []vrt.Dev) *explore.Exec { return run(sc, devs, true) }})
	}
	F := func(k string, node int, at uint64) bnet.Fault { return bnet.Fault{Kind: k, Node: node, AtRound: at} }
	// c05-outage: fewer than a threshold connected for many rounds (longer than the window of rounds for which partials
	// are cached), then everybody is back: the chain resumes from where it stopped and catches up
	{
		outage := [][]bnet.Fault{
			{F("partition", 0, 2), F("partition", 1, 2), F("partition", 2, 2), F("heal", 0, 10), F("heal", 1, 10), F("heal", 2, 10)},
			{F("partition", 0, 2), F("partition", 1, 2), F("heal", 0, 9), F("heal", 1, 11)},
			{F("stop", 0, 2), F("stop", 1, 2), F("restart", 0, 9), F("restart", 1, 9)},
		}
		for _, scheme := range []string{crypto.DefaultSchemeID, crypto.UnchainedSchemeID} {
			k := bnet.NewKeys(scheme, 3, 2, 3*time.Second, genesis)
			b := 0
			if !c.Quick() && scheme == crypto.DefaultSchemeID {
				b = 1
			}
			sc := &bnet.Scenario{Keys: k, Backends: []string{"memdb", "memdb", "memdb"}, Rounds: 18, Scripts: outage}
			jobs = append(jobs, vlib.E1Job{Name: fmt.Sprintf("c05-outage/%s/n=3/t=2/rounds=18/scripts=%d", scheme, len(outage)), Bound: b,
				Run: func(devs []vrt.Dev) *explore.Exec { return run(sc, devs, false) }, Labeled: func(devs []vrt.Dev) *explore.Exec { return run(sc, devs, true) }})
		}
	}
	// c05-stall: a node catching up over a sync stream whose server is cut off in the middle (the stream goes silent, it
	// does not end): the sync must be renewed with the other peers and the chain must go on once a threshold is connected
	stall := [][]bnet.Fault{
		{F("partition", 1, 13), F("heal", 1, 17)},
		{F("partition", 2, 13), F("heal", 2, 18)},
		{F("stop", 1, 13), F("restart", 1, 17)},
	}
	for _, scheme := range []string{crypto.DefaultSchemeID, crypto.UnchainedSchemeID} {
		k := bnet.NewKeys(scheme, 3, 2, 3*time.Second, genesis)
		b := 0
		if !c.Quick() {
			b = 1
		}
		// node 0 starts ten rounds behind; each packet of its catch-up stream takes 400 ms, so the fault (2.5 s after
		// the start) hits the stream in the middle; whichever peer it chose (free choice), it must end up level
		sc := &bnet.Scenario{Keys: k, Backends: []string{"memdb", "memdb", "memdb"}, Rounds: 12, Scripts: stall, SilentCuts: true, SyncPacketLatency: 400 * time.Millisecond,
			Prefill: []uint64{2, 12, 12}, StartRound: 12}
		jobs = append(jobs, vlib.E1Job{Name: fmt.Sprintf("c05-stall/%s/n=3/t=2/prefill=[2 12 12]/scripts=%d", scheme, len(stall)), Bound: b,
			Run: func(devs []vrt.Dev) *explore.Exec { return run(sc, devs, false) }, Labeled: func(devs []vrt.Dev) *explore.Exec { return run(sc, devs, true) }})
	}
	c.E1Batch(jobs, time.Until(c.DeadlineIn(150*time.Second, 40*time.Minute)))
	c.Assume("bounded liveness: 'eventually' is decided as 'by the end of a healed horizon of (missed rounds x catch-up period + 3 periods) under default timing (timers fire when the system is idle)', and as absence of wedged states among all explored prefixes; unbounded fairness-based liveness is not decided",
		"RPCs are instantaneous calls of the peer's real handler; a partition makes them fail immediately; in the c05-stall jobs a sync stream that is already open when its link is cut stalls (packets lost silently) instead of ending")
	c.Finish("one case = one execution of a network of real handlers under one fault script and one schedule; distinct = distinct (script, final heads) outcomes")
}
