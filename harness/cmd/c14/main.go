//go:build conn_insecure

// c14 — property C14: no message from the network can crash or wedge a node.
//
// Engine E2 on the daemon bench: a real drand daemon runs in a child process (so that a crash is observable and
// survivable) with seven chains covering the node states of the property (running x2 schemes, fresh, leader of a
// proposed DKG, leader of a DKG in its execution phase, joiner of a proposed DKG, stopped) plus an unknown id.
// The request alphabet is generated from the protobuf descriptors: for every remote-reachable gRPC method
// (drand.Public, drand.Protocol, dkg.DKGPublic, drand.Metrics) and every node state a well-formed base request
// (DKG control packets and protocol bundles validly signed by the harness-owned other participants), and every
// single-field change of it, recursively (absent/empty nested messages, every oneof alternative, byte fields
// empty/short/truncated/extended/bit-flipped/oversize, numeric boundaries, every known and unknown beacon id,
// repeated fields empty/one-empty/duplicated/long); signed packets are sent both with the stale signature and
// re-signed by the claimed sender (so that they pass authentication and reach the code behind it). HTTP paths are
// enumerated likewise. Every request is sent over real loopback gRPC/HTTP; after each one the oracle checks that the
// call came back, the process is alive, and a fixed probe set of valid requests on every endpoint (including one
// through each internal lock) still gets served. Depth 1 from the seven states (quick); depth 2 over one
// representative per (method, state, response class) (thorough).
package main

import (
	"encoding/hex"
	"encoding/json"
	"fmt"
	"os"
	"sort"
	"strings"
	"sync"
	"time"

	"github.com/drand/drand/v2/verifharness/bench"
	"github.com/drand/drand/v2/verifharness/dw"
	"github.com/drand/drand/v2/verifharness/vlib"
)

var trace = os.Getenv("VERIF_C14_TRACE") != ""

type finding struct {
	kind   string
	it     dw.Item
	prev   *dw.Item
	detail string
}

func main() {
	bench.MaybeChild()
	c := vlib.New("C14", "model_checking")
	if c.Replay != "" {
		replay(c)
		return
	}
	cfg := dw.MutCfg{IDs: dw.AllIDs(), Big: 1 << 20, Many: 100}
	if !c.Quick() {
		cfg.Big = 3 << 20 // below the 4 MiB a gRPC server accepts, so that the handler really sees it
		cfg.Many = 300
	}
	targets := dw.AllIDs()
	tStart := time.Now()
	deadline := c.Deadline(12*time.Minute, 75*time.Minute)

	workers := c.Workers
	if workers > 8 {
		workers = 8
	}
	w0, err := dw.NewWorld("")
	if err != nil {
		c.EngineError("cannot start the daemon bench: %v", err)
		c.Finish("")
		return
	}
	cfg.Hashes = w0.ChainHashes()
	items := append(dw.Alphabet(w0, cfg, targets), dw.HTTPAlphabet(w0)...)
	w0.Close()
	fmt.Printf("c14: %d requests in the alphabet\n", len(items))

	var mu sync.Mutex
	classes := map[string]int{}
	perMethod := map[string]int{}
	var cands []finding
	var reps []dw.Item // one representative per (method, state, class) for depth 2
	repSeen := map[string]bool{}
	stateChanging := 0
	candGroup := map[string]int{}
	skipped := 0
	restarts := 0
	done := 0
	capped := false

	// depth 1
	runShard := func(shard []dw.Item, second *dw.Item) {
		var w *dw.World
		fresh := func() bool {
			if w != nil {
				w.Close()
			}
			var err error
			for try := 0; try < 3; try++ {
				if w, err = dw.NewWorld(""); err == nil {
					if bad := w.Probe(); len(bad) > 0 {
						err = fmt.Errorf("probes fail on a fresh daemon: %v", bad)
						continue
					}
					mu.Lock()
					restarts++
					mu.Unlock()
					return true
				}
			}
			c.EngineError("cannot (re)start the daemon bench: %v", err)
			return false
		}
		if !fresh() {
			return
		}
		defer func() { w.Close() }()
		for _, it := range shard {
			if time.Now().After(deadline) {
				mu.Lock()
				capped = true
				mu.Unlock()
				return
			}
			mu.Lock()
			skip := candGroup[it.Kind+"|"+it.Method+"|"+it.Base] >= 3
			if skip {
				skipped++
			}
			mu.Unlock()
			if skip {
				continue // three variants of this base request already failed: the verdict is known, do not wait for more time-outs
			}
			seq := []dw.Item{it}
			if second != nil {
				seq = []dw.Item{it, *second}
			}
			dirty := false
			for k, x := range seq {
				// signatures and timestamps of re-built messages belong to the world that built them; participants and keys
				// are deterministic, so a message built on one world is valid on every other
				o := w.Do(x, dw.CallDeadline)
				if trace && (x.Desc == "base" || x.Kind == "http") {
					fmt.Printf("trace: %-60s %-14s -> %s %s (%d ms)\n", x.ID(), x.Target, o.Class, o.Err, o.Ms)
				}
				mu.Lock()
				classes[o.Class]++
				perMethod[x.Method]++
				done++
				if second == nil {
					rk := x.Method + "|" + x.State + "|" + o.Class + "|" + x.Base
					if !repSeen[rk] && x.Kind == "grpc" {
						repSeen[rk] = true
						reps = append(reps, x)
					}
				}
				mu.Unlock()
				var prev *dw.Item
				if k == 1 {
					prev = &seq[0]
				}
				switch {
				case !w.Alive():
					mu.Lock()
					candGroup[x.Kind+"|"+x.Method+"|"+x.Base]++
					cands = append(cands, finding{"process-died", x, prev, "the daemon process exited: " + w.StderrTail()})
					mu.Unlock()
					dirty = true
				case o.TimedOut:
					mu.Lock()
					candGroup[x.Kind+"|"+x.Method+"|"+x.Base]++
					cands = append(cands, finding{"no-answer", x, prev, fmt.Sprintf("no answer within %s", dw.CallDeadline)})
					mu.Unlock()
					dirty = true
				default:
					if bad := w.Probe(); len(bad) > 0 {
						mu.Lock()
						candGroup[x.Kind+"|"+x.Method+"|"+x.Base]++
						cands = append(cands, finding{"wedged", x, prev, "afterwards valid requests are no longer served: " + strings.Join(bad, "; ")})
						mu.Unlock()
						dirty = true
					} else if ch := w.StateChanged(); ch != "" {
						mu.Lock()
						stateChanging++
						mu.Unlock()
						dirty = true
						// an accepted packet is gossiped on in the background (with retries): give that the time to go wrong
						// before the daemon is replaced
						time.Sleep(1500 * time.Millisecond)
						if !w.Alive() {
							mu.Lock()
							candGroup[x.Kind+"|"+x.Method+"|"+x.Base]++
							cands = append(cands, finding{"process-died", x, prev, "the daemon process exited shortly after accepting the request: " + w.StderrTail()})
							mu.Unlock()
						}
					}
				}
				if dirty {
					break
				}
			}
			if dirty && !fresh() {
				return
			}
		}
	}
	parallel := func(list []dw.Item, second *dw.Item) {
		var wg sync.WaitGroup
		for s := 0; s < workers; s++ {
			var shard []dw.Item
			for i := s; i < len(list); i += workers {
				shard = append(shard, list[i])
			}
			wg.Add(1)
			go func() { defer wg.Done(); runShard(shard, second) }()
		}
		wg.Wait()
	}
	parallel(items, nil)
	depth1 := done
	pairs := 0
	if !c.Quick() && !capped {
		sort.Slice(reps, func(i, j int) bool { return reps[i].ID() < reps[j].ID() })
		// depth 2: every ordered pair of representatives (first: one per method/state/base/response class; second: the same set)
		for i := range reps {
			if time.Now().After(deadline) {
				capped = true
				break
			}
			second := reps[i]
			parallel(reps, &second)
			pairs += len(reps)
		}
	}

	fmt.Printf("c14: depth 1: %d requests, depth 2: %d pairs, %d candidates, %.0fs\n", depth1, pairs, len(cands), time.Since(tStart).Seconds())
	// confirmation: a candidate is re-run alone on a fresh daemon with a long deadline; only what reproduces is reported.
	// At most 3 variants per (kind, method, base request) are confirmed individually; further variants of the same base
	// that behaved the same are named in the report of the group but not reported on their own.
	confirmed, unreproduced := 0, 0
	type cand struct {
		f      finding
		fp     string
		ok     bool
		detail string
	}
	var todo []*cand
	seenFP := map[string]bool{}
	perGroup := map[string]int{}
	more := map[string][]string{}
	for _, f := range cands {
		fp := fmt.Sprintf("c14/%s/%s/%s/%s", f.kind, strings.TrimPrefix(f.it.Method, "/"), f.it.Base, f.it.Desc)
		if f.it.Signed == "resigned" {
			fp += "/resigned"
		}
		if seenFP[fp] {
			continue
		}
		seenFP[fp] = true
		g := f.kind + "|" + f.it.Method + "|" + f.it.Base
		if perGroup[g] >= 3 {
			more[g] = append(more[g], f.it.Desc+"@"+f.it.State)
			continue
		}
		perGroup[g]++
		todo = append(todo, &cand{f: f, fp: fp})
	}
	{
		var wg sync.WaitGroup
		sem := make(chan struct{}, workers)
		for _, cd := range todo {
			wg.Add(1)
			sem <- struct{}{}
			go func(cd *cand) {
				defer wg.Done()
				defer func() { <-sem }()
				cd.ok, cd.detail = confirm(cd.f)
			}(cd)
		}
		wg.Wait()
	}
	for _, cd := range todo {
		f := cd.f
		if !cd.ok {
			unreproduced++
			fmt.Printf("c14: candidate not reproduced on a fresh daemon (not reported): %s %s: %s\n", f.kind, f.it.ID(), f.detail)
			continue
		}
		confirmed++
		f.it.Fill()
		rep := map[string]any{"kind": f.kind, "request": f.it, "detail": cd.detail}
		if f.prev != nil {
			f.prev.Fill()
			rep["previous_request"] = f.prev
		}
		detail := cd.detail
		if m := more[f.kind+"|"+f.it.Method+"|"+f.it.Base]; len(m) > 0 {
			rep["further_variants_same_behaviour_unconfirmed"] = m
			detail += fmt.Sprintf(" (%d further variants of this base request behaved the same)", len(m))
		}
		c.Report(cd.fp, fmt.Sprintf("%s [node state %s, target %s]: %s", f.it.ID(), f.it.State, f.it.Target, detail), rep)
	}

	c.Count("states", 8)
	c.Count("transitions", int64(done))
	c.Count("traces", int64(depth1+pairs))
	c.Count("evaluations", int64(done))
	c.Count("distinct", int64(len(classes)))
	c.Count("requests_depth1", int64(depth1))
	c.Count("request_pairs_depth2", int64(pairs))
	c.Count("state_changing_requests", int64(stateChanging))
	c.Count("daemon_restarts", int64(restarts))
	c.Count("candidates_not_reproduced", int64(unreproduced))
	c.Count("requests_skipped_after_3_failures_of_their_base", int64(skipped))
	c.Exhaustive(!capped && skipped == 0)
	cl := map[string]any{}
	for k, v := range classes {
		cl[k] = v
	}
	pm := map[string]any{}
	for k, v := range perMethod {
		pm[k] = v
	}
	c.Sub("c14-robust", map[string]any{"engine": "E2 on the daemon bench (child process), depth 1 quick / depth 2 over response-class representatives thorough", "alphabet": len(items),
		"response_classes": cl, "requests_per_method": pm, "representatives": len(reps), "pairs": pairs, "capped": capped, "confirmed": confirmed})
	for i, it := range items {
		if i%(len(items)/3+1) == 0 {
			it.Fill()
			c.Sample(it)
		}
	}
	c.Assume("requests are protobuf-valid messages sent over real loopback gRPC / HTTP to a real daemon process; what the wire format cannot carry (nil inside a oneof, invalid UTF-8) is not generated",
		"one field is changed per request (depth 1); oversize fields stay below the 4 MiB gRPC limit and long repeated fields at "+fmt.Sprint(cfg.Many)+" elements",
		"the other DKG participants are harness-owned keys (a remote party that is a legitimate participant), so signed packets exist both with a stale and with a valid signature",
		"bounded time = 20 s per request on loopback (a candidate is re-run alone with 90 s before it is reported); a stream that has nothing to deliver yet may stay open")
	c.Finish("one request = one evaluation: call returned, process alive, probe set served (12 valid requests incl. one through the DKG process lock and one through the broadcast-board lock), DKG states compared; a request that changes state is followed by a daemon restart")
}

// confirm re-runs a candidate on a fresh daemon.
func confirm(f finding) (bool, string) {
	w, err := dw.NewWorld("")
	if err != nil {
		return false, "cannot start a daemon: " + err.Error()
	}
	defer w.Close()
	if bad := w.Probe(); len(bad) > 0 {
		return false, "probes fail on a fresh daemon"
	}
	if f.prev != nil {
		w.Do(*f.prev, dw.ConfirmDeadline)
	}
	o := w.Do(f.it, dw.ConfirmDeadline)
	if f.kind == "process-died" {
		time.Sleep(2 * time.Second) // background work started by the request (gossip retries)
	}
	switch {
	case !w.Alive():
		return true, "the daemon process exited: " + w.StderrTail()
	case o.TimedOut:
		bad := w.Probe()
		return true, fmt.Sprintf("no answer within %s; probes afterwards: %v", dw.ConfirmDeadline, bad)
	}
	if bad := w.Probe(); len(bad) > 0 {
		return true, fmt.Sprintf("answered (%s %s) but afterwards valid requests are no longer served: %s", o.Class, o.Err, strings.Join(bad, "; "))
	}
	return false, ""
}

func replay(c *vlib.Check) {
	b, err := os.ReadFile(c.Replay)
	if err != nil {
		fmt.Println("replay:", err)
		os.Exit(2)
	}
	var doc struct {
		Replay struct {
			Kind    string  `json:"kind"`
			Request dw.Item `json:"request"`
		} `json:"replay"`
	}
	if err := json.Unmarshal(b, &doc); err != nil {
		fmt.Println("replay:", err)
		os.Exit(2)
	}
	fmt.Printf("replay: %s %s (%s)\nrequest: %s\n", doc.Replay.Kind, doc.Replay.Request.ID(), doc.Replay.Request.State, doc.Replay.Request.JSON)
	w, err := dw.NewWorld("")
	if err != nil {
		fmt.Println("replay:", err)
		os.Exit(2)
	}
	defer w.Close()
	it := doc.Replay.Request
	found := false
	cfg := dw.MutCfg{IDs: dw.AllIDs(), Big: 1 << 20, Many: 100}
	cfg.Hashes = w.ChainHashes()
	for _, x := range append(dw.Alphabet(w, cfg, dw.AllIDs()), dw.HTTPAlphabet(w)...) {
		if x.ID() == it.ID() && x.Target == it.Target {
			it, found = x, true // rebuilt for this run's daemon (signatures, ports)
			break
		}
	}
	if !found && it.Kind == "grpc" {
		raw, _ := hex.DecodeString(it.Hex)
		var err error
		if it, err = dw.RawItem(it, raw); err != nil {
			fmt.Println("replay:", err)
			os.Exit(0)
		}
	}
	o := w.Do(it, dw.ConfirmDeadline)
	fmt.Printf("outcome: %+v\nprocess alive: %v\nprobes failing afterwards: %v\n", o, w.Alive(), w.Probe())
	os.Exit(0)
}
