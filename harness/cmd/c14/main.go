//go:build conn_insecure

// c14 — property C14: no message from the network can crash or wedge a node.
//
// Engine E2 on the daemon bench: a real drand daemon runs in a child process (so that a crash is observable and
// survivable) with seven chains covering the node states of the property (running x2 schemes, fresh, leader of a
// proposed DKG, leader of a DKG in its execution phase, joiner of a proposed DKG, stopped) plus an unknown id.
// The request alphabet is generated from the protobuf descriptors: for every remote-reachable gRPC method
// (drand.Public, drand.Protocol, dkg.DKGPublic, drand.Metrics) and every node state a well-formed base request
// (DKG control packets and protocol bundles validly signed by the harness-owned other participants), and every
// single-field change of it, recursively (absent/empty nested messages, every oneof alternative, byte fields
// empty/short/truncated/extended/bit-flipped/oversize, numeric boundaries, every known and unknown beacon id,
// repeated fields empty/one-empty/duplicated/long); signed packets are sent both with the stale signature and
// re-signed by the claimed sender (so that they pass authentication and reach the code behind it). HTTP paths are
// enumerated likewise. Every request is sent over real loopback gRPC/HTTP; after each one the oracle checks that the
// call came back, the process is alive, and a fixed probe set of valid requests on every endpoint (including one
// through each internal lock) still gets served. Depth 1 from the seven states (quick); depth 2 over one
// representative per (method, state, response class) (thorough).
package main

import (
	"bytes"
	"context"
	"encoding/hex"
	"encoding/json"
	"fmt"
	"io"
	"net/http"
	"os"
	"sort"
	"strings"
	"sync"
	"time"

	"google.golang.org/grpc"
	"google.golang.org/grpc/codes"
	"google.golang.org/grpc/status"
	"google.golang.org/protobuf/encoding/protojson"
	"google.golang.org/protobuf/proto"
	"google.golang.org/protobuf/types/known/emptypb"

	"github.com/drand/drand/v2/common"
	pdkg "github.com/drand/drand/v2/protobuf/dkg"
	pb "github.com/drand/drand/v2/protobuf/drand"
	"github.com/drand/drand/v2/verifharness/bench"
	"github.com/drand/drand/v2/verifharness/vlib"
)

const (
	callDeadline    = 20 * time.Second
	confirmDeadline = 90 * time.Second
	probeDeadline   = 30 * time.Second
)

type outcome struct {
	Class    string `json:"class"` // ok | <grpc code> | open (stream waiting) | timeout
	Err      string `json:"error,omitempty"`
	Ms       int64  `json:"ms"`
	TimedOut bool   `json:"timed_out,omitempty"`
}

func classify(err error) (string, string) {
	if err == nil {
		return "ok", ""
	}
	if err == io.EOF {
		return "eof", ""
	}
	st, _ := status.FromError(err)
	msg := st.Message()
	if len(msg) > 160 {
		msg = msg[:160]
	}
	return st.Code().String(), msg
}

func (w *world) call(r request, m proto.Message, deadline time.Duration) outcome {
	t0 := time.Now()
	ctx, cancel := context.WithTimeout(context.Background(), deadline)
	defer cancel()
	var o outcome
	if !r.stream {
		err := w.Conn.Invoke(ctx, r.method, m, &emptypb.Empty{})
		o.Class, o.Err = classify(err)
		o.TimedOut = status.Code(err) == codes.DeadlineExceeded
	} else {
		// a stream: send the request, wait (a little more than two periods) for the first item or the end
		sctx, scancel := context.WithTimeout(ctx, 2500*time.Millisecond)
		defer scancel()
		st, err := w.Conn.NewStream(sctx, &grpc.StreamDesc{ServerStreams: true}, r.method)
		if err == nil {
			if err = st.SendMsg(m); err == nil {
				_ = st.CloseSend()
				err = st.RecvMsg(&emptypb.Empty{})
			}
		}
		o.Class, o.Err = classify(err)
		if status.Code(err) == codes.DeadlineExceeded {
			o.Class, o.Err = "open", "" // a stream with nothing to deliver yet stays open: legitimate
		}
	}
	o.Ms = time.Since(t0).Milliseconds()
	return o
}

func (w *world) httpCall(method, path string, deadline time.Duration) outcome {
	t0 := time.Now()
	ctx, cancel := context.WithTimeout(context.Background(), deadline)
	defer cancel()
	var o outcome
	req, err := http.NewRequestWithContext(ctx, method, "http://"+w.PubAddr+path, nil)
	if err != nil {
		return outcome{Class: "client-refused", Err: err.Error()}
	}
	resp, err := (&http.Client{}).Do(req)
	if err != nil {
		o.Class, o.Err = "transport-error", err.Error()
		o.TimedOut = ctx.Err() != nil
	} else {
		_, _ = io.Copy(io.Discard, resp.Body)
		_ = resp.Body.Close()
		o.Class = fmt.Sprint(resp.StatusCode)
	}
	o.Ms = time.Since(t0).Milliseconds()
	return o
}

// probe sends valid requests to every endpoint, one through each internal lock; it returns the probes that failed.
func (w *world) probe() []string {
	var bad []string
	fail := func(name string, err error) { bad = append(bad, fmt.Sprintf("%s: %v", name, err)) }
	ctx, cancel := context.WithTimeout(context.Background(), probeDeadline)
	defer cancel()
	for _, id := range []string{"default", "run2"} {
		c := w.Chains[id]
		r, err := w.Public.PublicRand(ctx, &pb.PublicRandRequest{Metadata: mdFor(id)})
		if err != nil {
			fail("rand/"+id, err)
			continue
		}
		b := &common.Beacon{Round: r.Round, Signature: r.Signature, PreviousSig: r.PreviousSignature}
		if err := c.Scheme.VerifyBeacon(b, c.PubKey); err != nil {
			fail("rand/"+id, fmt.Errorf("latest beacon does not verify: %w", err))
		}
		// the service loop: the head keeps advancing (period 1 s; generous allowance for a loaded machine)
		if r.Round > w.lastHead[id] {
			w.lastHead[id], w.lastHeadAt[id] = r.Round, time.Now()
		} else if time.Since(w.lastHeadAt[id]) > 45*time.Second {
			fail("production/"+id, fmt.Errorf("head stuck at round %d for %s", r.Round, time.Since(w.lastHeadAt[id]).Round(time.Second)))
		}
	}
	if info, err := w.Public.ChainInfo(ctx, &pb.ChainInfoRequest{Metadata: mdFor("run2")}); err != nil {
		fail("info/run2", err)
	} else if !bytes.Equal(info.Hash, w.Chains["run2"].Hash) {
		fail("info/run2", fmt.Errorf("wrong chain hash"))
	}
	if _, err := w.Protocol.GetIdentity(ctx, &pb.IdentityRequest{Metadata: mdFor("default")}); err != nil {
		fail("identity/default", err)
	}
	if _, err := w.Protocol.GetIdentity(ctx, &pb.IdentityRequest{Metadata: mdFor("fresh1")}); err != nil {
		fail("identity/fresh1", err)
	}
	sctx, scancel := context.WithTimeout(ctx, probeDeadline)
	if st, err := w.Protocol.SyncChain(sctx, &pb.SyncRequest{FromRound: 1, Metadata: mdFor("default")}); err != nil {
		fail("sync/default", err)
	} else if p, err := st.Recv(); err != nil || p.Round != 1 {
		fail("sync/default", fmt.Errorf("first packet: %v %v", p.GetRound(), err))
	}
	scancel()
	if _, err := w.Protocol.PartialBeacon(ctx, &pb.PartialBeaconPacket{Round: 1, PartialSig: make([]byte, 98), PreviousSignature: make([]byte, 96), Metadata: mdFor("default")}); status.Code(err) == codes.DeadlineExceeded || status.Code(err) == codes.Unavailable {
		fail("partial/default", err)
	}
	// through the DKG process lock: an abort of somebody who is not the leader (refused, but only after the lock was taken)
	for _, id := range []string{"mid1", "mid3"} {
		pkt := &pdkg.GossipPacket{Packet: &pdkg.GossipPacket_Abort{Abort: &pdkg.AbortDKG{Reason: "probe"}}}
		w.sign(w.g2.kp, id, pkt, w.terms[id], w.g2.part)
		if _, err := w.DKG.Packet(ctx, pkt); status.Code(err) == codes.DeadlineExceeded || status.Code(err) == codes.Unavailable {
			fail("dkg-packet/"+id, fmt.Errorf("probe abort by a non-leader: %v", err))
		}
	}
	// through the broadcast board lock of the running DKG: a bundle with a wrong signature
	bd := proto.Clone(w.probeBundle).(*pdkg.Packet)
	if _, err := w.DKG.BroadcastDKG(ctx, &pdkg.DKGPacket{Dkg: bd}); status.Code(err) == codes.DeadlineExceeded || status.Code(err) == codes.Unavailable {
		// (no error is legitimate too: the board answers a bundle whose hash it has already seen before looking at the signature)
		fail("dkg-broadcast/mid2", fmt.Errorf("probe bundle with a wrong signature: %v", err))
	}
	for _, p := range []string{"/chains", "/" + hex.EncodeToString(w.Chains["default"].Hash) + "/public/latest", "/" + hex.EncodeToString(w.Chains["run2"].Hash) + "/info", "/public/1"} {
		if o := w.httpCall("GET", p, probeDeadline); o.Class != "200" {
			fail("http"+p[:min(len(p), 12)], fmt.Errorf("%s %s", o.Class, o.Err))
		}
	}
	if err := w.Ctrl.Ping(); err != nil {
		fail("control/ping", err)
	}
	return bad
}

// stateChanged compares the DKG status of every DKG chain with the one recorded after set-up.
func (w *world) stateChanged() string {
	for _, id := range dkgChains {
		if s := w.dkgStatus(id); s != w.status0[id] {
			return fmt.Sprintf("%s: %s -> %s", id, w.status0[id], s)
		}
	}
	return ""
}

type item struct {
	Kind   string `json:"kind"` // grpc | http
	Method string `json:"method"`
	Stream bool   `json:"stream,omitempty"`
	State  string `json:"node_state"`
	Target string `json:"target"`
	Base   string `json:"base"`
	Desc   string `json:"variant"`
	Signed string `json:"signed,omitempty"` // stale | resigned
	JSON   string `json:"request_json,omitempty"`
	Hex    string `json:"request_hex,omitempty"`
	msg    proto.Message
	mut    func(proto.Message)
	req    request
}

func (it item) id() string {
	s := it.Method + "/" + it.State + "/" + it.Base + "/" + it.Desc
	if it.Signed != "" {
		s += "/" + it.Signed
	}
	return s
}

func (w *world) do(it item, deadline time.Duration) outcome {
	if it.Kind == "http" {
		return w.httpCall(it.Method, it.Desc, deadline)
	}
	m := it.msg
	if it.req.rebase != nil {
		m = it.req.rebase(w)
		if it.mut != nil {
			it.mut(m)
		}
	}
	return w.call(it.req, m, deadline)
}

// alphabet builds the requests; it needs a world because signatures and rounds are those of the running daemon's chains
// (key material is deterministic, so every world yields the same alphabet up to timestamps).
func alphabet(w *world, cfg mutCfg, targets []string) []item {
	var out []item
	for _, r := range w.bases(targets) {
		for _, v := range cfg.variants(r.msg) {
			it := item{Kind: "grpc", Method: r.method, Stream: r.stream, State: r.state, Target: r.target, Base: r.name, Desc: v.desc, msg: v.msg, mut: v.mut, req: r}
			if r.resign == nil {
				out = append(out, it)
				continue
			}
			it.Signed = "stale"
			if v.desc == "base" {
				it.Signed = "valid"
			}
			out = append(out, it)
			if v.desc != "base" && !strings.Contains(v.desc, "ignature") {
				cl := proto.Clone(v.msg)
				if r.resign(cl) {
					it2 := it
					it2.Signed, it2.msg = "resigned", cl
					out = append(out, it2)
				}
			}
		}
	}
	return out
}

func httpAlphabet(w *world) []item {
	var out []item
	hashes := []string{hex.EncodeToString(w.Chains["default"].Hash), hex.EncodeToString(w.Chains["run2"].Hash), hex.EncodeToString(w.Chains["stopped1"].Hash),
		strings.Repeat("00", 32), "zz", "0", strings.Repeat("ab", 4096), "%00", "..", "public"}
	h := w.head("default")
	rounds := []string{"0", "1", fmt.Sprint(h), fmt.Sprint(h + 1), fmt.Sprint(h + 2), fmt.Sprint(h + 1000), "18446744073709551615", "18446744073709551616", "-1", "abc", "1e3", "0x10", "01",
		strings.Repeat("9", 400), "latest", "", "%20", "1/2"}
	var paths []string
	for _, r := range rounds {
		paths = append(paths, "/public/"+r)
	}
	paths = append(paths, "/info", "/health", "/chains", "/", "", "/nope", "/public", "/public/", "//public//latest", "/info/", "/chains/x", "/%", "/public/latest?x="+strings.Repeat("y", 5000))
	for _, hs := range hashes {
		for _, r := range rounds {
			paths = append(paths, "/"+hs+"/public/"+r)
		}
		paths = append(paths, "/"+hs+"/info", "/"+hs+"/health", "/"+hs, "/"+hs+"/", "/"+hs+"/nope")
	}
	for _, m := range []string{"GET", "HEAD", "POST", "PUT", "DELETE", "OPTIONS", "PATCH"} {
		for _, p := range paths {
			if m != "GET" && strings.Count(p, "/") > 2 && !strings.HasPrefix(p, "/"+hashes[0]) {
				continue // other methods: default paths and one hash
			}
			out = append(out, item{Kind: "http", Method: m, State: "daemon", Target: "-", Base: "http", Desc: p})
		}
	}
	return out
}

var trace = os.Getenv("VERIF_C14_TRACE") != ""

type finding struct {
	kind   string
	it     item
	prev   *item
	detail string
}

func main() {
	bench.MaybeChild()
	c := vlib.New("C14", "model_checking")
	if c.Replay != "" {
		replay(c)
		return
	}
	cfg := mutCfg{ids: allIDs(), big: 1 << 20, many: 100}
	if !c.Quick() {
		cfg.big = 3 << 20 // below the 4 MiB a gRPC server accepts, so that the handler really sees it
		cfg.many = 300
	}
	targets := allIDs()
	tStart := time.Now()
	deadline := c.Deadline(12*time.Minute, 3*time.Hour)

	workers := c.Workers
	if workers > 8 {
		workers = 8
	}
	w0, err := newWorld("")
	if err != nil {
		c.EngineError("cannot start the daemon bench: %v", err)
		c.Finish("")
		return
	}
	cfg.hashes = w0.hashes()
	items := append(alphabet(w0, cfg, targets), httpAlphabet(w0)...)
	w0.close()
	fmt.Printf("c14: %d requests in the alphabet\n", len(items))

	var mu sync.Mutex
	classes := map[string]int{}
	perMethod := map[string]int{}
	var cands []finding
	var reps []item // one representative per (method, state, class) for depth 2
	repSeen := map[string]bool{}
	stateChanging := 0
	candGroup := map[string]int{}
	skipped := 0
	restarts := 0
	done := 0
	capped := false

	// depth 1
	runShard := func(shard []item, second *item) {
		var w *world
		fresh := func() bool {
			if w != nil {
				w.close()
			}
			var err error
			for try := 0; try < 3; try++ {
				if w, err = newWorld(""); err == nil {
					if bad := w.probe(); len(bad) > 0 {
						err = fmt.Errorf("probes fail on a fresh daemon: %v", bad)
						continue
					}
					mu.Lock()
					restarts++
					mu.Unlock()
					return true
				}
			}
			c.EngineError("cannot (re)start the daemon bench: %v", err)
			return false
		}
		if !fresh() {
			return
		}
		defer func() { w.close() }()
		for _, it := range shard {
			if time.Now().After(deadline) {
				mu.Lock()
				capped = true
				mu.Unlock()
				return
			}
			mu.Lock()
			skip := candGroup[it.Kind+"|"+it.Method+"|"+it.Base] >= 3
			if skip {
				skipped++
			}
			mu.Unlock()
			if skip {
				continue // three variants of this base request already failed: the verdict is known, do not wait for more time-outs
			}
			seq := []item{it}
			if second != nil {
				seq = []item{it, *second}
			}
			dirty := false
			for k, x := range seq {
				// signatures and timestamps of re-built messages belong to the world that built them; participants and keys
				// are deterministic, so a message built on one world is valid on every other
				o := w.do(x, callDeadline)
				if trace && (x.Desc == "base" || x.Kind == "http") {
					fmt.Printf("trace: %-60s %-14s -> %s %s (%d ms)\n", x.id(), x.Target, o.Class, o.Err, o.Ms)
				}
				mu.Lock()
				classes[o.Class]++
				perMethod[x.Method]++
				done++
				if second == nil {
					rk := x.Method + "|" + x.State + "|" + o.Class + "|" + x.Base
					if !repSeen[rk] && x.Kind == "grpc" {
						repSeen[rk] = true
						reps = append(reps, x)
					}
				}
				mu.Unlock()
				var prev *item
				if k == 1 {
					prev = &seq[0]
				}
				switch {
				case !w.Alive():
					mu.Lock()
					candGroup[x.Kind+"|"+x.Method+"|"+x.Base]++
					cands = append(cands, finding{"process-died", x, prev, "the daemon process exited: " + w.stderrTail()})
					mu.Unlock()
					dirty = true
				case o.TimedOut:
					mu.Lock()
					candGroup[x.Kind+"|"+x.Method+"|"+x.Base]++
					cands = append(cands, finding{"no-answer", x, prev, fmt.Sprintf("no answer within %s", callDeadline)})
					mu.Unlock()
					dirty = true
				default:
					if bad := w.probe(); len(bad) > 0 {
						mu.Lock()
						candGroup[x.Kind+"|"+x.Method+"|"+x.Base]++
						cands = append(cands, finding{"wedged", x, prev, "afterwards valid requests are no longer served: " + strings.Join(bad, "; ")})
						mu.Unlock()
						dirty = true
					} else if ch := w.stateChanged(); ch != "" {
						mu.Lock()
						stateChanging++
						mu.Unlock()
						dirty = true
					}
				}
				if dirty {
					break
				}
			}
			if dirty && !fresh() {
				return
			}
		}
	}
	parallel := func(list []item, second *item) {
		var wg sync.WaitGroup
		for s := 0; s < workers; s++ {
			var shard []item
			for i := s; i < len(list); i += workers {
				shard = append(shard, list[i])
			}
			wg.Add(1)
			go func() { defer wg.Done(); runShard(shard, second) }()
		}
		wg.Wait()
	}
	parallel(items, nil)
	depth1 := done
	pairs := 0
	if !c.Quick() && !capped {
		sort.Slice(reps, func(i, j int) bool { return reps[i].id() < reps[j].id() })
		// depth 2: every ordered pair of representatives (first: one per method/state/base/response class; second: the same set)
		for i := range reps {
			if time.Now().After(deadline) {
				capped = true
				break
			}
			second := reps[i]
			parallel(reps, &second)
			pairs += len(reps)
		}
	}

	fmt.Printf("c14: depth 1: %d requests, depth 2: %d pairs, %d candidates, %.0fs\n", depth1, pairs, len(cands), time.Since(tStart).Seconds())
	// confirmation: a candidate is re-run alone on a fresh daemon with a long deadline; only what reproduces is reported.
	// At most 3 variants per (kind, method, base request) are confirmed individually; further variants of the same base
	// that behaved the same are named in the report of the group but not reported on their own.
	confirmed, unreproduced := 0, 0
	type cand struct {
		f      finding
		fp     string
		ok     bool
		detail string
	}
	var todo []*cand
	seenFP := map[string]bool{}
	perGroup := map[string]int{}
	more := map[string][]string{}
	for _, f := range cands {
		fp := fmt.Sprintf("c14/%s/%s/%s/%s", f.kind, strings.TrimPrefix(f.it.Method, "/"), f.it.Base, f.it.Desc)
		if f.it.Signed == "resigned" {
			fp += "/resigned"
		}
		if seenFP[fp] {
			continue
		}
		seenFP[fp] = true
		g := f.kind + "|" + f.it.Method + "|" + f.it.Base
		if perGroup[g] >= 3 {
			more[g] = append(more[g], f.it.Desc+"@"+f.it.State)
			continue
		}
		perGroup[g]++
		todo = append(todo, &cand{f: f, fp: fp})
	}
	{
		var wg sync.WaitGroup
		sem := make(chan struct{}, workers)
		for _, cd := range todo {
			wg.Add(1)
			sem <- struct{}{}
			go func(cd *cand) {
				defer wg.Done()
				defer func() { <-sem }()
				cd.ok, cd.detail = confirm(cd.f)
			}(cd)
		}
		wg.Wait()
	}
	for _, cd := range todo {
		f := cd.f
		if !cd.ok {
			unreproduced++
			fmt.Printf("c14: candidate not reproduced on a fresh daemon (not reported): %s %s: %s\n", f.kind, f.it.id(), f.detail)
			continue
		}
		confirmed++
		f.it.fill()
		rep := map[string]any{"kind": f.kind, "request": f.it, "detail": cd.detail}
		if f.prev != nil {
			f.prev.fill()
			rep["previous_request"] = f.prev
		}
		detail := cd.detail
		if m := more[f.kind+"|"+f.it.Method+"|"+f.it.Base]; len(m) > 0 {
			rep["further_variants_same_behaviour_unconfirmed"] = m
			detail += fmt.Sprintf(" (%d further variants of this base request behaved the same)", len(m))
		}
		c.Report(cd.fp, fmt.Sprintf("%s [node state %s, target %s]: %s", f.it.id(), f.it.State, f.it.Target, detail), rep)
	}

	c.Count("states", 8)
	c.Count("transitions", int64(done))
	c.Count("traces", int64(depth1+pairs))
	c.Count("evaluations", int64(done))
	c.Count("distinct", int64(len(classes)))
	c.Count("requests_depth1", int64(depth1))
	c.Count("request_pairs_depth2", int64(pairs))
	c.Count("state_changing_requests", int64(stateChanging))
	c.Count("daemon_restarts", int64(restarts))
	c.Count("candidates_not_reproduced", int64(unreproduced))
	c.Count("requests_skipped_after_3_failures_of_their_base", int64(skipped))
	c.Exhaustive(!capped && skipped == 0)
	cl := map[string]any{}
	for k, v := range classes {
		cl[k] = v
	}
	pm := map[string]any{}
	for k, v := range perMethod {
		pm[k] = v
	}
	c.Sub("c14-robust", map[string]any{"engine": "E2 on the daemon bench (child process), depth 1 quick / depth 2 over response-class representatives thorough", "alphabet": len(items),
		"response_classes": cl, "requests_per_method": pm, "representatives": len(reps), "pairs": pairs, "capped": capped, "confirmed": confirmed})
	for i, it := range items {
		if i%(len(items)/3+1) == 0 {
			it.fill()
			c.Sample(it)
		}
	}
	c.Assume("requests are protobuf-valid messages sent over real loopback gRPC / HTTP to a real daemon process; what the wire format cannot carry (nil inside a oneof, invalid UTF-8) is not generated",
		"one field is changed per request (depth 1); oversize fields stay below the 4 MiB gRPC limit and long repeated fields at "+fmt.Sprint(cfg.many)+" elements",
		"the other DKG participants are harness-owned keys (a remote party that is a legitimate participant), so signed packets exist both with a stale and with a valid signature",
		"bounded time = 20 s per request on loopback (a candidate is re-run alone with 90 s before it is reported); a stream that has nothing to deliver yet may stay open")
	c.Finish("one request = one evaluation: call returned, process alive, probe set served (12 valid requests incl. one through the DKG process lock and one through the broadcast-board lock), DKG states compared; a request that changes state is followed by a daemon restart")
}

func (w *world) hashes() map[string][]byte {
	m := map[string][]byte{}
	for id, c := range w.Chains {
		if c.Hash != nil {
			m[id] = c.Hash
		}
	}
	return m
}

func (it *item) fill() {
	if it.msg != nil {
		b, _ := protojson.Marshal(it.msg)
		if len(b) > 1500 {
			b = append(b[:1500], []byte("...")...)
		}
		it.JSON = string(b)
		raw, _ := proto.Marshal(it.msg)
		if len(raw) <= 8192 {
			it.Hex = hex.EncodeToString(raw)
		}
	}
}

// confirm re-runs a candidate on a fresh daemon.
func confirm(f finding) (bool, string) {
	w, err := newWorld("")
	if err != nil {
		return false, "cannot start a daemon: " + err.Error()
	}
	defer w.close()
	if bad := w.probe(); len(bad) > 0 {
		return false, "probes fail on a fresh daemon"
	}
	if f.prev != nil {
		w.do(*f.prev, confirmDeadline)
	}
	o := w.do(f.it, confirmDeadline)
	switch {
	case !w.Alive():
		return true, "the daemon process exited: " + w.stderrTail()
	case o.TimedOut:
		bad := w.probe()
		return true, fmt.Sprintf("no answer within %s; probes afterwards: %v", confirmDeadline, bad)
	}
	if bad := w.probe(); len(bad) > 0 {
		return true, fmt.Sprintf("answered (%s %s) but afterwards valid requests are no longer served: %s", o.Class, o.Err, strings.Join(bad, "; "))
	}
	return false, ""
}

func (w *world) stderrTail() string {
	b, err := os.ReadFile(w.Spec.Dir + "/stderr.log")
	if err != nil {
		return ""
	}
	s := string(b)
	if i := strings.Index(s, "panic:"); i >= 0 {
		s = s[i:]
	} else if i := strings.Index(s, "fatal error:"); i >= 0 {
		s = s[i:]
	}
	if len(s) > 1200 {
		s = s[:1200]
	}
	return s
}

func replay(c *vlib.Check) {
	b, err := os.ReadFile(c.Replay)
	if err != nil {
		fmt.Println("replay:", err)
		os.Exit(2)
	}
	var doc struct {
		Replay struct {
			Kind    string `json:"kind"`
			Request item   `json:"request"`
		} `json:"replay"`
	}
	if err := json.Unmarshal(b, &doc); err != nil {
		fmt.Println("replay:", err)
		os.Exit(2)
	}
	fmt.Printf("replay: %s %s (%s)\nrequest: %s\n", doc.Replay.Kind, doc.Replay.Request.id(), doc.Replay.Request.State, doc.Replay.Request.JSON)
	w, err := newWorld("")
	if err != nil {
		fmt.Println("replay:", err)
		os.Exit(2)
	}
	defer w.close()
	it := doc.Replay.Request
	found := false
	cfg := mutCfg{ids: allIDs(), big: 1 << 20, many: 100}
	cfg.hashes = w.hashes()
	for _, x := range append(alphabet(w, cfg, allIDs()), httpAlphabet(w)...) {
		if x.id() == it.id() && x.Target == it.Target {
			it, found = x, true // rebuilt for this run's daemon (signatures, ports)
			break
		}
	}
	if !found && it.Kind == "grpc" {
		raw, _ := hex.DecodeString(it.Hex)
		it.msg = reqType(it.Method)
		if it.msg == nil || len(raw) == 0 {
			fmt.Println("replay: the request is not in this run's alphabet and its bytes were too large to keep")
			os.Exit(0)
		}
		if err := proto.Unmarshal(raw, it.msg); err != nil {
			fmt.Println("replay:", err)
			os.Exit(2)
		}
		it.req = request{method: it.Method, stream: it.Stream}
	}
	o := w.do(it, confirmDeadline)
	fmt.Printf("outcome: %+v\nprocess alive: %v\nprobes failing afterwards: %v\n", o, w.Alive(), w.probe())
	os.Exit(0)
}
