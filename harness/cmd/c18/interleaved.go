package main

import (
	"context"
	"fmt"
	"time"

	"github.com/drand/drand/v2/common"
	"github.com/drand/drand/v2/internal/chain"
	"github.com/drand/drand/v2/verifharness/fix"
	"github.com/drand/drand/v2/verifharness/vlib"
	"verif.local/vrt/explore"
)

// interleaved: one cursor scan (First, Next, Next, ...) on the in-memory ring with a write between two cursor
// calls. Oracle: the scan is strictly ascending, never returns a round that was not stored at that moment,
// and never skips a round that was stored during the whole scan and lies between two returned rounds.
// (Bolt cursors run inside a read transaction and see a snapshot; writes inside the callback are not
// allowed there, so this family is ring-only.)
func interleaved(c *vlib.Check) {
	type wr struct {
		at int // after how many cursor calls
		e  ev
	}
	var cases []wr
	for at := 1; at <= 4; at++ {
		for _, e := range []ev{{"put", 12, 0}, {"put", 1, 0}, {"del", 2, 0}, {"del", 3, 0}, {"del", 11, 0}, {"put", 0, 0}} {
			cases = append(cases, wr{at, e})
		}
	}
	alpha := cases
	step := func(hist []int) (string, []explore.Violation, bool) {
		ctx := context.Background()
		s, cleanup, _ := fix.NewBackendSize(ctx, "memdb", true, 10)
		defer cleanup()
		m := &refModel{t: traitsOf("memdb", true, 10), m: map[uint64]val{}}
		for r := uint64(2); r <= 11; r++ {
			m.apply(ev{"put", r, 0})
			_ = s.Put(ctx, beaconOf(r, 0))
		}
		always := map[uint64]bool{}
		for k := range m.m {
			always[k] = true
		}
		writes := map[int][]ev{}
		for _, h := range hist {
			writes[alpha[h].at] = append(writes[alpha[h].at], alpha[h].e)
		}
		ck := &checker{m: m}
		var got []uint64
		_ = s.Cursor(ctx, func(ctx context.Context, cur chain.Cursor) error {
			var b *common.Beacon
			var err error
			for i := 0; i < 14; i++ {
				if i == 0 {
					b, err = cur.First(ctx)
				} else {
					b, err = cur.Next(ctx)
				}
				if err != nil || b == nil {
					break
				}
				if _, ok := m.m[b.Round]; !ok {
					ck.bad("interleaved/not-stored", "cursor returned round %d which is not stored at that moment (returned so far %v)", b.Round, got)
				}
				got = append(got, b.Round)
				for _, e := range writes[i+1] {
					m.apply(e)
					if e.kind == "del" {
						_ = s.Del(ctx, e.r)
					} else {
						_ = s.Put(ctx, beaconOf(e.r, e.v))
					}
					for k := range always {
						if _, ok := m.m[k]; !ok {
							delete(always, k)
						}
					}
				}
			}
			return nil
		})
		for i := 1; i < len(got); i++ {
			if got[i] <= got[i-1] {
				ck.bad("interleaved/not-ascending", "cursor scan interleaved with writes %v returned %v", writes, got)
				break
			}
			for k := range always {
				if k > got[i-1] && k < got[i] {
					ck.bad("interleaved/skipped", "cursor scan interleaved with writes %v returned %v: round %d was stored all along and was skipped", writes, got, k)
				}
			}
		}
		if len(got) > 0 {
			for k := range always {
				if k > got[len(got)-1] {
					ck.bad("interleaved/truncated", "cursor scan interleaved with writes %v returned %v: round %d was stored all along and never reached", writes, got, k)
				}
			}
		}
		return fmt.Sprint(hist), ck.viols, len(hist) >= 2
	}
	describe := func(hist []int) any {
		var l []string
		for _, h := range hist {
			l = append(l, fmt.Sprintf("after %d cursor calls: %s", alpha[h].at, alpha[h].e))
		}
		return l
	}
	c.BFS("c18-interleaved/memdb", func([]int) int { return len(alpha) }, 2, c.DeadlineIn(20*time.Second, 3*time.Minute), step, describe)
}
