// c18 — property C18: every storage back-end behaves as one sorted round-to-beacon map.
//
// Engine E2: breadth-first search over Put/Del histories on the real back-ends (trimmed bolt, untrimmed bolt,
// in-memory ring; chained and unchained context) over a small round alphabet with a permanent hole, with
// de-duplication on the reference map; after every transition a complete battery of reads (Get, Last, Len,
// full cursor scan, cursor Last, Seek of every round followed by Next) is compared with a sorted reference map.
// Two more families exercise the ring at capacity and cursors interleaved with writes.
package main

import (
	"bytes"
	"context"
	"fmt"
	"os"
	"sort"
	"strings"
	"time"

	"github.com/drand/drand/v2/common"
	"github.com/drand/drand/v2/internal/chain"
	"github.com/drand/drand/v2/verifharness/fix"
	"github.com/drand/drand/v2/verifharness/vlib"
	"verif.local/vrt/explore"
)

type val struct{ sig, prev []byte }

type traits struct {
	backend   string
	chained   bool // context asks for previous signatures
	replace   bool // re-put replaces (bolt) or is ignored (ring)
	keepsPrev bool // previous signature stored as given
	rebuild   bool // previous signature reconstructed from round-1 (trimmed + chained)
	capacity  int  // 0: unbounded
}

func traitsOf(backend string, chained bool, capacity int) traits {
	t := traits{backend: backend, chained: chained}
	switch backend {
	case "memdb":
		t.keepsPrev, t.capacity = true, capacity
	case "bolt-untrimmed":
		t.replace, t.keepsPrev = true, true
	case "bolt-trimmed":
		t.replace, t.rebuild = true, chained
	}
	return t
}

type ev struct {
	kind string // put | del
	r    uint64
	v    byte
}

func (e ev) String() string {
	if e.kind == "del" {
		return fmt.Sprintf("del(%d)", e.r)
	}
	return fmt.Sprintf("put(%d,v%d)", e.r, e.v)
}

func beaconOf(r uint64, v byte) *common.Beacon {
	return &common.Beacon{Round: r, Signature: fix.FakeSig(r, v), PreviousSig: []byte{0x70, byte(r), v}}
}

// refModel is the boring reference: a map.
type refModel struct {
	t traits
	m map[uint64]val
}

func (m *refModel) apply(e ev) {
	switch e.kind {
	case "del":
		delete(m.m, e.r)
	case "put":
		if _, ok := m.m[e.r]; ok && !m.t.replace {
			return
		}
		b := beaconOf(e.r, e.v)
		m.m[e.r] = val{b.Signature, b.PreviousSig}
		if m.t.capacity > 0 && len(m.m) > m.t.capacity {
			ks := m.keys()
			delete(m.m, ks[0])
		}
	}
}
func (m *refModel) keys() []uint64 {
	ks := make([]uint64, 0, len(m.m))
	for k := range m.m {
		ks = append(ks, k)
	}
	sort.Slice(ks, func(i, j int) bool { return ks[i] < ks[j] })
	return ks
}
func (m *refModel) key() string {
	var sb strings.Builder
	for _, k := range m.keys() {
		fmt.Fprintf(&sb, "%d:%x;", k, m.m[k].sig[:1])
	}
	return sb.String()
}

// expect returns what a read of stored round r must look like: (beacon, mustFail).
func (m *refModel) expect(r uint64) (*common.Beacon, bool) {
	v := m.m[r]
	b := &common.Beacon{Round: r, Signature: v.sig}
	switch {
	case m.t.keepsPrev:
		b.PreviousSig = v.prev
	case m.t.rebuild && r > 0:
		p, ok := m.m[r-1]
		if !ok {
			return nil, true
		}
		b.PreviousSig = p.sig
	}
	return b, false
}

type checker struct {
	m     *refModel
	viols []explore.Violation
	seen  map[string]bool
}

func (c *checker) bad(fp, format string, a ...any) {
	if c.seen == nil {
		c.seen = map[string]bool{}
	}
	fp = "c18/" + fp + "/" + c.m.t.backend
	if c.seen[fp] {
		return
	}
	c.seen[fp] = true
	c.viols = append(c.viols, explore.Violation{Fingerprint: fp, Detail: fmt.Sprintf("%s chained=%v: ", c.m.t.backend, c.m.t.chained) + fmt.Sprintf(format, a...)})
}

func same(a, b *common.Beacon) bool {
	return a.Round == b.Round && bytes.Equal(a.Signature, b.Signature) && bytes.Equal(a.PreviousSig, b.PreviousSig)
}

func show(b *common.Beacon) string {
	if b == nil {
		return "<nil>"
	}
	return fmt.Sprintf("{round %d sig %x prev %x}", b.Round, b.Signature, b.PreviousSig)
}

// read judges one read that claims to be stored round want (op describes it).
// got/err are the store's answer. Returns false if the read failed legitimately (iteration must stop).
func (c *checker) read(op string, want uint64, got *common.Beacon, err error) bool {
	exp, mustFail := c.m.expect(want)
	if mustFail {
		if err == nil && got != nil {
			c.bad("prev-not-reconstructible", "%s returned %s although round %d is not stored, so its previous signature cannot be reconstructed", op, show(got), want-1)
		}
		return false
	}
	if err != nil || got == nil {
		c.bad("read-failed", "%s failed (%v) although round %d is stored", op, err, want)
		return false
	}
	if !same(got, exp) {
		if got.Round != want && bytes.Equal(got.Signature, exp.Signature) {
			c.bad("round-mislabelled", "%s returned the data of round %d labelled as round %d", op, want, got.Round)
		} else if got.Round != want {
			c.bad("wrong-round", "%s returned round %d, reference says round %d", op, got.Round, want)
		} else {
			c.bad("wrong-value", "%s returned %s, reference says %s", op, show(got), show(exp))
		}
	}
	return true
}

func (c *checker) battery(ctx context.Context, s chain.Store, maxRound uint64) {
	ks := c.m.keys()
	stored := func(r uint64) bool { _, ok := c.m.m[r]; return ok }
	for r := uint64(0); r <= maxRound; r++ {
		b, err := s.Get(ctx, r)
		if stored(r) {
			c.read(fmt.Sprintf("Get(%d)", r), r, b, err)
		} else if err == nil && b != nil {
			c.bad("get-absent", "Get(%d) returned %s for a round that is not stored", r, show(b))
		}
	}
	n, err := s.Len(ctx)
	if err != nil || n != len(ks) {
		c.bad("len", "Len() = %d, %v; reference has %d rounds", n, err, len(ks))
	}
	b, err := s.Last(ctx)
	if len(ks) == 0 {
		if err == nil && b != nil && len(b.Signature) > 0 {
			c.bad("last-empty", "Last() on an empty store returned %s", show(b))
		}
	} else {
		c.read("Last()", ks[len(ks)-1], b, err)
	}
	_ = s.Cursor(ctx, func(ctx context.Context, cur chain.Cursor) error {
		// full scan
		i := 0
		b, err := cur.First(ctx)
		for ; i < len(ks); i++ {
			if !c.read(fmt.Sprintf("cursor scan position %d", i), ks[i], b, err) {
				break
			}
			b, err = cur.Next(ctx)
		}
		if i == len(ks) && b != nil && err == nil {
			c.bad("scan-extra", "cursor scan returned %s after the last stored round", show(b))
		}
		b, err = cur.Last(ctx)
		if len(ks) > 0 {
			c.read("cursor.Last()", ks[len(ks)-1], b, err)
		} else if b != nil && err == nil {
			c.bad("last-empty", "cursor.Last() on an empty store returned %s", show(b))
		}
		for r := uint64(0); r <= maxRound; r++ {
			b, err := cur.Seek(ctx, r)
			pos := sort.Search(len(ks), func(i int) bool { return ks[i] >= r })
			if stored(r) {
				if !c.read(fmt.Sprintf("cursor.Seek(%d)", r), r, b, err) {
					continue
				}
			} else {
				if err != nil || b == nil {
					continue // refusing to seek an absent round is allowed
				}
				if pos == len(ks) {
					c.bad("seek-absent", "cursor.Seek(%d) returned %s but nothing is stored at or after that round", r, show(b))
					continue
				}
				// allowed alternative: the next stored beacon, labelled with its own round
				if !c.read(fmt.Sprintf("cursor.Seek(%d) of an absent round", r), ks[pos], b, err) {
					continue
				}
			}
			// iteration continues in order after a seek
			for j := pos + 1; j < len(ks) && j <= pos+2; j++ {
				b, err = cur.Next(ctx)
				if !c.read(fmt.Sprintf("cursor.Next() after Seek(%d)", r), ks[j], b, err) {
					break
				}
			}
		}
		return nil
	})
}

func family(c *vlib.Check, name string, t traits, alpha []ev, prefill []ev, depth int, maxRound uint64, dl time.Time) {
	step := func(hist []int) (string, []explore.Violation, bool) {
		ctx := context.Background()
		s, cleanup, err := fix.NewBackendSize(ctx, t.backend, t.chained, max(t.capacity, 10))
		if err != nil {
			return "", []explore.Violation{{Fingerprint: "c18/harness-setup", Detail: err.Error()}}, true
		}
		defer cleanup()
		m := &refModel{t: t, m: map[uint64]val{}}
		do := func(e ev) error {
			m.apply(e)
			if e.kind == "del" {
				return s.Del(ctx, e.r)
			}
			return s.Put(ctx, beaconOf(e.r, e.v))
		}
		for _, e := range prefill {
			if err := do(e); err != nil {
				return "", []explore.Violation{{Fingerprint: "c18/harness-setup", Detail: err.Error()}}, true
			}
		}
		ck := &checker{m: m}
		for _, ei := range hist {
			if err := do(alpha[ei]); err != nil {
				ck.bad("write-failed", "%s failed: %v", alpha[ei], err)
			}
		}
		ck.battery(ctx, s, maxRound)
		return m.key(), ck.viols, false
	}
	describe := func(hist []int) any {
		var l []string
		for _, e := range prefill {
			l = append(l, e.String())
		}
		if len(prefill) > 0 {
			l = []string{fmt.Sprintf("prefill(%d puts)", len(prefill))}
		}
		for _, e := range hist {
			l = append(l, alpha[e].String())
		}
		return l
	}
	c.BFS(name, func([]int) int { return len(alpha) }, depth, dl, step, describe)
}

func main() {
	c := vlib.New("C18", "model_checking")
	if c.Replay != "" {
		fmt.Println("replay: the history is written out in the replay file; re-run ./check C18")
		os.Exit(0)
	}
	depth := 5
	if !c.Quick() {
		depth = 7
	}
	// family 1: rounds {0,1,2,3,5} (4 is a permanent hole), two values per round
	var alpha []ev
	for _, r := range []uint64{0, 1, 2, 3, 5} {
		alpha = append(alpha, ev{"put", r, 0}, ev{"put", r, 1}, ev{"del", r, 0})
	}
	type combo struct {
		be string
		ch bool
	}
	var combos []combo
	for _, be := range fix.Backends {
		for _, ch := range []bool{true, false} {
			combos = append(combos, combo{be, ch})
		}
	}
	dl := c.DeadlineIn(50*time.Second, 12*time.Minute)
	for _, k := range combos {
		family(c, fmt.Sprintf("c18-map/%s/chained=%v", k.be, k.ch), traitsOf(k.be, k.ch, 0), alpha, nil, depth, 6, dl)
	}
	// family 2: the ring at capacity (10): sequential fill 0..9, then puts of older/newer/existing rounds and deletions
	var prefill []ev
	for r := uint64(2); r <= 11; r++ {
		prefill = append(prefill, ev{"put", r, 0})
	}
	ringAlpha := []ev{{"put", 12, 0}, {"put", 13, 0}, {"put", 1, 0}, {"put", 0, 1}, {"put", 5, 1}, {"del", 2, 0}, {"del", 7, 0}, {"del", 11, 0}, {"put", 15, 1}}
	rd := 4
	if !c.Quick() {
		rd = 6
	}
	family(c, "c18-ring/memdb/capacity=10", traitsOf("memdb", true, 10), ringAlpha, prefill, rd, 16, c.DeadlineIn(20*time.Second, 5*time.Minute))
	interleaved(c)
	fix.RemoveTemplates()
	c.Assume("the reference model is a Go map with the documented differences: re-put replaces (bolt) / is ignored (ring); the ring forgets the smallest round beyond its capacity; the trimmed store drops the previous signature on Put and, in a chained context, rebuilds it from round-1 or fails the read",
		"state key = the reference map: every back-end's future behaviour is a function of its key/value content (the ring keeps its slice sorted), and the read battery is run after every transition, not only in new states",
		"Seek of an absent round may fail or return the next stored beacon labelled with its own round")
	c.Finish("one case = one Put/Del history applied to a fresh real store followed by the full read battery; distinct = distinct reference-map states")
}
