// c12 — property C12: remote parties cannot stall beacon storage or grow node state without bound.
//
// c12-stall (engine E1): the real callbackStore/appendStore/schemeStore stack with CallbackWorkerQueue scaled to
// 2, real SyncChain servers whose consumers stall forever / resume late / fail, one healthy consumer and one
// local reader, against an appender that stores more beacons than all queues can hold. Every interleaving (to
// saturation or to the completed deviation bound) must let the appender finish and the healthy consumer
// receive every round.
// c12-cache (engine E2): explicit-state search over Append/Flush sequences on the real partialCache with
// MaxPartialsPerNode scaled to 3.
package main

import (
	"context"
	"errors"
	"fmt"
	"os"
	"strings"
	"time"

	"google.golang.org/grpc/peer"

	"github.com/drand/drand/v2/common"
	"github.com/drand/drand/v2/internal/chain"
	"github.com/drand/drand/v2/internal/chain/beacon"
	proto "github.com/drand/drand/v2/protobuf/drand"
	"github.com/drand/drand/v2/verifharness/fix"
	"github.com/drand/drand/v2/verifharness/vlib"
	vrt "verif.local/vrt"
	"verif.local/vrt/explore"
)

type cfg struct {
	Backend string   `json:"backend"`
	Chained bool     `json:"chained"`
	H0      uint64   `json:"initial_head"`
	Appends int      `json:"appends"`
	Bad     []string `json:"bad_consumers"` // stall@k | slow@k | err@k  (k = index of the Send that misbehaves, from 0)
	BadFrom uint64   `json:"bad_from"`
	Reader  bool     `json:"reader"`
	Bound   int      `json:"bound"`
}

func (c cfg) String() string {
	return fmt.Sprintf("%s/chained=%v/h0=%d/appends=%d/bad=%s/from=%d/reader=%v", c.Backend, c.Chained, c.H0, c.Appends, strings.Join(c.Bad, "+"), c.BadFrom, c.Reader)
}

type vstream struct {
	ctx    context.Context
	kind   string
	at     int
	n      int
	got    []uint64
	err    error
	done   bool
	resume *bool
	// teardown releases a stalled Send at the end of the run; frozen / wasDone are the stream's state before that
	teardown *bool
	frozen   []uint64
	wasDone  bool
}

var errConsumer = errors.New("consumer went away")

func (s *vstream) Context() context.Context { return s.ctx }
func (s *vstream) Send(b *proto.BeaconPacket) error {
	i := s.n
	s.n++
	if s.kind != "ok" && i >= s.at {
		switch s.kind {
		case "stall":
			vrt.Logf("consumer %s stalls in Send(round %d)", s.kind, b.Round)
			// never returns while the scenario runs; released at teardown only (a stalled Send inside the catch-up scan
			// holds a bolt read transaction, which a database Close would wait for)
			t := s.teardown
			vrt.BlockUntil(func() bool { return t != nil && *t })
			return errConsumer
		case "slow":
			vrt.Logf("consumer slow in Send(round %d)", b.Round)
			r := s.resume
			vrt.BlockUntil(func() bool { return *r })
		case "err":
			return errConsumer
		}
	}
	s.got = append(s.got, b.Round)
	return nil
}

type addr string

func (a addr) Network() string { return "tcp" }
func (a addr) String() string  { return string(a) }

func runOne(c cfg, devs []vrt.Dev, labels bool) *explore.Exec {
	l := fix.Logger()
	var healthy *vstream
	var bads []*vstream
	var setupErr error
	appended := 0
	teardown := false
	appenderDone := false
	readerDone := !c.Reader
	var H uint64
	s := vrt.Run(vrt.Options{Devs: devs, MaxSteps: 50000, Labels: labels, Watchdog: 60 * time.Second}, func() {
		ctx := context.Background()
		base, cleanup, err := fix.NewBackendSize(ctx, c.Backend, c.Chained, 64)
		if err != nil {
			setupErr = err
			return
		}
		defer cleanup()
		if err := base.Put(ctx, chain.GenesisBeacon([]byte("genesis-seed"))); err != nil {
			setupErr = err
			return
		}
		ss, err := beacon.NewSchemeStore(ctx, base, fix.Scheme(c.Chained))
		if err != nil {
			setupErr = err
			return
		}
		as, err := beacon.VerifNewAppendStore(ctx, ss)
		if err != nil {
			setupErr = err
			return
		}
		cbs := beacon.NewCallbackStore(l, as)
		for r := uint64(1); r <= c.H0; r++ {
			if err := cbs.Put(ctx, fix.FakeBeacon(r, c.Chained)); err != nil {
				setupErr = err
				return
			}
		}
		start := func(i int, st *vstream, from uint64) {
			st.ctx = peer.NewContext(ctx, &peer.Peer{Addr: addr(fmt.Sprintf("203.0.113.%d:4444", i+1))})
			vrt.GoNamed("stream-"+st.kind, func() {
				st.err = beacon.SyncChain(l, cbs, &proto.SyncRequest{FromRound: from, Metadata: &proto.Metadata{BeaconID: "default"}}, st)
				st.done = true
				vrt.Logf("SyncChain(%s) returned %v", st.kind, st.err)
			})
		}
		for i, b := range c.Bad {
			st := &vstream{resume: &appenderDone, teardown: &teardown}
			fmt.Sscanf(strings.Replace(b, "@", " ", 1), "%s %d", &st.kind, &st.at)
			bads = append(bads, st)
			start(i, st, c.BadFrom)
		}
		healthy = &vstream{kind: "ok"}
		start(100, healthy, 1)
		vrt.GoNamed("appender", func() {
			for r := c.H0 + 1; r <= c.H0+uint64(c.Appends); r++ {
				if err := cbs.Put(ctx, fix.FakeBeacon(r, c.Chained)); err != nil {
					setupErr = fmt.Errorf("append %d: %w", r, err)
					return
				}
				appended++
				vrt.Logf("stored round=%d", r)
			}
			appenderDone = true
		})
		if c.Reader {
			vrt.GoNamed("reader", func() {
				for i := 0; i < 2; i++ {
					b, err := cbs.Last(ctx)
					if err != nil {
						setupErr = err
						return
					}
					if _, err := cbs.Get(ctx, b.Round); err != nil {
						setupErr = err
						return
					}
				}
				readerDone = true
			})
		}
		vrt.WaitIdle()
		if b, err := base.Last(ctx); err == nil {
			H = b.Round
		}
		// teardown: what the oracle looks at is recorded above; now let the stalled consumers go
		for _, st := range bads {
			st.frozen = append([]uint64{}, st.got...)
			st.wasDone = st.done
		}
		teardown = true
		vrt.WaitIdle()
	})
	x := &explore.Exec{S: s}
	if s.NativeBlock != "" || s.ReplayDivergence != "" {
		x.Outcome = "ENGINE"
		return x
	}
	add := func(fp, d string) {
		x.Violations = append(x.Violations, explore.Violation{Fingerprint: "c12/" + fp, Detail: fmt.Sprintf("%s: %s (parked threads at quiescence: %v)", c, d, s.Blocked)})
	}
	if setupErr != nil {
		x.Outcome = "SETUP-ERROR " + setupErr.Error()
		add("harness-setup", setupErr.Error())
		return x
	}
	if s.Panic != "" {
		add("panic", s.Panic)
	}
	if s.HorizonHit {
		add("horizon", "step horizon hit")
	}
	var bo []string
	for _, b := range bads {
		bo = append(bo, fmt.Sprintf("%s:%v/done=%v", b.kind, b.frozen, b.wasDone))
	}
	x.Outcome = fmt.Sprintf("appended=%d/%d healthy=%v reader=%v bad=%v", appended, c.Appends, healthy.got, readerDone, bo)
	if !appenderDone {
		add("put-blocked", fmt.Sprintf("the appender completed only %d of %d Puts: storage waits for a consumer", appended, c.Appends))
		return x
	}
	if !readerDone {
		add("reader-blocked", "a local reader (Last/Get) did not finish")
	}
	// healthy consumer: every round from 1 to the head, in order
	want := uint64(1)
	for _, r := range healthy.got {
		if r != want {
			add("healthy-sequence", fmt.Sprintf("healthy consumer received %v", healthy.got))
			return x
		}
		want++
	}
	if healthy.done {
		// without fairness the scheduler may starve the healthy stream's own goroutine until its queue
		// overflows; being disconnected as "too slow" is then legitimate (what it received is still a
		// gap-free prefix, checked above). Any other end of a healthy stream is a violation.
		if healthy.err == nil || !strings.Contains(healthy.err.Error(), "too slow") {
			add("healthy-ended", fmt.Sprintf("healthy consumer's stream ended: %v", healthy.err))
		}
	} else if want <= H {
		add("healthy-starved", fmt.Sprintf("healthy consumer received only up to round %d of %d", want-1, H))
	}
	return x
}

func main() {
	c := vlib.New("C12", "model_checking")
	if c.Replay != "" {
		os.Exit(replay(c))
	}
	var cfgs []cfg
	if c.Quick() {
		for _, bad := range [][]string{{"stall@0"}, {"stall@2"}, {"slow@1"}, {"err@1"}, {"stall@1", "err@0"}} {
			for _, from := range []uint64{0, 1} {
				cfgs = append(cfgs, cfg{Backend: "memdb", Chained: true, H0: 2, Appends: 8, Bad: bad, BadFrom: from, Bound: 3})
			}
		}
		cfgs = append(cfgs, cfg{Backend: "memdb", Chained: false, H0: 2, Appends: 8, Bad: []string{"stall@1"}, BadFrom: 1, Reader: true, Bound: 2})
		cfgs = append(cfgs, cfg{Backend: "bolt-trimmed", Chained: true, H0: 2, Appends: 8, Bad: []string{"stall@0"}, BadFrom: 0, Bound: 1})
		cfgs = append(cfgs, cfg{Backend: "bolt-untrimmed", Chained: false, H0: 2, Appends: 8, Bad: []string{"slow@0"}, BadFrom: 0, Bound: 1})
	} else {
		for _, be := range fix.Backends {
			for _, bad := range [][]string{{"stall@0"}, {"stall@1"}, {"stall@3"}, {"slow@0"}, {"slow@2"}, {"err@0"}, {"err@2"}, {"stall@1", "err@0"}, {"stall@0", "slow@0"}, {"stall@0", "stall@2"}} {
				for _, from := range []uint64{0, 1, 2} {
					b := 3
					if be != "memdb" {
						b = 2
					}
					cfgs = append(cfgs, cfg{Backend: be, Chained: be != "bolt-untrimmed", H0: 2, Appends: 9, Bad: bad, BadFrom: from, Reader: len(bad) == 1, Bound: b})
				}
			}
		}
	}
	var jobs []vlib.E1Job
	for _, k := range cfgs {
		k := k
		jobs = append(jobs, vlib.E1Job{Name: "c12-stall/" + k.String(), Bound: k.Bound, Shards: 1, Run: func(devs []vrt.Dev) *explore.Exec { return runOne(k, devs, false) }})
	}
	c.E1Batch(jobs, time.Until(c.DeadlineIn(60*time.Second, 20*time.Minute)))
	fix.RemoveTemplates()
	cacheCheck(c)
	c.Assume("CallbackWorkerQueue scaled 100→2 and MaxPartialsPerNode 100→3 by rewriting the constant's initialiser in the instrumented copy; the code using them is unchanged",
		"a stalled consumer is a stream whose Send never returns; a slow one returns only after the appender finished; a failing one returns an error",
		"bbolt calls are atomic steps on pre-grown files (the writer-waits-for-open-read-transaction behaviour of bbolt when the file must grow is outside this exploration)")
	c.Finish("E1: one case = one complete execution of {bad consumers, healthy consumer, appender doing queue+6 Puts, optional reader} under one schedule. E2: one case = one Append/Flush sequence on the real partial cache; distinct = distinct outcomes / canonical cache states")
}

func replay(c *vlib.Check) int {
	fmt.Println("replay: re-run the check; the schedule is listed in the replay file (devs) for harness name", c.Replay)
	return 0
}

var _ = common.Beacon{}
