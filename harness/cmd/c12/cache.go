package main

import (
	"fmt"
	"sort"
	"strings"
	"time"

	"github.com/drand/drand/v2/internal/chain/beacon"
	proto "github.com/drand/drand/v2/protobuf/drand"
	"github.com/drand/drand/v2/verifharness/fix"
	"github.com/drand/drand/v2/verifharness/vlib"
	"github.com/drand/kyber/share"
	"github.com/drand/kyber/util/random"
	"verif.local/vrt/explore"
)

// alphabet of c12-cache. The aggregator only hands partials for rounds in (head, head+4] to the cache and
// flushes it with the new head after every stored beacon; the harness keeps that contract.
type cev struct {
	kind   string // append | store
	member int
	dr     uint64 // round = head + dr
	prev   string // p0 | p1 | fresh
}

func (e cev) String() string {
	if e.kind == "store" {
		return "store(head+1)"
	}
	return fmt.Sprintf("append(m%d,head+%d,%s)", e.member, e.dr, e.prev)
}

func cacheAlphabet() []cev {
	a := []cev{{kind: "store"}}
	// member 1 floods (fresh previous signatures and several rounds); member 2 is honest: one partial per
	// round for at most 2 rounds ahead, previous signature p0
	for _, dr := range []uint64{1, 2, 4} {
		for _, p := range []string{"p0", "fresh"} {
			a = append(a, cev{"append", 1, dr, p})
		}
	}
	a = append(a, cev{"append", 1, 1, "p1"})
	for _, dr := range []uint64{1, 2} {
		a = append(a, cev{"append", 2, dr, "p0"})
	}
	return a
}

var partialLen = func() int {
	sch := fix.Scheme(true)
	pri := share.NewPriPoly(sch.KeyGroup, 2, nil, random.New())
	sig, err := sch.ThresholdScheme.Sign(pri.Shares(2)[0], []byte("x"))
	if err != nil {
		panic(err)
	}
	return len(sig)
}()

func partial(member int, round uint64, prev []byte) *proto.PartialBeaconPacket {
	// tbls partial = 2-byte big-endian signer index followed by the signature; the cache never verifies
	sig := make([]byte, partialLen)
	sig[1] = byte(member)
	sig[2], sig[3] = 0xaa, byte(round)
	return &proto.PartialBeaconPacket{Round: round, PreviousSignature: prev, PartialSig: sig}
}

func cacheCheck(c *vlib.Check) {
	alpha := cacheAlphabet()
	limit := beacon.VerifMaxPartialsPerNode()
	members := 2
	sch := fix.Scheme(true)
	depth := 8
	if !c.Quick() {
		depth = 11
	}
	step := func(hist []int) (string, []explore.Violation, bool) {
		pc := beacon.VerifNewPartialCache(fix.Logger(), sch)
		head := uint64(10)
		fresh := 0
		// honest member 2's live entries (id -> round) according to the property: they stay until flushed
		honest := map[string]uint64{}
		var viols []explore.Violation
		for i, ei := range hist {
			e := alpha[ei]
			last := i == len(hist)-1
			if e.kind == "store" {
				head++
				pc.Flush(head)
				for id, r := range honest {
					if r <= head {
						delete(honest, id)
					}
				}
			} else {
				var prev []byte
				switch e.prev {
				case "p0", "p1":
					prev = []byte(e.prev)
				default:
					fresh++
					prev = []byte(fmt.Sprintf("f%d", fresh))
				}
				r := head + e.dr
				err := pc.Append(partial(e.member, r, prev))
				if e.member == 2 {
					if err != nil && last {
						viols = append(viols, explore.Violation{Fingerprint: "c12/cache/honest-append-rejected", Detail: fmt.Sprintf("Append of honest member 2 (within its limit) failed: %v", err)})
					}
					if err == nil {
						honest[beacon.VerifRoundID(r, prev)] = r
					}
				}
			}
			if !last {
				continue
			}
			rounds, rcvd := pc.Rounds(), pc.Rcvd()
			for id := range honest {
				has := false
				for _, m := range rounds[id] {
					has = has || m == 2
				}
				if !has {
					viols = append(viols, explore.Violation{Fingerprint: "c12/cache/honest-partial-evicted", Detail: "a partial of honest member 2 for a round that is not stored yet disappeared from the cache"})
				}
			}
			if len(rounds) > members*limit {
				viols = append(viols, explore.Violation{Fingerprint: "c12/cache/rounds-unbounded", Detail: fmt.Sprintf("%d cached (round,previous) entries with %d members and limit %d", len(rounds), members, limit)})
			}
			for m, l := range rcvd {
				if len(l) > members*limit {
					viols = append(viols, explore.Violation{Fingerprint: "c12/cache/bookkeeping-unbounded", Detail: fmt.Sprintf("member %d has %d bookkeeping entries (limit per member %d, %d members): grows with every new partial", m, len(l), limit, members)})
				}
			}
			perMember := map[int]int{}
			for _, ms := range rounds {
				for _, m := range ms {
					perMember[m]++
				}
			}
			for m, n := range perMember {
				if n > members*limit {
					viols = append(viols, explore.Violation{Fingerprint: "c12/cache/member-entries-unbounded", Detail: fmt.Sprintf("member %d has signatures in %d cached entries", m, n)})
				}
			}
		}
		// canonical key: entries relative to head, fresh previous signatures renamed by first occurrence
		rounds, rcvd := pc.Rounds(), pc.Rcvd()
		ren := map[string]string{}
		name := func(id string) string {
			if _, ok := ren[id]; !ok {
				r := uint64(0)
				for _, b := range []byte(id[:8]) {
					r = r<<8 | uint64(b)
				}
				p := id[8:]
				if strings.HasPrefix(p, "f") {
					p = fmt.Sprintf("F%d", len(ren))
				}
				ren[id] = fmt.Sprintf("%d/%s", int64(r)-int64(head), p)
			}
			return ren[id]
		}
		var parts []string
		ms := make([]int, 0, len(rcvd))
		for m := range rcvd {
			ms = append(ms, m)
		}
		sort.Ints(ms)
		for _, m := range ms {
			var l []string
			for _, id := range rcvd[m] {
				l = append(l, name(id))
			}
			parts = append(parts, fmt.Sprintf("m%d:%v", m, l))
		}
		var rs []string
		for id, mm := range rounds {
			rs = append(rs, fmt.Sprintf("%s=%v", name(id), mm))
		}
		sort.Strings(rs)
		return strings.Join(parts, ";") + "|" + strings.Join(rs, ","), viols, false
	}
	describe := func(hist []int) any {
		var l []string
		for _, e := range hist {
			l = append(l, alpha[e].String())
		}
		return l
	}
	c.BFS("c12-cache", func([]int) int { return len(alpha) }, depth, c.DeadlineIn(60*time.Second, 15*time.Minute), step, describe)
}
