package main

import (
	"fmt"
	"sort"
	"strings"
	"sync"
	"time"

	"github.com/drand/drand/v2/internal/chain/beacon"
	proto "github.com/drand/drand/v2/protobuf/drand"
	"github.com/drand/drand/v2/verifharness/fix"
	"github.com/drand/drand/v2/verifharness/vlib"
	"github.com/drand/kyber/share"
	"github.com/drand/kyber/util/random"
	"verif.local/vrt/explore"
)

// alphabet of c12-cache. The aggregator only hands partials for rounds in (head, head+4] to the cache and
// flushes it with the new head after every stored beacon; the harness keeps that contract.
type cev struct {
	kind   string // append | store
	member int
	dr     uint64 // round = head + dr
	prev   string // p0 | p1 | fresh
}

func (e cev) String() string {
	if e.kind == "store" {
		return "store(head+1)"
	}
	return fmt.Sprintf("append(m%d,head+%d,%s)", e.member, e.dr, e.prev)
}

func cacheAlphabet() []cev {
	a := []cev{{kind: "store"}}
	// member 1 floods (fresh previous signatures and several rounds); member 2 is honest: one partial per
	// round for at most 2 rounds ahead, previous signature p0
	for _, dr := range []uint64{1, 2, 4} {
		for _, p := range []string{"p0", "fresh"} {
			a = append(a, cev{"append", 1, dr, p})
		}
	}
	a = append(a, cev{"append", 1, 1, "p1"})
	for _, dr := range []uint64{1, 2} {
		a = append(a, cev{"append", 2, dr, "p0"})
	}
	// member 3 colludes with member 1 (the property quantifies over floods by up to n-t members): it signs fresh
	// previous signatures too, and "join": the most recent fresh previous signature anybody used (an entry that another
	// flooder created)
	a = append(a, cev{"append", 3, 1, "fresh"}, cev{"append", 3, 1, "join"}, cev{"append", 1, 1, "join"})
	return a
}

var partialLen = func() int {
	sch := fix.Scheme(true)
	pri := share.NewPriPoly(sch.KeyGroup, 2, nil, random.New())
	sig, err := sch.ThresholdScheme.Sign(pri.Shares(2)[0], []byte("x"))
	if err != nil {
		panic(err)
	}
	return len(sig)
}()

func partial(member int, round uint64, prev []byte) *proto.PartialBeaconPacket {
	// tbls partial = 2-byte big-endian signer index followed by the signature; the cache never verifies
	sig := make([]byte, partialLen)
	sig[1] = byte(member)
	sig[2], sig[3] = 0xaa, byte(round)
	return &proto.PartialBeaconPacket{Round: round, PreviousSignature: prev, PartialSig: sig}
}

func cacheCheck(c *vlib.Check) {
	alpha := cacheAlphabet()
	limit := beacon.VerifMaxPartialsPerNode()
	members := 3
	sch := fix.Scheme(true)
	depth := 6
	if !c.Quick() {
		depth = 10
	}
	type world struct {
		pc     *beacon.VerifPartialCache
		head   uint64
		fresh  int
		honest map[string]uint64 // honest member 2's live entries (id -> round) according to the property: they stay until flushed
	}
	apply := func(w *world, e cev) error {
		if e.kind == "store" {
			w.head++
			w.pc.Flush(w.head)
			for id, r := range w.honest {
				if r <= w.head {
					delete(w.honest, id)
				}
			}
			return nil
		}
		var prev []byte
		switch e.prev {
		case "p0", "p1":
			prev = []byte(e.prev)
		case "join":
			prev = []byte(fmt.Sprintf("f%d", w.fresh))
		default:
			w.fresh++
			prev = []byte(fmt.Sprintf("f%d", w.fresh))
		}
		r := w.head + e.dr
		err := w.pc.Append(partial(e.member, r, prev))
		if e.member == 2 && err == nil {
			w.honest[beacon.VerifRoundID(r, prev)] = r
		}
		return err
	}
	bounds := func(w *world, ctx string) (viols []explore.Violation) {
		rounds, rcvd := w.pc.Rounds(), w.pc.Rcvd()
		for id := range w.honest {
			has := false
			for _, m := range rounds[id] {
				has = has || m == 2
			}
			if !has {
				viols = append(viols, explore.Violation{Fingerprint: "c12/cache/honest-partial-evicted", Detail: "a partial of honest member 2 for a round that is not stored yet disappeared from the cache" + ctx})
			}
		}
		if len(rounds) > members*limit {
			viols = append(viols, explore.Violation{Fingerprint: "c12/cache/rounds-unbounded", Detail: fmt.Sprintf("%d cached (round,previous) entries with %d members and limit %d%s", len(rounds), members, limit, ctx)})
		}
		for m, l := range rcvd {
			if len(l) > members*limit {
				viols = append(viols, explore.Violation{Fingerprint: "c12/cache/bookkeeping-unbounded", Detail: fmt.Sprintf("member %d has %d bookkeeping entries (limit per member %d, %d members): grows with every new partial%s", m, len(l), limit, members, ctx)})
			}
		}
		perMember := map[int]int{}
		for _, ms := range rounds {
			for _, m := range ms {
				perMember[m]++
			}
		}
		for m, n := range perMember {
			if n > members*limit {
				viols = append(viols, explore.Violation{Fingerprint: "c12/cache/member-entries-unbounded", Detail: fmt.Sprintf("member %d has signatures in %d cached entries (limit per member %d)%s", m, n, limit, ctx)})
			}
		}
		return viols
	}
	// pump words: every word of one or two appends, repeated often enough that anything that grows with each
	// repetition exceeds the bound ("no matter how many distinct rounds or previous signatures a member signs")
	var pumps [][]int
	pumpLetter := func(a cev) bool {
		// the flooders' letters (honest member 2 does not repeat itself); of the p0/p1 variants one is enough
		return a.kind == "append" && a.member != 2 && a.prev != "p1" && !(a.prev == "p0" && a.dr != 1)
	}
	for i, a := range alpha {
		if !pumpLetter(a) {
			continue
		}
		pumps = append(pumps, []int{i})
		for j, b := range alpha {
			if pumpLetter(b) && i != j {
				pumps = append(pumps, []int{i, j})
			}
		}
	}
	reps := members*limit + 4
	build := func(hist []int) (*world, error, int) {
		w := &world{pc: beacon.VerifNewPartialCache(fix.Logger(), sch), head: 10, honest: map[string]uint64{}}
		var lastErr error
		lastMember := 0
		for _, ei := range hist {
			lastErr = apply(w, alpha[ei])
			lastMember = alpha[ei].member
		}
		return w, lastErr, lastMember
	}
	var pumped sync.Map
	step := func(hist []int) (string, []explore.Violation, bool) {
		w, lastErr, lastMember := build(hist)
		var viols []explore.Violation
		if len(hist) > 0 && lastMember == 2 && lastErr != nil {
			viols = append(viols, explore.Violation{Fingerprint: "c12/cache/honest-append-rejected", Detail: fmt.Sprintf("Append of honest member 2 (within its limit) failed: %v", lastErr)})
		}
		viols = append(viols, bounds(w, "")...)
		pc, head := w.pc, w.head
		// canonical key: entries relative to head, fresh previous signatures renamed by first occurrence
		rounds, rcvd := pc.Rounds(), pc.Rcvd()
		ren := map[string]string{}
		name := func(id string) string {
			if _, ok := ren[id]; !ok {
				r := uint64(0)
				for _, b := range []byte(id[:8]) {
					r = r<<8 | uint64(b)
				}
				p := id[8:]
				if strings.HasPrefix(p, "f") {
					p = fmt.Sprintf("F%d", len(ren))
				}
				ren[id] = fmt.Sprintf("%d/%s", int64(r)-int64(head), p)
			}
			return ren[id]
		}
		var parts []string
		ms := make([]int, 0, len(rcvd))
		for m := range rcvd {
			ms = append(ms, m)
		}
		sort.Ints(ms)
		for _, m := range ms {
			var l []string
			for _, id := range rcvd[m] {
				l = append(l, name(id))
			}
			parts = append(parts, fmt.Sprintf("m%d:%v", m, l))
		}
		var rs []string
		for id, mm := range rounds {
			rs = append(rs, fmt.Sprintf("%s=%v", name(id), mm))
		}
		sort.Strings(rs)
		// "join" targets the most recent fresh previous signature: which entry that is (if still cached) is part of the state
		jn := "-"
		if jid := beacon.VerifRoundID(head+1, []byte(fmt.Sprintf("f%d", w.fresh))); rounds[jid] != nil {
			jn = name(jid)
		}
		key := strings.Join(parts, ";") + "|" + strings.Join(rs, ",") + "|join=" + jn
		if _, dup := pumped.LoadOrStore(key, true); dup {
			return key, viols, false // the pump words were tried from this state already
		}
		if len(viols) == 0 {
		pumping:
			for _, pw := range pumps {
				usesHonest := false
				for _, ei := range pw {
					usesHonest = usesHonest || alpha[ei].member == 2
				}
				if usesHonest {
					continue // member 2 is honest: it does not repeat itself
				}
				w2, _, _ := build(hist)
				for r := 0; r < reps; r++ {
					for _, ei := range pw {
						_ = apply(w2, alpha[ei])
					}
				}
				if v := bounds(w2, fmt.Sprintf(" after repeating [%s %s] %d times", alpha[pw[0]], alpha[pw[len(pw)-1]], reps)); len(v) > 0 {
					viols = append(viols, v...)
					break pumping
				}
			}
		}
		return key, viols, false
	}
	describe := func(hist []int) any {
		var l []string
		for _, e := range hist {
			l = append(l, alpha[e].String())
		}
		return l
	}
	c.BFS("c12-cache", func([]int) int { return len(alpha) }, depth, c.DeadlineIn(60*time.Second, 15*time.Minute), step, describe)
}
