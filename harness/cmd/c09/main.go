// c09 — property C09: DKG control messages are accepted only from the member they claim to be from.
//
// Engine E2 (depth 1 from 5 base states, exhaustive over the packet matrix) on the real dkg.Process with its
// real bolt store, under virtual time: the base states of the node under test M (fresh joiner; member with epoch 1
// complete; member in Proposed; the same after the other member accepted; member in Accepted) are produced once by
// real operator commands between real processes (package dkgw; a real first DKG included); M's database file is
// snapshotted in each of them. Then, for every packet kind x claimed sender x signing key x single-field mutation,
// a fresh Process on a copy of the snapshot receives the packet through the real entry point Process.Packet, and
// the stored state before/after is compared with the reference predicate.
package main

import (
	"context"
	"fmt"
	"os"
	"path/filepath"
	"time"

	"github.com/drand/drand/v2/common/key"
	"github.com/drand/drand/v2/crypto"
	"github.com/drand/drand/v2/internal/dkg"
	"github.com/drand/drand/v2/internal/util"
	"github.com/drand/drand/v2/verifharness/dkgw"
	"github.com/drand/drand/v2/verifharness/dnet"
	"github.com/drand/drand/v2/verifharness/fix"
	"github.com/drand/drand/v2/verifharness/vlib"
	vrt "verif.local/vrt"
)

type tcase = dkgw.Case

const beaconID = dkgw.BeaconID

func cases() []tcase {
	var out []tcase
	propMut := []string{"none", "metadata-address", "metadata-beacon-id", "signature-bitflip", "epoch", "threshold", "timeout", "beacon-period", "catchup-period", "scheme",
		"genesis-time", "genesis-seed", "drop-member", "add-member", "member-address", "member-key", "member-signature", "leader-key"}
	for _, base := range []string{"fresh", "complete"} {
		for _, claimed := range []string{"L", "B", "X"} {
			for _, signer := range []string{"L", "B", "X", "Xsub", "Xdup"} {
				for _, m := range propMut {
					if m != "none" && !(claimed == "L" && signer == "L") {
						continue // mutations are applied to the otherwise legitimate packet
					}
					// any member of the current group may lead the next proposal: it names itself leader and signs with the key
					// the group records for it
					legit := (claimed == "L" || claimed == "B") && signer == claimed && m == "none"
					if base == "fresh" {
						// a fresh node knows nobody: any validly self-signed proposer that signs its own proposal and lists the
						// node is as good as another (that is what the group file handed over at join time is for)
						legit = m == "none" && ((claimed == signer) || signer == "Xsub")
						if signer == "Xdup" {
							legit = false // one address listed twice with two keys: never a proposal to act on
						}
					}
					out = append(out, tcase{Base: base, Kind: "proposal", Claimed: claimed, Signer: signer, Mutation: m, Legit: legit})
				}
			}
		}
	}
	// after a failed execution a retry at the same epoch is judged against the last completed epoch, like any proposal
	for _, claimed := range []string{"L", "B", "X"} {
		for _, signer := range []string{"L", "B", "X", "Xsub", "Xdup"} {
			out = append(out, tcase{Base: "failed", Kind: "proposal", Claimed: claimed, Signer: signer, Mutation: "none",
				Legit: (claimed == "L" || claimed == "B") && signer == claimed})
		}
	}
	for _, mut := range []string{"member-key", "leader-key", "drop-member", "signature-bitflip", "genesis-seed"} {
		out = append(out, tcase{Base: "failed", Kind: "proposal", Claimed: "L", Signer: "L", Mutation: mut, Legit: false})
	}
	for _, base := range []string{"proposed", "b-accepted", "accepted"} {
		for _, kind := range []string{"accept", "reject", "execute", "abort"} {
			entitled := map[string]string{"accept": "B", "reject": "B", "execute": "L", "abort": "L"}[kind]
			for _, claimed := range []string{"L", "B", "X"} {
				for _, signer := range []string{"L", "B", "X"} {
					for _, m := range []string{"none", "metadata-address", "metadata-beacon-id", "signature-bitflip", "sig-of-other-vote"} {
						if m != "none" && !(claimed == entitled && signer == entitled) {
							continue
						}
						legit := claimed == entitled && signer == entitled && m == "none"
						if kind == "execute" && base != "accepted" {
							legit = false // a member that has not accepted does not execute (transition table)
						}
						if kind == "accept" && base != "proposed" {
							legit = false // B's acceptance is already recorded: a second one is a duplicate
						}
						out = append(out, tcase{Base: base, Kind: kind, Claimed: claimed, Signer: signer, Mutation: m, Legit: legit})
					}
				}
			}
		}
	}
	// M is being resharded out (Proposed, listed under Leaving): only the leader starts the execution (M then moves to
	// Left) or aborts
	for _, kind := range []string{"execute", "abort"} {
		for _, claimed := range []string{"L", "B", "X"} {
			for _, signer := range []string{"L", "B", "X"} {
				for _, m := range []string{"none", "metadata-address", "metadata-beacon-id", "signature-bitflip"} {
					if m != "none" && !(claimed == "L" && signer == "L") {
						continue
					}
					out = append(out, tcase{Base: "leaving", Kind: kind, Claimed: claimed, Signer: signer, Mutation: m, Legit: claimed == "L" && signer == "L" && m == "none"})
				}
			}
		}
	}
	return out
}

type outcome struct {
	err     error
	before  string
	after   string
	changed bool
	panic   string
	built   bool
}

func stateKey(s *dkg.DBState) string {
	if s == nil {
		return "<nil>"
	}
	var b []byte
	b = fmt.Appendf(b, "%s epoch=%d thr=%d leader=%s acc=%d rej=%d rem=%d join=%d leave=%d", s.State, s.Epoch, s.Threshold, s.Leader.GetAddress(), len(s.Acceptors), len(s.Rejectors), len(s.Remaining), len(s.Joining), len(s.Leaving))
	if s.Leader != nil {
		b = fmt.Appendf(b, " leaderkey=%x", s.Leader.Key[:4])
	}
	return string(b)
}

type ident struct{ kp *key.Pair }

func (i ident) KeypairFor(string) (*key.Pair, error) { return i.kp, nil }

func runCase(w *dkgw.World, t tcase, scratch string) outcome {
	var o outcome
	dir := filepath.Join(scratch, "case")
	_ = os.RemoveAll(dir)
	dkgw.CopyFile(w.Snap[t.Base], filepath.Join(dir, dkg.BoltFileName))
	s := vrt.Run(vrt.Options{Start: w.At[t.Base].Add(time.Second), MaxSteps: 200000, Watchdog: 60 * time.Second, Until: w.At[t.Base].Add(10 * time.Minute)}, func() {
		ctx := context.Background()
		st, err := dkg.NewDKGStore(dir)
		if err != nil {
			o.err = err
			return
		}
		defer st.Close()
		clk := &vrt.Clock{}
		pkt, ok := w.Build(t, clk.Now())
		if !ok {
			return
		}
		o.built = true
		nt := dnet.New(w.Sch) // only for its swallowing client
		proc := dkg.NewDKGProcess(st, ident{w.KM}, util.NewFanOutChan[dkg.SharingOutput](), nt.Client(), nil, nt.Cfg, fix.Logger())
		b, _ := st.GetCurrent(beaconID)
		o.before = stateKey(b)
		_, o.err = proc.Packet(ctx, pkt)
		a, _ := st.GetCurrent(beaconID)
		o.after = stateKey(a)
		o.changed = o.before != o.after
	})
	o.panic = s.Panic
	return o
}

func main() {
	c := vlib.New("C09", "model_checking")
	if c.Replay != "" {
		fmt.Println("replay: the failing packet is described in the replay file (base state, kind, claimed sender, signing key, mutation)")
		os.Exit(0)
	}
	scratch, rm := fix.ScratchDir()
	defer rm()
	schemes := []string{crypto.DefaultSchemeID}
	if !c.Quick() {
		schemes = crypto.ListSchemes()
	}
	all := cases()
	var evals, states, accepted int64
	for _, scID := range schemes {
		w := dkgw.Setup(scID, scratch)
		if w.Err != nil {
			c.EngineError("c09 set-up for %s failed: %v", scID, w.Err)
			continue
		}
		states += int64(len(w.Snap))
		for _, t := range all {
			o := runCase(w, t, scratch)
			if !o.built {
				continue
			}
			evals++
			if evals <= 3 {
				c.Sample(map[string]any{"scheme": scID, "case": t.String(), "legitimate": t.Legit, "error": fmt.Sprint(o.err), "state_before": o.before, "state_after": o.after})
			}
			tag := fmt.Sprintf("%s %s", scID, t)
			if o.panic != "" {
				c.Report("c09/panic/"+t.Kind, fmt.Sprintf("%s: Process.Packet panicked: %.400s", tag, o.panic), t)
				continue
			}
			if o.changed {
				accepted++
			}
			switch {
			case t.Legit && (o.err != nil || !o.changed):
				c.Report(fmt.Sprintf("c09/legitimate-packet-refused/%s/%s", t.Base, t.Kind), fmt.Sprintf("%s: the legitimate packet was not applied (err=%v, state %s -> %s)", tag, o.err, o.before, o.after), t)
			case !t.Legit && o.changed:
				c.Report(fmt.Sprintf("c09/forged-packet-accepted/%s/%s/claimed=%s/signer=%s/mutation=%s", t.Base, t.Kind, t.Claimed, t.Signer, t.Mutation),
					fmt.Sprintf("%s: M changed state on a packet it must refuse (err=%v, state %s -> %s)", tag, o.err, o.before, o.after), t)
			case !t.Legit && o.err == nil:
				c.Report(fmt.Sprintf("c09/forged-packet-not-rejected/%s/%s/claimed=%s/signer=%s/mutation=%s", t.Base, t.Kind, t.Claimed, t.Signer, t.Mutation),
					fmt.Sprintf("%s: the packet was answered without error although it must be refused (state unchanged)", tag), t)
			}
		}
	}
	c.Count("states", states)
	c.Count("transitions", evals)
	c.Count("traces", evals)
	c.Count("evaluations", evals)
	c.Count("distinct", evals)
	c.Count("packets_that_changed_state", accepted)
	c.Exhaustive(true)
	c.Sub("c09-auth", map[string]any{"engine": "E2 depth-1 enumeration from snapshotted base states", "schemes": len(schemes), "base_states": 7, "packets": evals, "changed_state": accepted})
	c.Assume("base states are produced by real commands between three real processes (a real first DKG included) under the scheduler's default schedule and virtual time",
		"reference predicate: a packet may change M's state iff it is the unmodified packet, signed by the key of the sender it claims, and that sender is entitled (leader: propose/execute/abort; a remaining member: its own accept/reject); a member of a completed epoch authenticates against the keys in its current group; a fresh node accepts any validly self-signed proposer that lists it")
	c.Finish("one case = one packet (kind x claimed sender x signing key x single-field mutation) delivered to a fresh Process on a snapshot of the base state; states = base states, transitions = packets delivered")
}
