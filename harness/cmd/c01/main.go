// c01 — property C01: every beacon a node stores or serves is publicly verifiable.
//
// c01-agg (engine E1, bnet.VAdv): the real handler V under the controlled scheduler, the other group members
// played by an adversary that sends every sequence (length <= 2 quick / <= 3 thorough) over an alphabet of
// valid and forged partials (wrong key, wrong round label, other previous signature, replay of V's own,
// truncated, bit-flipped index/body, index outside the group, duplicates) for rounds 1 and 2, followed by
// enough valid partials; every database write is judged by the reference verifier.
// c01-sync: see sync.go (lying sync peers; shared with C10).
package main

import (
	"fmt"
	"os"
	"time"

	"github.com/drand/drand/v2/crypto"
	"github.com/drand/drand/v2/verifharness/bnet"
	"github.com/drand/drand/v2/verifharness/repairchk"
	"github.com/drand/drand/v2/verifharness/vlib"
	"github.com/drand/kyber/share"
	"github.com/drand/kyber/util/random"
	vrt "verif.local/vrt"
	"verif.local/vrt/explore"
)

func alphabet(k *bnet.Keys) []bnet.Item {
	prev := k.Seed
	chained := k.SchemeID == crypto.DefaultSchemeID
	foreign := share.NewPriPoly(k.Scheme.KeyGroup, k.T, nil, random.New()).Shares(k.N)
	var a []bnet.Item
	for _, r := range []uint64{1, 2} {
		at := r
		for j := 1; j < k.N && j <= 2; j++ {
			good := k.Partial(j, r, prev)
			a = append(a, bnet.Item{Label: fmt.Sprintf("valid(m%d,r%d)", j, r), From: j, P: good, AtRound: at})
			if j > 1 {
				continue
			}
			mut := func(label string, f func(sig []byte) []byte) {
				s := f(append([]byte{}, good.PartialSig...))
				a = append(a, bnet.Item{Label: fmt.Sprintf("%s(m%d,r%d)", label, j, r), From: j, P: k.PartialRaw(r, prev, s), AtRound: at})
			}
			fs, err := k.Scheme.ThresholdScheme.Sign(foreign[j], bnet.RefDigest(k.SchemeID, r, map[bool][]byte{true: prev, false: nil}[chained]))
			if err != nil {
				panic(err)
			}
			mut("wrong-key", func([]byte) []byte { return fs })
			mut("truncated-0", func(s []byte) []byte { return nil })
			mut("truncated-2", func(s []byte) []byte { return s[:2] })
			mut("truncated-last", func(s []byte) []byte { return s[:len(s)-1] })
			mut("bitflip-index", func(s []byte) []byte { s[1] ^= 0x02; return s })
			mut("bitflip-body", func(s []byte) []byte { s[len(s)/2] ^= 0x10; return s })
			mut("index-outside-group", func(s []byte) []byte { s[0], s[1] = 0, byte(k.N); return s })
			mut("index-65535", func(s []byte) []byte { s[0], s[1] = 0xff, 0xff; return s })
			a = append(a, bnet.Item{Label: fmt.Sprintf("round-%d-sig-labelled-round-%d(m%d)", r+1, r, j), From: j, P: k.PartialRaw(r, prev, k.Partial(j, r+1, prev).PartialSig), AtRound: at})
			a = append(a, bnet.Item{Label: fmt.Sprintf("own-partial-of-V-replayed(r%d)", r), From: j, P: k.Partial(0, r, prev), AtRound: at})
			if chained {
				other := []byte("another-previous-signature-00000")
				a = append(a, bnet.Item{Label: fmt.Sprintf("valid-for-other-previous(m%d,r%d)", j, r), From: j, P: k.Partial(j, r, other), AtRound: at})
				a = append(a, bnet.Item{Label: fmt.Sprintf("other-previous-relabelled(m%d,r%d)", j, r), From: j, P: k.PartialRaw(r, prev, k.Partial(j, r, other).PartialSig), AtRound: at})
			}
		}
	}
	return a
}

// sequences: every sequence of length 1..maxLen over the alphabet (forged items first), each followed by the
// valid partials of members 1..t-1 for round 1 so that aggregation is actually attempted.
func sequences(k *bnet.Keys, maxLen int) [][]bnet.Item {
	a := alphabet(k)
	var tail []bnet.Item
	for j := 1; j < k.T; j++ {
		tail = append(tail, bnet.Item{Label: fmt.Sprintf("valid(m%d,r1)", j), From: j, P: k.Partial(j, 1, k.Seed), AtRound: 1})
	}
	var out [][]bnet.Item
	var rec func(cur []bnet.Item)
	rec = func(cur []bnet.Item) {
		if len(cur) > 0 {
			out = append(out, append(append([]bnet.Item{}, cur...), tail...))
		}
		if len(cur) == maxLen {
			return
		}
		for _, it := range a {
			rec(append(cur, it))
		}
	}
	rec(nil)
	return out
}

func main() {
	c := vlib.New("C01", "model_checking")
	if c.Replay != "" {
		fmt.Println("replay: the schedule deviations and the packet sequence are in the replay file; re-run ./check C01")
		os.Exit(0)
	}
	genesis := vrt.Epoch.Add(2 * time.Second).Unix()
	type job struct {
		scheme string
		n, t   int
		be     string
		maxLen int
		bound  int
	}
	var js []job
	if c.Quick() {
		js = []job{{crypto.DefaultSchemeID, 3, 2, "memdb", 2, 0}, {crypto.DefaultSchemeID, 3, 2, "memdb", 1, 1}, {crypto.UnchainedSchemeID, 3, 2, "memdb", 1, 1},
			{crypto.BN254UnchainedOnG1SchemeID, 3, 2, "memdb", 1, 1}, {crypto.SigsOnG1ID, 4, 3, "bolt-trimmed", 1, 0}, {crypto.ShortSigSchemeID, 3, 2, "bolt-untrimmed", 1, 0}}
	} else {
		for _, sc := range crypto.ListSchemes() {
			js = append(js, job{sc, 3, 2, "memdb", 3, 0}, job{sc, 3, 2, "memdb", 2, 1}, job{sc, 4, 3, "memdb", 2, 1}, job{sc, 3, 2, "memdb", 1, 2}, job{sc, 4, 3, "bolt-trimmed", 1, 1})
		}
	}
	var jobs []vlib.E1Job
	total := 0
	for _, j := range js {
		k := bnet.NewKeys(j.scheme, j.n, j.t, 3*time.Second, genesis)
		h := &bnet.VAdv{Keys: k, Backend: j.be, Seqs: sequences(k, j.maxLen), Rounds: 3}
		total += len(h.Seqs)
		jobs = append(jobs, vlib.E1Job{Name: fmt.Sprintf("c01-agg/%s/n=%d/t=%d/%s/len<=%d/seqs=%d", j.scheme, j.n, j.t, j.be, j.maxLen, len(h.Seqs)), Bound: j.bound,
			Run: func(devs []vrt.Dev) *explore.Exec {
				r := h.Run(devs, false)
				x := h.Judge(r, "c01/agg")
				if r.Net != nil {
					r.Net.Close()
				}
				return x
			}})
	}
	// c01-net: a network of real handlers per scheme — every node signs with the repository's digest, so a
	// change to a scheme's digest or to a call site shows up as stored beacons the reference verifier rejects
	schemes := crypto.ListSchemes()
	for i, sc := range schemes {
		k := bnet.NewKeys(sc, 3, 2, 3*time.Second, genesis)
		bound := 0
		if !c.Quick() || i == 0 {
			bound = 1
		}
		be := []string{"memdb", "memdb", "memdb"}
		if !c.Quick() {
			be = []string{"memdb", "bolt-trimmed", "bolt-untrimmed"}
		}
		scn := &bnet.Scenario{Keys: k, Backends: be, Rounds: 4}
		jobs = append(jobs, vlib.E1Job{Name: fmt.Sprintf("c01-net/%s/n=3/t=2/%v/rounds=4", sc, be), Bound: bound,
			Run: func(devs []vrt.Dev) *explore.Exec {
				r := scn.Run(devs, false)
				x := scn.JudgeSafety(r, "c01/net")
				if r.Net != nil {
					r.Net.Close()
				}
				if len(x.Violations) == 0 && r.S.NativeBlock == "" {
					for i, w := range r.Writes {
						if len(w) < 3 && len(devs) == 0 {
							x.Violations = append(x.Violations, explore.Violation{Fingerprint: "c01/net/vacuous", Detail: fmt.Sprintf("%s: node %d stored only %d beacons in 4 rounds under the default schedule (the run does not exercise the property)", sc, i, len(w))})
						}
					}
				}
				return x
			}})
	}
	c.Count("packet_sequences", int64(total))
	c.E1Batch(jobs, time.Until(c.DeadlineIn(90*time.Second, 25*time.Minute)))
	// c01-resync: what the operator-triggered check / repair path (re-sync from peers, which writes below the
	// append-only layer) persists must verify like everything else: every corruption pattern of a 5-round store, mixed
	// honest and lying peers (same enumeration as c10-check)
	repairchk.Run(c, "c01/resync", "c01-resync")
	syncCheck(c)
	c.Assume("beacon validity is decided by the harness' reference verifier (digest from the scheme's specification, kyber tbls/bls), never by the code under test",
		"V is member 0; all other members are scripted; threshold BLS operations are memoised as pure functions")
	c.Finish("one case = one execution of V under one schedule for one packet sequence over the forged/valid alphabet; distinct = distinct (sequence, stored rounds) outcomes")
}
