package main

import "github.com/drand/drand/v2/verifharness/vlib"

// syncCheck is c01-sync (filled in together with the C10 harness).
func syncCheck(c *vlib.Check) {}
