// c20 — property C20: persisted and transmitted state round-trips without loss.
//
// Exhaustive shape enumeration: all schemes x groups of 1..10 nodes x every subset of the optional fields, through
// the group file (TOML), the protobuf wire form and back; key pairs and shares through their files (including a
// shorter value saved over a longer one); chain info through protobuf and JSON (with deterministic keys k*G);
// DKG database records in every status with and without group / share / participant lists through TOML and the real
// bolt DKG store, compared field by field by reflection; beacons through JSON and the wire form; and the decode-side
// rejections (threshold out of range, unknown scheme) on both the TOML and the protobuf path.
package main

import (
	"bytes"
	"encoding/json"
	"fmt"
	"os"
	"path/filepath"
	"reflect"
	"time"

	"github.com/BurntSushi/toml"
	pb "google.golang.org/protobuf/proto"

	"github.com/drand/drand/v2/common"
	"github.com/drand/drand/v2/common/chain"
	"github.com/drand/drand/v2/common/key"
	"github.com/drand/drand/v2/crypto"
	"github.com/drand/drand/v2/internal/dkg"
	pdkg "github.com/drand/drand/v2/protobuf/dkg"
	proto "github.com/drand/drand/v2/protobuf/drand"
	"github.com/drand/drand/v2/verifharness/fix"
	"github.com/drand/drand/v2/verifharness/gen"
	"github.com/drand/drand/v2/verifharness/vlib"
)

var c *vlib.Check
var evals, distinct int64
var nsamples int

func bad(fp, format string, a ...any) {
	c.Report("c20/"+fp, fmt.Sprintf(format, a...), map[string]any{"case": fmt.Sprintf(format, a...)})
}

func sameGroup(a, b *key.Group) string {
	if a == nil || b == nil {
		if a != b {
			return "one is nil"
		}
		return ""
	}
	if !a.Equal(b) {
		return "Equal() is false"
	}
	if !bytes.Equal(a.Hash(), b.Hash()) {
		return "hashes differ"
	}
	if a.CatchupPeriod != b.CatchupPeriod || a.Period != b.Period || a.TransitionTime != b.TransitionTime || a.GenesisTime != b.GenesisTime || a.Threshold != b.Threshold {
		return "a scalar field differs"
	}
	if !bytes.Equal(a.GetGenesisSeed(), b.GetGenesisSeed()) {
		return "genesis seed differs"
	}
	if common.GetCanonicalBeaconID(a.ID) != common.GetCanonicalBeaconID(b.ID) || a.Scheme.Name != b.Scheme.Name || len(a.Nodes) != len(b.Nodes) {
		return "id/scheme/size differs"
	}
	for i := range a.Nodes {
		if !a.Nodes[i].Equal(b.Nodes[i]) || !bytes.Equal(a.Nodes[i].Signature, b.Nodes[i].Signature) || a.Nodes[i].Addr != b.Nodes[i].Addr {
			return fmt.Sprintf("node %d differs", i)
		}
	}
	if (a.PublicKey == nil) != (b.PublicKey == nil) || (a.PublicKey != nil && !a.PublicKey.Equal(b.PublicKey)) {
		return "distributed public key differs"
	}
	return ""
}

func groups(dir string, maxN int) {
	for _, scID := range crypto.ListSchemes() {
		for n := 1; n <= maxN; n++ {
			t := key.MinimumT(n)
			if n%3 == 0 {
				t = n
			}
			m := gen.NewMaterial(scID, n, t)
			// index layouts: 0..n-1 / a hole (the participant with index 1 did not qualify in the DKG: 0,2,3,..,n)
			for mask := 0; mask < 32*2; mask++ {
				o := gen.GroupOpts{ID: "default", Period: 30 * time.Second, Genesis: 1600000000}
				layout := "contiguous"
				switch mask / 32 {
				case 1:
					layout = "hole-at-1"
					o.IndexOf = func(i int) uint32 {
						if i >= 1 {
							return uint32(i + 1)
						}
						return uint32(i)
					}
				}
				if mask&1 != 0 {
					o.Transition = 1600003000
				}
				o.NoPubKey = mask&2 != 0
				if mask&4 != 0 {
					o.Seed = bytes.Repeat([]byte{0x5c}, 32)
				}
				if mask&8 != 0 {
					o.Catchup = 7 * time.Second
				}
				if mask&16 != 0 {
					o.ID = "testnet-b"
				}
				tag := fmt.Sprintf("%s n=%d t=%d transition=%v pubkey=%v seed=%v catchup=%v id=%s indices=%s", scID, n, t, mask&1 != 0, !o.NoPubKey, mask&4 != 0, mask&8 != 0, o.ID, layout)
				g := m.Group(o)
				distinct++
				if nsamples < 2 {
					nsamples++
					c.Sample(map[string]any{"kind": "group", "shape": tag})
				}
				// group file
				p := filepath.Join(dir, "g.toml")
				evals++
				if err := key.Save(p, g, false); err != nil {
					bad("group-file/encode", "%s: %v", tag, err)
				} else {
					g2 := new(key.Group)
					if err := key.Load(p, g2); err != nil {
						bad("group-file/decode", "%s: the group file the node wrote cannot be loaded: %v", tag, err)
					} else if d := sameGroup(m.Group(o), g2); d != "" {
						bad("group-file/lossy", "%s: group file round trip: %s", tag, d)
					}
				}
				// protobuf
				evals++
				raw, err := pb.Marshal(g.ToProto(common.GetAppVersion()))
				if err != nil {
					bad("group-proto/encode", "%s: %v", tag, err)
					continue
				}
				gp := new(proto.GroupPacket)
				if err := pb.Unmarshal(raw, gp); err != nil {
					bad("group-proto/decode", "%s: %v", tag, err)
					continue
				}
				g3, err := key.GroupFromProto(gp, nil)
				if err != nil {
					bad("group-proto/decode", "%s: GroupFromProto rejects what ToProto produced: %v", tag, err)
				} else if d := sameGroup(m.Group(o), g3); d != "" {
					bad("group-proto/lossy", "%s: protobuf round trip: %s", tag, d)
				}
			}
			// decode-side rejections
			base := m.Group(gen.GroupOpts{ID: "default", Period: 30 * time.Second, Genesis: 1600000000, Seed: []byte("s")})
			for _, thr := range []int{0, key.MinimumT(n) - 1, n + 1, 1 << 30} {
				if thr < 0 {
					continue
				}
				tag := fmt.Sprintf("%s n=%d threshold=%d", scID, n, thr)
				gp := base.ToProto(common.GetAppVersion())
				gp.Threshold = uint32(thr)
				gp.DistKey = nil
				evals++
				if _, err := key.GroupFromProto(gp, nil); err == nil {
					bad("threshold-accepted/protobuf", "%s: GroupFromProto accepted a threshold outside [%d, %d]", tag, key.MinimumT(n), n)
				}
				gt := base.TOML().(*key.GroupTOML)
				gt.Threshold = thr
				gt.PublicKey = nil
				evals++
				if err := new(key.Group).FromTOML(gt); err == nil {
					bad("threshold-accepted/toml", "%s: Group.FromTOML accepted a threshold outside [%d, %d]", tag, key.MinimumT(n), n)
				}
			}
			for _, name := range []string{"", "no-such-scheme", scID + "x"} {
				gp := base.ToProto(common.GetAppVersion())
				gp.SchemeID = name
				evals++
				if g, err := key.GroupFromProto(gp, nil); err == nil && name != "" {
					bad("scheme-accepted/protobuf", "%s n=%d: GroupFromProto accepted scheme name %q as %s", scID, n, name, g.Scheme.Name)
				}
				gt := base.TOML().(*key.GroupTOML)
				gt.SchemeID = name
				evals++
				if err := new(key.Group).FromTOML(gt); err == nil && name != "" {
					bad("scheme-accepted/toml", "%s n=%d: Group.FromTOML accepted scheme name %q", scID, n, name)
				}
			}
		}
	}
}

func keysAndShares(dir string) {
	for _, scID := range crypto.ListSchemes() {
		var lastShare *key.Share
		for _, t := range []int{5, 3, 2, 4, 1} {
			m := gen.NewMaterial(scID, 5, t)
			tag := fmt.Sprintf("%s t=%d", scID, t)
			distinct++
			// key pair through the real file store (secure file), re-saved over the previous one
			st := key.NewFileStore(dir, "roundtrip")
			evals++
			if err := st.SaveKeyPair(m.Pairs[0]); err != nil {
				bad("keypair/encode", "%s: %v", tag, err)
			} else if kp, err := st.LoadKeyPair(); err != nil {
				bad("keypair/decode", "%s: the key file the node wrote cannot be loaded: %v", tag, err)
			} else if !kp.Key.Equal(m.Pairs[0].Key) || !kp.Public.Equal(m.Pairs[0].Public) || !bytes.Equal(kp.Public.Signature, m.Pairs[0].Public.Signature) || kp.Public.Addr != m.Pairs[0].Public.Addr {
				bad("keypair/lossy", "%s: key pair differs after save/load", tag)
			}
			// share: a share with fewer commitments is saved over one with more (resharing to a lower threshold)
			sh := m.Share(2)
			evals++
			if err := st.SaveShare(sh); err != nil {
				bad("share/encode", "%s: %v", tag, err)
			} else if s2, err := st.LoadShare(); err != nil {
				prev := -1
				if lastShare != nil {
					prev = len(lastShare.Commits)
				}
				bad("share/decode", "%s: the share file the node wrote cannot be loaded (previous file had %d commitments, this one %d): %v", tag, prev, len(sh.Commits), err)
			} else {
				ok := s2.Share.I == sh.Share.I && s2.Share.V.Equal(sh.Share.V) && len(s2.Commits) == len(sh.Commits) && s2.Scheme.Name == sh.Scheme.Name
				for i := range sh.Commits {
					ok = ok && i < len(s2.Commits) && s2.Commits[i].Equal(sh.Commits[i])
				}
				if !ok {
					bad("share/lossy", "%s: share differs after save/load", tag)
				}
			}
			lastShare = sh
			// group through the file store as well (non-secure file, overwritten)
			g := m.Group(gen.GroupOpts{ID: "roundtrip", Period: 3 * time.Second, Genesis: 1600000000, Seed: []byte("seed")})
			g.Nodes = g.Nodes[:t]
			g.Threshold = key.MinimumT(t)
			g.PublicKey = nil
			evals++
			if err := st.SaveGroup(g); err != nil {
				bad("group-store/encode", "%s: %v", tag, err)
			} else if g2, err := st.LoadGroup(); err != nil {
				bad("group-store/decode", "%s: group saved over a larger one cannot be loaded: %v", tag, err)
			} else if d := sameGroup(g, g2); d != "" {
				bad("group-store/lossy", "%s: %s", tag, d)
			}
		}
	}
}

func chainInfos() {
	for _, scID := range crypto.ListSchemes() {
		sch, _ := crypto.SchemeFromName(scID)
		pt := sch.KeyGroup.Point().Base()
		acc := sch.KeyGroup.Point().Null()
		for k := 1; k <= 48; k++ {
			acc = sch.KeyGroup.Point().Add(acc, pt)
			inf := &chain.Info{PublicKey: acc.Clone(), ID: "default", Period: 3 * time.Second, Scheme: scID, GenesisTime: 1600000000, GenesisSeed: []byte{1, 2, 3, byte(k)}}
			tag := fmt.Sprintf("%s public key %d*G", scID, k)
			distinct++
			evals += 2
			b, err := json.Marshal(inf)
			if err != nil {
				bad("info-json/encode", "%s: %v", tag, err)
				continue
			}
			i2 := new(chain.Info)
			if err := json.Unmarshal(b, i2); err != nil {
				bad("info-json/decode", "%s: the node rejects its own chain info JSON: %v", tag, err)
			} else if !inf.Equal(i2) || !bytes.Equal(inf.Hash(), i2.Hash()) {
				bad("info-json/lossy", "%s: chain info differs after JSON round trip", tag)
			}
			raw, _ := pb.Marshal(inf.ToProto(nil))
			cp := new(proto.ChainInfoPacket)
			_ = pb.Unmarshal(raw, cp)
			i3, err := chain.InfoFromProto(cp)
			if err != nil {
				bad("info-proto/decode", "%s: %v", tag, err)
			} else if !inf.Equal(i3) || !bytes.Equal(inf.Hash(), i3.Hash()) || !bytes.Equal(cp.Hash, inf.Hash()) {
				bad("info-proto/lossy", "%s: chain info differs after protobuf round trip", tag)
			}
		}
	}
}

func participant(p *key.Pair) *pdkg.Participant {
	kb, _ := p.Public.Key.MarshalBinary()
	return &pdkg.Participant{Address: p.Public.Addr, Key: kb, Signature: p.Public.Signature}
}

func sameState(a, b *dkg.DBState) string {
	va, vb := reflect.ValueOf(*a), reflect.ValueOf(*b)
	for i := 0; i < va.NumField(); i++ {
		name := va.Type().Field(i).Name
		fa, fb := va.Field(i).Interface(), vb.Field(i).Interface()
		switch x := fa.(type) {
		case time.Time:
			if !x.Equal(fb.(time.Time)) {
				return name
			}
		case []byte:
			if !bytes.Equal(x, fb.([]byte)) {
				return name
			}
		case *pdkg.Participant:
			y := fb.(*pdkg.Participant)
			if (x == nil) != (y == nil) || (x != nil && !pb.Equal(x, y)) {
				return name
			}
		case []*pdkg.Participant:
			y := fb.([]*pdkg.Participant)
			if len(x) != len(y) {
				return name
			}
			for j := range x {
				if !pb.Equal(x[j], y[j]) {
					return name
				}
			}
		case *key.Group:
			if d := sameGroup(x, fb.(*key.Group)); d != "" {
				return name + " (" + d + ")"
			}
		case *key.Share:
			y := fb.(*key.Share)
			if (x == nil) != (y == nil) {
				return name
			}
			if x != nil && (x.Share.I != y.Share.I || !x.Share.V.Equal(y.Share.V) || len(x.Commits) != len(y.Commits)) {
				return name
			}
		default:
			if !reflect.DeepEqual(fa, fb) {
				return name
			}
		}
	}
	return ""
}

func dbStates(dir string) {
	store, err := dkg.NewDKGStore(dir)
	if err != nil {
		bad("dkgstore/open", "%v", err)
		return
	}
	defer store.Close()
	for si, scID := range crypto.ListSchemes() {
		m := gen.NewMaterial(scID, 4, 3)
		var parts []*pdkg.Participant
		for _, p := range m.Pairs {
			parts = append(parts, participant(p))
		}
		for status := dkg.Fresh; status <= dkg.Failed; status++ {
			for mask := 0; mask < 16; mask++ {
				st := &dkg.DBState{BeaconID: fmt.Sprintf("b%d", si), Epoch: uint32(1 + mask%3), State: status, Threshold: 3,
					Timeout: time.Unix(1700000000+int64(mask), 0).UTC(), SchemeID: scID, GenesisTime: time.Unix(1600000000, 0).UTC(),
					GenesisSeed: []byte{9, 8, 7, byte(mask)}, CatchupPeriod: 2 * time.Second, BeaconPeriod: 30 * time.Second, Leader: parts[0]}
				if mask&1 != 0 {
					st.FinalGroup = m.Group(gen.GroupOpts{ID: st.BeaconID, Period: 30 * time.Second, Catchup: 2 * time.Second, Genesis: 1600000000, Seed: st.GenesisSeed, Transition: 1600000300})
				}
				if mask&2 != 0 {
					st.KeyShare = m.Share(1)
				}
				if mask&4 != 0 {
					st.Remaining, st.Joining, st.Leaving = parts[:2], parts[2:3], parts[3:]
				} else {
					st.Joining = parts
				}
				if mask&8 != 0 {
					st.Acceptors, st.Rejectors = parts[1:2], parts[2:3]
				}
				tag := fmt.Sprintf("%s status=%s group=%v share=%v lists=%v accept/reject=%v", scID, status, mask&1 != 0, mask&2 != 0, mask&4 != 0, mask&8 != 0)
				distinct++
				if nsamples < 4 {
					nsamples++
					c.Sample(map[string]any{"kind": "dkg database record", "shape": tag})
				}
				// TOML path
				evals++
				var buf bytes.Buffer
				if err := toml.NewEncoder(&buf).Encode(st.TOML()); err != nil {
					bad("dbstate-toml/encode", "%s: %v", tag, err)
				} else {
					var tm dkg.DBStateTOML
					if _, err := toml.Decode(buf.String(), &tm); err != nil {
						bad("dbstate-toml/decode", "%s: %v", tag, err)
					} else if s2, err := tm.FromTOML(); err != nil {
						bad("dbstate-toml/decode", "%s: %v", tag, err)
					} else if f := sameState(st, s2); f != "" {
						bad("dbstate-toml/lossy", "%s: field %s differs after the TOML round trip", tag, f)
					}
				}
				// real store
				evals++
				if err := store.SaveCurrent(st.BeaconID, st); err != nil {
					bad("dbstate-store/encode", "%s: %v", tag, err)
				} else if s3, err := store.GetCurrent(st.BeaconID); err != nil {
					bad("dbstate-store/decode", "%s: %v", tag, err)
				} else if f := sameState(st, s3); f != "" {
					bad("dbstate-store/lossy", "%s: field %s differs after SaveCurrent/GetCurrent", tag, f)
				}
				if status == dkg.Complete && mask&3 == 3 {
					evals++
					if err := store.SaveFinished(st.BeaconID, st); err != nil {
						bad("dbstate-store/encode", "%s: SaveFinished: %v", tag, err)
					} else if s4, err := store.GetFinished(st.BeaconID); err != nil || s4 == nil {
						bad("dbstate-store/decode", "%s: GetFinished: %v", tag, err)
					} else if f := sameState(st, s4); f != "" {
						bad("dbstate-store/lossy", "%s: field %s differs after SaveFinished/GetFinished", tag, f)
					}
				}
			}
		}
	}
}

func beacons() {
	for _, l := range []int{0, 1, 48, 96} {
		for _, fill := range []byte{0x00, 0xff, 0x5a} {
			for _, prevLen := range []int{0, 1, 96} {
				b := &common.Beacon{Round: uint64(l)*1000 + uint64(fill), Signature: bytes.Repeat([]byte{fill}, l), PreviousSig: bytes.Repeat([]byte{fill ^ 0x0f}, prevLen)}
				tag := fmt.Sprintf("beacon siglen=%d fill=%#x prevlen=%d", l, fill, prevLen)
				distinct++
				evals += 2
				raw, err := b.Marshal()
				if err != nil {
					bad("beacon-json/encode", "%s: %v", tag, err)
					continue
				}
				b2 := new(common.Beacon)
				if err := b2.Unmarshal(raw); err != nil {
					bad("beacon-json/decode", "%s: %v", tag, err)
				} else if b2.Round != b.Round || !bytes.Equal(b2.Signature, b.Signature) || !bytes.Equal(b2.PreviousSig, b.PreviousSig) {
					bad("beacon-json/lossy", "%s: beacon differs after JSON round trip (%s)", tag, raw)
				}
				pk := &proto.BeaconPacket{Round: b.Round, Signature: b.Signature, PreviousSignature: b.PreviousSig, Metadata: &proto.Metadata{BeaconID: "x"}}
				w, _ := pb.Marshal(pk)
				pk2 := new(proto.BeaconPacket)
				if err := pb.Unmarshal(w, pk2); err != nil || pk2.Round != b.Round || !bytes.Equal(pk2.Signature, b.Signature) || !bytes.Equal(pk2.PreviousSignature, b.PreviousSig) {
					bad("beacon-wire/lossy", "%s: beacon differs after the wire round trip", tag)
				}
			}
		}
	}
}

func main() {
	c = vlib.New("C20", "exploration")
	if c.Replay != "" {
		fmt.Println("replay: the failing shape is written out in the replay file")
		os.Exit(0)
	}
	dir, rm := fix.ScratchDir()
	defer rm()
	maxN := 6
	if !c.Quick() {
		maxN = 10
	}
	groups(dir, maxN)
	keysAndShares(dir)
	chainInfos()
	dbStates(dir)
	beacons()
	c.Count("evaluations", evals)
	c.Count("distinct", distinct)
	c.Exhaustive(true)
	c.Sub("c20-roundtrip", map[string]any{"engine": "E2 exhaustive shape enumeration", "round_trips": evals, "shapes": distinct, "max_group_size": maxN})
	c.Assume("shapes are enumerated completely, key material is drawn once per run (chain info uses the deterministic keys k*G, k=1..48)")
	c.Finish("one case = one encode/decode round trip of one value shape through one path; distinct = value shapes")
}
