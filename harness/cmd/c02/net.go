package main

import (
	"fmt"
	"time"

	"github.com/drand/drand/v2/crypto"
	"github.com/drand/drand/v2/verifharness/bnet"
	"github.com/drand/drand/v2/verifharness/vlib"
	vrt "verif.local/vrt"
	"verif.local/vrt/explore"
)

// netCheck is c02-net: a network of real handlers (one per member) under the controlled scheduler with
// scripted partitions / stop+restart and, as explorer choices, drops of individual partials; the aggregation
// path and the sync path of a node that fell behind race on its store. Oracles: per-node write log is
// head+1 each time, every write reference-verifies, any two nodes hold identical beacons per round, final
// stores are gap-free and linked.
func netCheck(c *vlib.Check) {
	genesis := vrt.Epoch.Add(2 * time.Second).Unix()
	scripts := func(n int) [][]bnet.Fault {
		var s [][]bnet.Fault
		s = append(s, nil)
		for i := 0; i < n && i < 2; i++ {
			s = append(s, []bnet.Fault{{Kind: "partition", Node: i, AtRound: 2}, {Kind: "heal", Node: i, AtRound: 3}})
			s = append(s, []bnet.Fault{{Kind: "partition", Node: i, AtRound: 2}, {Kind: "heal", Node: i, AtRound: 4}})
			s = append(s, []bnet.Fault{{Kind: "stop", Node: i, AtRound: 2}, {Kind: "restart", Node: i, AtRound: 4}})
			s = append(s, []bnet.Fault{{Kind: "cut", Node: i, Peer: (i + 1) % n, AtRound: 1}, {Kind: "uncut", Node: i, Peer: (i + 1) % n, AtRound: 3}})
		}
		// one database write of a node fails while the node keeps running
		s = append(s, []bnet.Fault{{Kind: "dbfail", Node: 0, AtRound: 2}}, []bnet.Fault{{Kind: "dbfail", Node: n - 1, AtRound: 3}})
		return s
	}
	type job struct {
		scheme   string
		n, t     int
		backends []string
		rounds   int
		drop     bool
		bound    int
		prefill  []uint64
		start    uint64
	}
	var js []job
	if c.Quick() {
		js = []job{
			{crypto.DefaultSchemeID, 3, 2, []string{"memdb", "memdb", "memdb"}, 5, false, 1, nil, 0},
			{crypto.UnchainedSchemeID, 3, 2, []string{"memdb", "bolt-trimmed", "memdb"}, 5, false, 0, nil, 0},
			{crypto.DefaultSchemeID, 3, 2, []string{"memdb", "memdb", "memdb"}, 3, true, 1, nil, 0},
			// V (node 0) two rounds behind its peers at start: sync and aggregation race on its store
			{crypto.DefaultSchemeID, 3, 2, []string{"memdb", "memdb", "memdb"}, 3, false, 1, []uint64{2, 4, 4}, 5},
			// the other schemes, mixed back-ends, one node behind: what it syncs (from a bolt or a memdb peer) must be
			// byte-identical with what the others aggregated
			{crypto.ShortSigSchemeID, 3, 2, []string{"memdb", "bolt-trimmed", "memdb"}, 3, false, 0, []uint64{2, 4, 4}, 5},
			{crypto.SigsOnG1ID, 3, 2, []string{"memdb", "bolt-trimmed", "memdb"}, 3, false, 0, []uint64{2, 4, 4}, 5},
			{crypto.BN254UnchainedOnG1SchemeID, 3, 2, []string{"memdb", "bolt-trimmed", "memdb"}, 3, false, 0, []uint64{2, 4, 4}, 5},
		}
	} else {
		for _, sc := range crypto.ListSchemes() {
			js = append(js, job{sc, 3, 2, []string{"memdb", "bolt-trimmed", "bolt-untrimmed"}, 6, false, 1, nil, 0})
			js = append(js, job{sc, 3, 2, []string{"memdb", "memdb", "memdb"}, 3, false, 2, []uint64{2, 4, 4}, 5})
			js = append(js, job{sc, 3, 2, []string{"memdb", "bolt-trimmed", "memdb"}, 3, false, 1, []uint64{2, 4, 4}, 5})
		}
		js = append(js, job{crypto.DefaultSchemeID, 4, 3, []string{"memdb", "memdb", "memdb", "memdb"}, 6, false, 1, nil, 0})
		js = append(js, job{crypto.DefaultSchemeID, 3, 2, []string{"memdb", "memdb", "memdb"}, 4, true, 2, nil, 0})
		js = append(js, job{crypto.UnchainedSchemeID, 3, 2, []string{"memdb", "memdb", "memdb"}, 6, false, 2, nil, 0})
	}
	var jobs []vlib.E1Job
	for _, j := range js {
		k := bnet.NewKeys(j.scheme, j.n, j.t, 3*time.Second, genesis)
		sc := &bnet.Scenario{Keys: k, Backends: j.backends, Rounds: j.rounds, Scripts: scripts(j.n), Drop: j.drop, Prefill: j.prefill, StartRound: j.start}
		if j.prefill != nil {
			sc.Scripts = nil
		}
		jobs = append(jobs, vlib.E1Job{Name: fmt.Sprintf("c02-net/%s/n=%d/t=%d/%v/rounds=%d/drop=%v/prefill=%v", j.scheme, j.n, j.t, j.backends, j.rounds, j.drop, j.prefill), Bound: j.bound,
			Run: func(devs []vrt.Dev) *explore.Exec {
				r := sc.Run(devs, false)
				x := sc.JudgeSafety(r, "c02/net")
				if r.Net != nil {
					r.Net.Close()
				}
				return x
			}})
	}
	c.E1Batch(jobs, time.Until(c.DeadlineIn(100*time.Second, 30*time.Minute)))
}
