package main

import "github.com/drand/drand/v2/verifharness/vlib"

// netCheck is c02-net; filled in with the beaconnet harness.
func netCheck(c *vlib.Check) {}
