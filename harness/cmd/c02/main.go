// c02 — property C02: one gap-free, append-only chain; honest nodes never disagree or rewrite.
//
// c02-store (engine E1, to saturation / completed bound): the real store stack
// callbackStore → appendStore → schemeStore → {memdb | bolt-trimmed | bolt-untrimmed}, chained and unchained,
// with the two real writers of a node modelled as threads — aggregation (Put h+1, h+2) and sync (Put h+1..h+3) —
// plus a third thread issuing writes the guards must refuse or serialise (other signature for a stored round,
// wrong previous signature, a round ahead of the head). A monitor under the stack sees every database write.
// c02-net (engine E1): see net.go.
package main

import (
	"bytes"
	"context"
	"errors"
	"fmt"
	"github.com/drand/drand/v2/common/key"
	"os"
	"strings"
	"time"

	"github.com/drand/drand/v2/common"
	"github.com/drand/drand/v2/internal/chain"
	"github.com/drand/drand/v2/internal/chain/beacon"
	"github.com/drand/drand/v2/verifharness/fix"
	"github.com/drand/drand/v2/verifharness/vlib"
	vrt "verif.local/vrt"
	"verif.local/vrt/explore"
)

type cfg struct {
	Backend string
	Chained bool
	Adv     string // none | othersig | wrongprev | ahead | sameprevdiff
	Fault   bool   // one database write may fail (explorer choice)
	Bound   int
	H0      uint64 // rounds stored before the run (default 2)
	Restart bool   // at quiescence do what a restart does (genesis Put + new store stack) and re-check
}

func (c cfg) String() string {
	return fmt.Sprintf("%s/chained=%v/adversary=%s/fault=%v/h0=%d/restart=%v", c.Backend, c.Chained, c.Adv, c.Fault, c.H0, c.Restart)
}

type call struct {
	who string
	b   *common.Beacon
	err error
	ret bool
}

func runOne(c cfg, devs []vrt.Dev, labels bool) *explore.Exec {
	l := fix.Logger()
	h0 := c.H0
	restartNote := ""
	var mon *fix.Monitor
	var calls []*call
	var final []*common.Beacon
	var setupErr error
	s := vrt.Run(vrt.Options{Devs: devs, MaxSteps: 20000, Labels: labels, Watchdog: 60 * time.Second}, func() {
		ctx := context.Background()
		base, cleanup, err := fix.NewBackend(ctx, c.Backend, c.Chained)
		if err != nil {
			setupErr = err
			return
		}
		defer cleanup()
		if err := base.Put(ctx, chain.GenesisBeacon([]byte("genesis-seed"))); err != nil {
			setupErr = err
			return
		}
		for r := uint64(1); r <= h0; r++ {
			b := fix.FakeBeacon(r, c.Chained)
			if !c.Chained {
				b.PreviousSig = nil
			}
			if err := base.Put(ctx, b); err != nil {
				setupErr = err
				return
			}
		}
		mon = fix.NewMonitor(base)
		if c.Fault {
			// environment deviation: one database write of the execution fails
			mon.Fail = func(b *common.Beacon) error {
				if len(mon.Failed) == 0 && vrt.Choose(2, "database write fails") == 1 {
					vrt.Logf("injected failure of the database write of round %d", b.Round)
					return errors.New("injected: database write failed")
				}
				return nil
			}
		}
		// the handler's stack: callback -> append -> scheme -> discrepancy (timing statistics) -> database
		grp := &key.Group{Period: 3 * time.Second, GenesisTime: vrt.Epoch.Unix(), ID: "default", Scheme: fix.Scheme(c.Chained)}
		ds := beacon.VerifNewDiscrepancyStore(mon, l, grp, &vrt.Clock{})
		ss, err := beacon.NewSchemeStore(ctx, ds, fix.Scheme(c.Chained))
		if err != nil {
			setupErr = err
			return
		}
		as, err := beacon.VerifNewAppendStore(ctx, ss)
		if err != nil {
			setupErr = err
			return
		}
		cbs := beacon.NewCallbackStore(l, as)
		put := func(who string, b *common.Beacon) {
			k := &call{who: who, b: fix.CopyBeacon(b)}
			calls = append(calls, k)
			k.err = cbs.Put(ctx, b)
			k.ret = true
			vrt.Logf("%s Put(round %d sig %x prev %x) = %v", who, k.b.Round, k.b.Signature, k.b.PreviousSig, k.err)
		}
		good := func(r uint64) *common.Beacon { return fix.FakeBeacon(r, c.Chained) }
		vrt.GoNamed("aggregator", func() {
			put("agg", good(h0+1))
			put("agg", good(h0+2))
		})
		vrt.GoNamed("sync", func() {
			put("sync", good(h0+1))
			put("sync", good(h0+2))
			put("sync", good(h0+3))
		})
		if c.Adv != "none" {
			vrt.GoNamed("adversary", func() {
				switch c.Adv {
				case "othersig":
					b := good(h0 + 1)
					b.Signature = fix.FakeSig(h0+1, 1)
					put("adv", b)
					b2 := good(h0 + 2)
					b2.Signature = fix.FakeSig(h0+2, 1)
					put("adv", b2)
				case "wrongprev":
					b := good(h0 + 1)
					b.PreviousSig = fix.FakeSig(h0, 1)
					put("adv", b)
					b2 := good(h0 + 2)
					b2.PreviousSig = fix.FakeSig(h0+1, 1)
					put("adv", b2)
				case "ahead":
					put("adv", good(h0+3))
					put("adv", good(h0+2))
				case "replay":
					put("adv", good(h0))
					put("adv", good(h0+1))
					put("adv", good(h0))
				}
			})
		}
		vrt.WaitIdle()
		if c.Restart {
			// what NewHandler does on a restart with the same store
			if err := base.Put(ctx, chain.GenesisBeacon([]byte("genesis-seed"))); err != nil {
				restartNote = "genesis Put failed: " + err.Error()
			}
			if ss2, err := beacon.NewSchemeStore(ctx, base, fix.Scheme(c.Chained)); err != nil {
				restartNote = "NewSchemeStore failed: " + err.Error()
			} else if as2, err := beacon.VerifNewAppendStore(ctx, ss2); err != nil {
				restartNote = "newAppendStore failed: " + err.Error()
			} else if lb, err := as2.Last(ctx); err != nil || lb.Round != h0+uint64(len(mon.Puts)) {
				restartNote = fmt.Sprintf("after restart the head is %v (%v), expected %d", lb, err, h0+uint64(len(mon.Puts)))
			}
		}
		_ = base.Cursor(ctx, func(ctx context.Context, cur chain.Cursor) error {
			for b, err := cur.First(ctx); b != nil && err == nil; b, err = cur.Next(ctx) {
				final = append(final, fix.CopyBeacon(b))
			}
			return nil
		})
	})
	x := &explore.Exec{S: s}
	if s.NativeBlock != "" || s.ReplayDivergence != "" {
		x.Outcome = "ENGINE"
		return x
	}
	add := func(fp, format string, a ...any) {
		x.Violations = append(x.Violations, explore.Violation{Fingerprint: "c02/store/" + fp, Detail: c.String() + ": " + fmt.Sprintf(format, a...)})
	}
	if setupErr != nil {
		x.Outcome = "SETUP-ERROR"
		add("harness-setup", "%v", setupErr)
		return x
	}
	if s.Panic != "" {
		add("panic", "%s", s.Panic)
	}
	for _, b := range s.Blocked {
		if !strings.HasSuffix(b, ":select") && !strings.HasSuffix(b, ":idle") {
			add("blocked", "threads parked at quiescence: %v", s.Blocked)
			break
		}
	}
	// (a) the write log is h0+1, h0+2, ... each once
	var wl []string
	for i, b := range mon.Puts {
		wl = append(wl, fmt.Sprintf("%d:%x", b.Round, b.Signature[:1]))
		if b.Round != h0+1+uint64(i) {
			add("write-order", "database writes %v: write #%d is round %d, expected %d (gap, rewrite or out of order)", rounds(mon.Puts), i, b.Round, h0+1+uint64(i))
			break
		}
	}
	// (e) chained link
	if c.Chained {
		prev := fix.FakeSig(h0, 0)
		for _, b := range mon.Puts {
			if !bytes.Equal(b.PreviousSig, prev) {
				add("broken-link", "round %d written with previous signature %x, the stored signature of round %d is %x", b.Round, b.PreviousSig, b.Round-1, prev)
				break
			}
			prev = b.Signature
		}
	}
	written := func(b *common.Beacon) bool {
		for _, w := range mon.Puts {
			if w.Round == b.Round && bytes.Equal(w.Signature, b.Signature) && (!c.Chained || bytes.Equal(w.PreviousSig, b.PreviousSig)) {
				return true
			}
		}
		return false
	}
	inBase := func(b *common.Beacon) bool {
		if b.Round <= h0 {
			f := fix.FakeBeacon(b.Round, c.Chained)
			return bytes.Equal(f.Signature, b.Signature) && (!c.Chained || bytes.Equal(f.PreviousSig, b.PreviousSig))
		}
		return written(b)
	}
	var co []string
	for _, k := range calls {
		if !k.ret {
			add("put-never-returned", "%s Put(round %d) never returned", k.who, k.b.Round)
			continue
		}
		switch {
		case k.err == nil:
			co = append(co, fmt.Sprintf("%s%d=ok", k.who, k.b.Round))
			if !written(k.b) {
				add("ack-without-write", "%s Put(round %d sig %x) returned nil but that beacon was never written to the database (writes %v)", k.who, k.b.Round, k.b.Signature, rounds(mon.Puts))
			}
		case errors.Is(k.err, beacon.ErrBeaconAlreadyStored):
			co = append(co, fmt.Sprintf("%s%d=dup", k.who, k.b.Round))
			if !inBase(k.b) {
				add("already-stored-lie", "%s Put(round %d sig %x) was answered 'already stored' but the database holds no identical beacon", k.who, k.b.Round, k.b.Signature)
			}
		default:
			co = append(co, fmt.Sprintf("%s%d=err", k.who, k.b.Round))
		}
	}
	// honest writers may only lose to an identical beacon or (adversary present) to a conflicting one
	if c.Adv == "none" || c.Adv == "replay" {
		for _, k := range calls {
			if k.who != "adv" && k.ret && k.err != nil && !errors.Is(k.err, beacon.ErrBeaconAlreadyStored) {
				// the only legitimate error: the other honest writer is further ahead/behind (round != last+1)
				if !strings.Contains(k.err.Error(), "invalid round inserted") && !strings.Contains(k.err.Error(), "injected") {
					add("honest-put-error", "%s Put(round %d) failed with %v", k.who, k.b.Round, k.err)
				}
			}
		}
	}
	if restartNote != "" {
		add("restart", "%s", restartNote)
	}
	// (f) final content = initial + write log (the ring keeps the newest window of it)
	if c.Backend == "memdb" && int(h0)+1+len(mon.Puts) > 10 {
		head := h0 + uint64(len(mon.Puts))
		if len(final) != 10 {
			add("ring-window", "ring holds %d beacons %v, expected the newest 10 up to round %d", len(final), rounds(final), head)
		} else {
			for i, f := range final {
				if f.Round != head-9+uint64(i) {
					add("ring-window", "ring holds %v, expected the newest window %d..%d", rounds(final), head-9, head)
					break
				}
			}
		}
	} else if len(final) != int(h0)+1+len(mon.Puts) {
		add("final-content", "cursor scan at quiescence returns %d beacons, expected %d (0..%d + %d writes)", len(final), int(h0)+1+len(mon.Puts), h0, len(mon.Puts))
	} else {
		for i, w := range mon.Puts {
			f := final[int(h0)+1+i]
			if f.Round != w.Round || !bytes.Equal(f.Signature, w.Signature) {
				add("final-content", "round %d read back differs from what was written", w.Round)
			}
		}
	}
	x.Outcome = fmt.Sprintf("writes=%v calls=%v", wl, co)
	return x
}

func rounds(l []*common.Beacon) []uint64 {
	var r []uint64
	for _, b := range l {
		r = append(r, b.Round)
	}
	return r
}

func main() {
	c := vlib.New("C02", "model_checking")
	if c.Replay != "" {
		fmt.Println("replay: schedule deviations are listed in the replay file; re-run ./check C02")
		os.Exit(0)
	}
	var cfgs []cfg
	for _, be := range fix.Backends {
		for _, ch := range []bool{true, false} {
			advs := []string{"none", "othersig", "wrongprev", "ahead", "replay"}
			for _, a := range advs {
				if a == "wrongprev" && !ch {
					continue
				}
				b := 4
				if !c.Quick() {
					b = 6
				}
				if be != "memdb" {
					b -= 2
				}
				cfgs = append(cfgs, cfg{be, ch, a, false, b, 2, false})
				if a == "none" || a == "replay" {
					cfgs = append(cfgs, cfg{be, ch, a, true, b, 2, true})
				}
				if be == "memdb" && (a == "none" || a == "replay") {
					// ring at capacity: 0..9 stored, the run pushes it over; then a restart
					cfgs = append(cfgs, cfg{be, ch, a, false, b - 1, 9, true})
				}
			}
		}
	}
	var jobs []vlib.E1Job
	for _, k := range cfgs {
		k := k
		jobs = append(jobs, vlib.E1Job{Name: "c02-store/" + k.String(), Bound: k.Bound, Shards: 1, Run: func(devs []vrt.Dev) *explore.Exec { return runOne(k, devs, false) }})
	}
	c.E1Batch(jobs, time.Until(c.DeadlineIn(60*time.Second, 15*time.Minute)))
	fix.RemoveTemplates()
	netCheck(c)
	c.Assume("scheduling points are the instrumented concurrency operations of internal/chain/beacon, internal/chain/memdb and crypto/vault; bbolt calls are atomic",
		"store-level runs use placeholder signatures (the store stack never verifies; verification is C01/C10)")
	c.Finish("E1: one case = one complete execution under one schedule; distinct = distinct (database write log, per-call results) outcomes")
}
