// c16 — property C16: round numbers and times convert consistently and never wrap.
//
// Exhaustive enumeration (no sampling) of the full cross product of a boundary lattice of periods, genesis times,
// instants and round numbers, judged by a math/big reference.
package main

import (
	"fmt"
	"math"
	"math/big"
	"os"
	"sort"
	"sync"
	"time"

	"github.com/drand/drand/v2/common"
	"github.com/drand/drand/v2/verifharness/vlib"
)

func uniq(l []uint64) []uint64 {
	sort.Slice(l, func(i, j int) bool { return l[i] < l[j] })
	var o []uint64
	for i, v := range l {
		if i == 0 || v != l[i-1] {
			o = append(o, v)
		}
	}
	return o
}

// refTime is the true scheduled time of a round as a big integer.
func refTime(period, genesis, round uint64) *big.Int {
	if round == 0 {
		return new(big.Int).SetUint64(genesis)
	}
	t := new(big.Int).SetUint64(round - 1)
	t.Mul(t, new(big.Int).SetUint64(period))
	return t.Add(t, new(big.Int).SetUint64(genesis))
}

var ceiling = big.NewInt(common.TimeOfRoundErrorValue)

func main() {
	c := vlib.New("C16", "exploration")
	if c.Replay != "" {
		fmt.Println("replay: the failing (period, genesis, instant/round) tuple is written out in the replay file")
		os.Exit(0)
	}
	maxSmall := uint64(60)
	if !c.Quick() {
		maxSmall = 300
	}
	var periods []uint64
	for p := uint64(1); p <= maxSmall; p++ {
		periods = append(periods, p)
	}
	for k := uint(0); k <= 32; k++ {
		v := uint64(1) << k
		periods = append(periods, v, v+1)
		if v > 1 {
			periods = append(periods, v-1)
		}
	}
	periods = append(periods, 1<<32-1, 3600, 86400, 31536000)
	var ps []uint64
	for _, p := range uniq(periods) {
		if p >= 1 && p <= 1<<32-1 {
			ps = append(ps, p)
		}
	}
	geneses := uniq([]uint64{0, 1, 2, 1500000000, 1<<31 - 1, 1 << 31, 1<<31 + 1, 1<<32 - 1, 1 << 32})
	var rounds []uint64
	for r := uint64(0); r <= 64; r++ {
		rounds = append(rounds, r)
	}
	for k := uint(0); k < 64; k++ {
		v := uint64(1) << k
		rounds = append(rounds, v-1, v, v+1)
	}
	rounds = append(rounds, math.MaxUint64, math.MaxUint64-1)
	rounds = uniq(rounds)

	var mu sync.Mutex
	var evals, nontrivial int64
	type tuple struct{ Period, Genesis, X uint64 }
	distinct := map[string]int64{}
	report := func(fp, detail string, t tuple) {
		c.Report("c16/"+fp, detail, t)
	}
	var wg sync.WaitGroup
	sem := make(chan struct{}, c.Workers)
	for _, p := range ps {
		wg.Add(1)
		sem <- struct{}{}
		go func(p uint64) {
			defer wg.Done()
			defer func() { <-sem }()
			period := time.Duration(p) * time.Second
			var le, ln int64
			kinds := map[string]int64{}
			for _, g := range geneses {
				// --- instants ---
				var offs []uint64
				lim := 4*p + 3
				if lim > 2000 {
					lim = 2000
				}
				for o := uint64(0); o <= lim; o++ {
					offs = append(offs, o)
				}
				for j := uint(0); j <= 50; j++ {
					for _, k := range []uint64{1<<j - 1, 1 << j, 1<<j + 1} {
						for _, d := range []int64{-1, 0, 1} {
							bo := new(big.Int).Mul(new(big.Int).SetUint64(k), new(big.Int).SetUint64(p))
							bo.Add(bo, big.NewInt(d))
							if bo.Sign() >= 0 && bo.Cmp(new(big.Int).Lsh(big.NewInt(1), 50)) <= 0 {
								offs = append(offs, bo.Uint64())
							}
						}
					}
				}
				for _, o := range uniq(offs) {
					now := int64(g + o)
					next, nextT := common.NextRound(now, period, int64(g))
					cur := common.CurrentRound(now, period, int64(g))
					le++
					// reference: cur is the unique r>=1 with T(r) <= now < T(r+1)
					wantCur := o/p + 1
					if cur != wantCur {
						report("current-round", fmt.Sprintf("CurrentRound(now=genesis+%d, period=%ds, genesis=%d) = %d, the round whose time is at or before now with the next after it is %d", o, p, g, cur, wantCur), tuple{p, g, o})
					}
					if next != wantCur+1 {
						report("next-round", fmt.Sprintf("NextRound(now=genesis+%d, period=%ds, genesis=%d) returned round %d, expected %d", o, p, g, next, wantCur+1), tuple{p, g, o})
					}
					wantT := refTime(p, g, wantCur+1)
					if !wantT.IsInt64() || nextT != wantT.Int64() {
						report("next-time", fmt.Sprintf("NextRound(now=genesis+%d, period=%ds, genesis=%d) returned time %d, the scheduled time of round %d is %s", o, p, g, nextT, wantCur+1, wantT), tuple{p, g, o})
					}
					if tc := common.TimeOfRound(period, int64(g), cur); tc != common.TimeOfRoundErrorValue && (tc > now || tc+int64(p) <= now) {
						report("inconsistent", fmt.Sprintf("TimeOfRound(CurrentRound(now)) = %d does not bracket now = %d (period %d, genesis %d)", tc, now, p, g), tuple{p, g, o})
					}
					if o%p == 0 || o%p == p-1 {
						ln++
					}
					kinds[fmt.Sprintf("o%%p=%d", min(o%p, 2))]++
				}
				// --- rounds ---
				rs := append([]uint64{}, rounds...)
				bits := int(math.Log2(float64(p) + 1))
				thr := uint64(math.MaxUint64) >> (bits + 2)
				rs = append(rs, thr-1, thr, thr+1)
				// the largest schedulable round and its neighbours
				mx := new(big.Int).Sub(ceiling, new(big.Int).SetUint64(g))
				mx.Div(mx, new(big.Int).SetUint64(p))
				if mx.IsUint64() {
					m := mx.Uint64()
					rs = append(rs, m, m+1, m+2)
				}
				rs = uniq(rs)
				var prevT int64
				var prevR uint64
				havePrev := false
				for _, r := range rs {
					got := common.TimeOfRound(period, int64(g), r)
					want := refTime(p, g, r)
					le++
					switch {
					case want.Cmp(ceiling) > 0:
						ln++
						kinds["beyond-ceiling"]++
						if got != common.TimeOfRoundErrorValue {
							report("wrapped", fmt.Sprintf("TimeOfRound(period=%ds, genesis=%d, round=%d) = %d: the true time %s is beyond the documented ceiling, the error value %d is expected", p, g, r, got, want, common.TimeOfRoundErrorValue), tuple{p, g, r})
						}
					case got == common.TimeOfRoundErrorValue:
						kinds["refused-conservatively"]++ // refusing a schedulable round is allowed
					default:
						kinds["scheduled"]++
						if got != want.Int64() {
							report("wrong-time", fmt.Sprintf("TimeOfRound(period=%ds, genesis=%d, round=%d) = %d, expected %s", p, g, r, got, want), tuple{p, g, r})
						}
						if got < 0 {
							report("negative", fmt.Sprintf("TimeOfRound(period=%ds, genesis=%d, round=%d) = %d is negative", p, g, r, got), tuple{p, g, r})
						}
						if havePrev && r > prevR && r > 1 && got <= prevT && prevR >= 1 {
							report("not-increasing", fmt.Sprintf("TimeOfRound is not strictly increasing: T(%d)=%d, T(%d)=%d (period %d, genesis %d)", prevR, prevT, r, got, p, g), tuple{p, g, r})
						}
						prevT, prevR, havePrev = got, r, true
					}
				}
			}
			mu.Lock()
			evals += le
			nontrivial += ln
			for k, v := range kinds {
				distinct[k] += v
			}
			mu.Unlock()
		}(p)
	}
	wg.Wait()
	c.Count("evaluations", evals)
	c.Count("distinct", nontrivial)
	c.Exhaustive(true)
	c.Sample(map[string]any{"period_s": 49, "genesis": 1500000000, "instant": "genesis+49", "expect": "CurrentRound=2, NextRound=(3, genesis+98)"})
	c.Sample(map[string]any{"period_s": uint64(1) << 31, "genesis": uint64(1) << 32, "round": uint64(1)<<32 - 1, "expect": "TimeOfRoundErrorValue (true time beyond the ceiling)"})
	c.Sub("c16-time", map[string]any{"engine": "E2 exhaustive grid", "periods": len(ps), "geneses": len(geneses), "round_lattice": len(rounds), "evaluations": evals, "classes": distinct})
	c.Assume("periods are whole seconds in [1, 2^32-1]; genesis in [0, 2^32]; instants up to genesis+2^50 s; the full cross product of the lattice is enumerated, values between lattice points are not",
		"refusing (error value) a round that could be scheduled is allowed; returning anything but the error value for a round beyond the ceiling is not")
	c.Finish("cases = (period, genesis, instant) and (period, genesis, round) tuples of the lattice cross product; non-trivial = instants on or one second before a round boundary and rounds beyond the ceiling (counted)")
}
