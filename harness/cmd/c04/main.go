// c04 — property C04: no honest partial for a round before that round's time.
//
// Engine E1 on networks of real handlers with per-node clock offsets: up to t-1 members run fast (by up to one
// period minus one second); timers may fire early relative to computation (explorer deviation "fire the
// earliest timer now": a stalled or slow goroutine), ticks, incoming partials, sync completions and catch-up
// timers interleave within the deviation bound; nodes start level with, behind and (by a fast peer) ahead of
// their clock; a node is stopped and restarted. A hook on the threshold-signature primitive records every
// partial an honest node creates together with its local clock.
package main

import (
	"fmt"
	"time"

	"github.com/drand/drand/v2/crypto"
	"github.com/drand/drand/v2/verifharness/bnet"
	"github.com/drand/drand/v2/verifharness/vlib"
	vrt "verif.local/vrt"
	"verif.local/vrt/explore"
)

func run(sc *bnet.Scenario, honest []bool, devs []vrt.Dev, labels bool) *explore.Exec {
	r := sc.Run(devs, labels)
	x := sc.JudgeSafety(r, "c04/safety")
	sc.JudgeTiming(r, x, "c04", honest)
	if r.Net != nil {
		x.Outcome += fmt.Sprintf(" signs=%d", len(r.Signs))
		r.Net.Close()
	}
	return x
}

func main() {
	c := vlib.New("C04", "model_checking")
	genesis := vrt.Epoch.Add(2 * time.Second).Unix()
	period := 3 * time.Second
	type job struct {
		name    string
		scheme  string
		n, t    int
		offsets []time.Duration
		rounds  int
		early   bool
		bound   int
		prefill []uint64
		start   uint64
		scripts [][]bnet.Fault
	}
	fastBy := period - time.Second
	restart := [][]bnet.Fault{nil, {{Kind: "stop", Node: 0, AtRound: 2}, {Kind: "restart", Node: 0, AtRound: 4}}, {{Kind: "partition", Node: 0, AtRound: 2}, {Kind: "heal", Node: 0, AtRound: 4}}}
	halt := [][]bnet.Fault{
		{{Kind: "partition", Node: 0, AtRound: 2}, {Kind: "partition", Node: 1, AtRound: 2}, {Kind: "heal", Node: 0, AtRound: 5}, {Kind: "heal", Node: 1, AtRound: 5}},
		{{Kind: "partition", Node: 0, AtRound: 2}, {Kind: "partition", Node: 1, AtRound: 2}, {Kind: "heal", Node: 0, AtRound: 6}, {Kind: "heal", Node: 1, AtRound: 6}},
		{{Kind: "partition", Node: 0, AtRound: 3}, {Kind: "partition", Node: 1, AtRound: 3}, {Kind: "heal", Node: 0, AtRound: 5}, {Kind: "heal", Node: 1, AtRound: 5}},
	}
	// staggered heals: one node rejoins one or two rounds after the others, so it runs its catch-up while the
	// others are a round ahead
	for _, d := range []uint64{1, 2} {
		halt = append(halt, []bnet.Fault{{Kind: "partition", Node: 0, AtRound: 2}, {Kind: "partition", Node: 1, AtRound: 2}, {Kind: "heal", Node: 1, AtRound: 5}, {Kind: "heal", Node: 0, AtRound: 5 + d}})
	}
	lag := -2 * period
	var js []job
	if c.Quick() {
		js = []job{
			// the chain halts for 2-4 rounds and then catches up at the catch-up rate: catch-up timers cross ticks
			{"halted-then-catchup", crypto.DefaultSchemeID, 3, 2, nil, 9, false, 1, nil, 0, halt},
			{"halted-then-catchup-slow", crypto.DefaultSchemeID, 3, 2, nil, 10, false, 1, nil, 0, halt},
			// node 0's clock lags two periods behind its peers and it (re)starts with Catchup
			{"lagging-clock", crypto.DefaultSchemeID, 3, 2, []time.Duration{lag, 0, 0}, 4, false, 1, []uint64{2, 6, 6}, 7, nil},
			{"level", crypto.DefaultSchemeID, 3, 2, nil, 3, true, 1, nil, 0, nil},
			{"one-fast", crypto.DefaultSchemeID, 3, 2, []time.Duration{0, fastBy, 0}, 3, true, 1, nil, 0, nil},
			{"one-fast-unchained", crypto.UnchainedSchemeID, 3, 2, []time.Duration{0, 0, fastBy}, 3, false, 1, nil, 0, nil},
			{"behind", crypto.DefaultSchemeID, 3, 2, []time.Duration{0, fastBy, 0}, 3, true, 1, []uint64{2, 4, 4}, 5, nil},
			{"restart", crypto.DefaultSchemeID, 3, 2, []time.Duration{0, 0, fastBy}, 6, false, 1, nil, 0, restart},
			{"two-fast-of-4", crypto.UnchainedSchemeID, 4, 3, []time.Duration{0, fastBy, fastBy, 0}, 3, true, 1, nil, 0, nil},
		}
	} else {
		for _, sc := range []string{crypto.DefaultSchemeID, crypto.UnchainedSchemeID, crypto.SigsOnG1ID} {
			js = append(js,
				job{"level", sc, 3, 2, nil, 4, true, 2, nil, 0, nil},
				job{"one-fast", sc, 3, 2, []time.Duration{0, fastBy, 0}, 4, true, 2, nil, 0, nil},
				job{"one-fast-1s", sc, 3, 2, []time.Duration{0, time.Second, 0}, 4, true, 2, nil, 0, nil},
				job{"behind", sc, 3, 2, []time.Duration{0, fastBy, 0}, 4, true, 2, []uint64{2, 4, 4}, 5, nil},
				job{"behind-far", sc, 3, 2, []time.Duration{0, 0, fastBy}, 4, true, 1, []uint64{1, 6, 6}, 7, nil},
				job{"restart", sc, 3, 2, []time.Duration{0, 0, fastBy}, 7, true, 1, nil, 0, restart},
				job{"two-fast-of-4", sc, 4, 3, []time.Duration{0, fastBy, fastBy, 0}, 4, true, 1, nil, 0, nil},
				job{"two-fast-of-5", sc, 5, 3, []time.Duration{0, fastBy, fastBy, 0, 0}, 3, true, 1, nil, 0, nil},
				job{"halted-then-catchup", sc, 3, 2, nil, 10, true, 2, nil, 0, halt},
				job{"halted-then-catchup-slow", sc, 3, 2, nil, 11, true, 2, nil, 0, halt},
				job{"lagging-clock", sc, 3, 2, []time.Duration{lag, 0, 0}, 5, true, 2, []uint64{2, 6, 6}, 7, nil},
				job{"lagging-clock-far", sc, 3, 2, []time.Duration{3 * lag / 2, 0, 0}, 5, false, 1, []uint64{1, 7, 7}, 8, nil})
		}
	}
	var jobs []vlib.E1Job
	for _, j := range js {
		k := bnet.NewKeys(j.scheme, j.n, j.t, period, genesis)
		if j.name == "halted-then-catchup-slow" {
			k.Catchup = 2 * time.Second
		}
		be := make([]string, j.n)
		honest := make([]bool, j.n)
		for i := range be {
			be[i] = "memdb"
			honest[i] = i >= len(j.offsets) || j.offsets[i] <= 0
			if len(j.offsets) > 0 && j.offsets[0] < 0 && i > 0 {
				honest[i] = false // relative to the lagging node under test its peers run fast
			}
		}
		sc := &bnet.Scenario{Keys: k, Backends: be, Offsets: j.offsets, Rounds: j.rounds, EarlyTimers: j.early, Prefill: j.prefill, StartRound: j.start, Scripts: j.scripts}
		jobs = append(jobs, vlib.E1Job{Name: fmt.Sprintf("c04-time/%s/%s/n=%d/t=%d/offsets=%v/rounds=%d/early-timers=%v", j.name, j.scheme, j.n, j.t, j.offsets, j.rounds, j.early), Bound: j.bound,
			Run:     func(devs []vrt.Dev) *explore.Exec { return run(sc, honest, devs, false) },
			Labeled: func(devs []vrt.Dev) *explore.Exec { return run(sc, honest, devs, true) }})
	}
	// c04-future: V + adversary playing t-1 members that send partials for the current, next and later rounds at
	// every moment of rounds 1 and 2
	for _, scID := range []string{crypto.DefaultSchemeID, crypto.UnchainedSchemeID} {
		k := bnet.NewKeys(scID, 3, 2, period, genesis)
		chain := k.RefChain(4)
		var seqs [][]bnet.Item
		for _, at := range []uint64{0, 1, 2} {
			for _, r := range []uint64{1, 2, 3, 4} {
				prev := chain[r-1].Signature
				it := bnet.Item{Label: fmt.Sprintf("valid(m1,r%d)@round%d", r, at), From: 1, P: k.Partial(1, r, prev), AtRound: at}
				seqs = append(seqs, []bnet.Item{it})
				if r < 4 {
					it2 := bnet.Item{Label: fmt.Sprintf("valid(m1,r%d)@round%d", r+1, at), From: 1, P: k.Partial(1, r+1, chain[r].Signature), AtRound: at}
					seqs = append(seqs, []bnet.Item{it, it2}, []bnet.Item{it2, it})
				}
			}
		}
		h := &bnet.VAdv{Keys: k, Backend: "memdb", Seqs: seqs, Rounds: 3, EarlyTimers: true}
		runV := func(devs []vrt.Dev, labels bool) *explore.Exec {
			r := h.Run(devs, labels)
			x := h.Judge(r, "c04/vadv")
			h.JudgeFuture(r, x, "c04", true)
			if r.Net != nil {
				r.Net.Close()
			}
			return x
		}
		jobs = append(jobs, vlib.E1Job{Name: fmt.Sprintf("c04-future/%s/n=3/t=2/seqs=%d", scID, len(seqs)), Bound: 1,
			Run: func(devs []vrt.Dev) *explore.Exec { return runV(devs, false) }, Labeled: func(devs []vrt.Dev) *explore.Exec { return runV(devs, true) }})
	}
	// c04-lagging: V restarts (Catchup) with its clock in round 4 while its peers hold the chain up to round 8 and
	// serve it by the real SyncChain routine; the other members also send V valid partials for rounds 5..7 as soon as
	// V's head allows them to be aggregated — sync and aggregation race on the rounds around V's clock
	for _, scID := range []string{crypto.DefaultSchemeID, crypto.UnchainedSchemeID} {
		k := bnet.NewKeys(scID, 3, 2, period, genesis)
		chain := k.RefChain(8)
		var seqs [][]bnet.Item
		mk := func(m int, r uint64) bnet.Item {
			return bnet.Item{Label: fmt.Sprintf("valid(m%d,r%d)after-head-%d", m, r, r-1), From: m, P: k.Partial(m, r, chain[r-1].Signature), AfterHead: r - 1}
		}
		seqs = append(seqs, nil)
		for _, r := range []uint64{4, 5, 6} {
			seqs = append(seqs, []bnet.Item{mk(1, r), mk(2, r)}, []bnet.Item{mk(1, r)}, []bnet.Item{mk(1, r), mk(2, r), mk(1, r+1), mk(2, r+1)})
		}
		h := &bnet.VAdv{Keys: k, Backend: "memdb", Seqs: seqs, Rounds: 3, Prefill: 3, StartRound: 5, SyncHeight: 8}
		runV := func(devs []vrt.Dev, labels bool) *explore.Exec {
			r := h.Run(devs, labels)
			x := h.Judge(r, "c04/vadv")
			h.JudgeFuture(r, x, "c04", false)
			if r.Net != nil {
				r.Net.Close()
			}
			return x
		}
		b := 2
		if c.Quick() {
			b = 1
		}
		jobs = append(jobs, vlib.E1Job{Name: fmt.Sprintf("c04-lagging/%s/n=3/t=2/seqs=%d", scID, len(seqs)), Bound: b,
			Run: func(devs []vrt.Dev) *explore.Exec { return runV(devs, false) }, Labeled: func(devs []vrt.Dev) *explore.Exec { return runV(devs, true) }})
	}
	c.E1Batch(jobs, time.Until(c.DeadlineIn(120*time.Second, 30*time.Minute)))
	c.Assume("clocks are per-node offsets on one virtual time line; a stall is modelled by timers firing before a parked goroutine runs (deviation 'early timer')",
		"the round of a created partial is recovered from its digest using the harness' own digest function over all beacons written in the run",
		"fast-clocked members are real handlers whose clock runs ahead; they count as misbehaving and are exempt from the oracle")
	c.Finish("one case = one execution of a network of real handlers under one schedule; distinct = distinct (script, store heads, number of signatures) outcomes")
}
