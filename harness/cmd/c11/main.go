// c11 — property C11: a beacon stream delivers every round once, in order, from the requested round.
//
// Engine E1: the real beacon.SyncChain server routine runs on the real store stack
// (callbackStore → appendStore → schemeStore → memdb | bolt-trimmed | bolt-untrimmed) under the controlled
// scheduler, concurrently with an appender thread that stores new beacons. Every interleaving at
// scheduling-point granularity is enumerated (saturation) or, for the larger configurations, every
// interleaving with at most K deviations from the default schedule.
package main

import (
	"context"
	"errors"
	"fmt"
	"net"
	"os"
	"sort"
	"strings"
	"time"

	"google.golang.org/grpc/peer"

	"github.com/drand/drand/v2/common"
	"github.com/drand/drand/v2/crypto"
	"github.com/drand/drand/v2/internal/chain"
	"github.com/drand/drand/v2/internal/chain/beacon"
	chainerrors "github.com/drand/drand/v2/internal/chain/errors"
	proto "github.com/drand/drand/v2/protobuf/drand"
	"github.com/drand/drand/v2/verifharness/fix"
	"github.com/drand/drand/v2/verifharness/vlib"
	vrt "verif.local/vrt"
	"verif.local/vrt/explore"
)

type cfg struct {
	Backend  string   `json:"backend"`
	Chained  bool     `json:"chained"`
	H0       uint64   `json:"initial_head"`
	Appends  int      `json:"appends"`
	Starts   []uint64 `json:"start_rounds"` // one per stream
	SameAddr bool     `json:"same_addr"`
	Bound    int      `json:"bound"`
}

func (c cfg) String() string {
	return fmt.Sprintf("%s/chained=%v/h0=%d/appends=%d/starts=%v/same=%v", c.Backend, c.Chained, c.H0, c.Appends, c.Starts, c.SameAddr)
}

const ringCapacity = 10 // fix.NewBackend's in-memory store

type vstream struct {
	ctx  context.Context
	got  []*proto.BeaconPacket
	err  error
	done bool
	// putStarted: the shared counter of the appender (highest round whose Put has begun); startedAt[j] is its value
	// when packet j was handed to the consumer
	putStarted *uint64
	startedAt  []uint64
}

func (s *vstream) Context() context.Context { return s.ctx }
func (s *vstream) Send(b *proto.BeaconPacket) error {
	vrt.Logf("stream.Send round=%d", b.Round)
	s.got = append(s.got, b)
	s.startedAt = append(s.startedAt, *s.putStarted)
	return nil
}

type addr string

func (a addr) Network() string { return "tcp" }
func (a addr) String() string  { return string(a) }

var _ net.Addr = addr("")

func runOne(c cfg, devs []vrt.Dev, labels bool) *explore.Exec {
	l := fix.Logger()
	var streams []*vstream
	var final []*common.Beacon
	var setupErr error
	var putStarted uint64
	s := vrt.Run(vrt.Options{Devs: devs, MaxSteps: 20000, Labels: labels, Watchdog: 60 * time.Second}, func() {
		ctx := context.Background()
		base, cleanup, err := fix.NewBackend(ctx, c.Backend, c.Chained)
		if err != nil {
			setupErr = err
			return
		}
		defer cleanup()
		sch := fix.Scheme(c.Chained)
		if err := base.Put(ctx, chain.GenesisBeacon([]byte("genesis-seed"))); err != nil {
			setupErr = err
			return
		}
		ss, err := beacon.NewSchemeStore(ctx, base, sch)
		if err != nil {
			setupErr = err
			return
		}
		as, err := beacon.VerifNewAppendStore(ctx, ss)
		if err != nil {
			setupErr = err
			return
		}
		cbs := beacon.NewCallbackStore(l, as)
		for r := uint64(1); r <= c.H0; r++ {
			if err := cbs.Put(ctx, fix.FakeBeacon(r, true)); err != nil {
				setupErr = err
				return
			}
		}
		putStarted = c.H0
		for i, from := range c.Starts {
			a := fmt.Sprintf("203.0.113.%d:4444", i+1)
			if c.SameAddr {
				a = "203.0.113.1:4444"
			}
			st := &vstream{ctx: peer.NewContext(ctx, &peer.Peer{Addr: addr(a)}), putStarted: &putStarted}
			streams = append(streams, st)
			from := from
			vrt.GoNamed(fmt.Sprintf("stream%d", i), func() {
				st.err = beacon.SyncChain(l, cbs, &proto.SyncRequest{FromRound: from, Metadata: &proto.Metadata{BeaconID: "default"}}, st)
				st.done = true
				vrt.Logf("SyncChain returned %v", st.err)
			})
		}
		vrt.GoNamed("appender", func() {
			for r := c.H0 + 1; r <= c.H0+uint64(c.Appends); r++ {
				putStarted = r
				if err := cbs.Put(ctx, fix.FakeBeacon(r, true)); err != nil {
					setupErr = fmt.Errorf("append %d: %w", r, err)
					return
				}
				vrt.Logf("stored round=%d", r)
			}
		})
		vrt.WaitIdle()
		// quiescence: read back what the store holds now
		_ = base.Cursor(ctx, func(ctx context.Context, cur chain.Cursor) error {
			for b, err := cur.First(ctx); b != nil && err == nil; b, err = cur.Next(ctx) {
				final = append(final, b)
			}
			return nil
		})
	})
	x := &explore.Exec{S: s}
	if s.NativeBlock != "" || s.ReplayDivergence != "" {
		x.Outcome = "ENGINE"
		return x
	}
	if setupErr != nil {
		x.Outcome = "SETUP-ERROR " + setupErr.Error()
		x.Violations = append(x.Violations, explore.Violation{Fingerprint: "c11/harness-setup", Detail: setupErr.Error()})
		return x
	}
	if s.Panic != "" {
		x.Violations = append(x.Violations, explore.Violation{Fingerprint: "c11/panic", Detail: s.Panic})
	}
	if s.HorizonHit {
		x.Violations = append(x.Violations, explore.Violation{Fingerprint: "c11/horizon", Detail: "step horizon hit"})
	}
	for _, b := range s.Blocked {
		if !strings.HasSuffix(b, ":select") && !strings.HasSuffix(b, ":idle") {
			x.Violations = append(x.Violations, explore.Violation{Fingerprint: "c11/blocked-at-quiescence/" + b[strings.Index(b, ":")+1:], Detail: fmt.Sprintf("threads parked at quiescence: %v", s.Blocked)})
			break
		}
	}
	stored := map[uint64]*common.Beacon{}
	var H uint64
	for _, b := range final {
		stored[b.Round] = b
		if b.Round > H {
			H = b.Round
		}
	}
	var outs []string
	for i, st := range streams {
		from := c.Starts[i]
		var rounds []uint64
		for _, p := range st.got {
			rounds = append(rounds, p.Round)
		}
		o := fmt.Sprintf("s%d(from %d)=%v", i, from, rounds)
		if st.done {
			o += fmt.Sprintf(" ret=%v", st.err != nil)
		}
		outs = append(outs, o)
		add := func(fp, d string) {
			x.Violations = append(x.Violations, explore.Violation{Fingerprint: "c11/" + fp, Detail: fmt.Sprintf("%s: stream %d from=%d delivered=%v h0=%d final_head=%d: %s", c, i, from, rounds, c.H0, H, d)})
		}
		replaced := st.done && errors.Is(st.err, beacon.ErrCallbackReplaced)
		refused := st.done && errors.Is(st.err, chainerrors.ErrNoBeaconStored) && len(rounds) == 0
		if st.done && !replaced && !refused {
			add("stream-ended", fmt.Sprintf("SyncChain returned %v although the consumer never failed", st.err))
			continue
		}
		if refused {
			// the in-memory ring forgets its oldest rounds: a round below (final head - capacity + 1) may already have been
			// evicted when the request was served (bolt keeps everything)
			evictable := c.Backend == "memdb" && H >= ringCapacity && from < H-ringCapacity+1
			if from <= c.H0 && !evictable {
				add("refused-stored-round", "request for a stored round was refused")
			}
			continue
		}
		if from > H {
			add("accepted-beyond-head", "request beyond the final head was not refused")
		}
		// sequence oracle
		expect := from
		for j, p := range st.got {
			sb := stored[p.Round]
			if sb == nil && c.Backend == "memdb" {
				// delivered, then evicted from the ring: compare with what the appender stored for that round
				sb = fix.FakeBeacon(p.Round, true)
				if !c.Chained {
					sb.PreviousSig = nil
				}
			}
			if sb == nil || string(sb.Signature) != string(p.Signature) || string(sb.PreviousSig) != string(p.PreviousSignature) {
				add("mismatch", fmt.Sprintf("delivered packet for round %d differs from the stored beacon", p.Round))
				break
			}
			if j == 0 && from == 0 {
				expect = p.Round
			}
			if p.Round == expect {
				expect++
				continue
			}
			where := "new-rounds"
			switch {
			case p.Round < expect:
				if p.Round <= c.H0 {
					where = "stored-rounds"
				}
				if j > 0 && p.Round == st.got[j-1].Round {
					add("duplicate/"+where, fmt.Sprintf("round %d delivered twice", p.Round))
				} else {
					add("order/"+where, fmt.Sprintf("round %d delivered after round %d", p.Round, expect-1))
				}
			default:
				if expect <= c.H0 {
					where = "stored-rounds"
				}
				// the full in-memory ring evicts its oldest round on every append: rounds that can have been evicted while
				// the stream was being served (all below final head - capacity + 1) are not "stored beacons" any more
				// Only appends that had begun when the packet was handed over can have evicted anything by then: a skipped
				// round at or above (rounds begun - capacity + 1) was still in the ring when the server read past it.
				if c.Backend == "memdb" && H >= ringCapacity && p.Round-1 < H-ringCapacity+1 {
					if begun := st.startedAt[j]; begun+1 >= ringCapacity && p.Round-1 >= begun+1-ringCapacity {
						add("skipped-stored-round/"+where, fmt.Sprintf("round %d skipped (got %d after %d) although it was still stored: only appends up to round %d had begun, the ring of %d still held rounds %d..", p.Round-1, p.Round, expect-1, begun, ringCapacity, begun+1-ringCapacity))
						break
					}
					expect = p.Round + 1
					continue
				}
				add("gap/"+where, fmt.Sprintf("round %d missing (got %d)", expect, p.Round))
			}
			expect = p.Round + 1
			break
		}
		// completeness at quiescence (only for a stream that is still attached)
		if !replaced && len(x.Violations) == 0 {
			last := uint64(0)
			if len(rounds) > 0 {
				last = rounds[len(rounds)-1]
			}
			switch {
			case from != 0 && last < H:
				where := "new-rounds"
				if last < c.H0 {
					where = "stored-rounds"
				}
				add("incomplete/"+where, fmt.Sprintf("at quiescence the stream stopped at %d, store head is %d", last, H))
			case from == 0 && len(rounds) > 0 && last < H:
				add("incomplete/new-rounds", fmt.Sprintf("at quiescence the live stream stopped at %d, store head is %d", last, H))
			}
		}
	}
	x.Outcome = strings.Join(outs, " ")
	return x
}

func main() {
	c := vlib.New("C11", "model_checking")
	if c.Replay != "" {
		os.Exit(replay(c))
	}
	var cfgs []cfg
	backends := []string{"memdb", "bolt-trimmed", "bolt-untrimmed"}
	if c.Quick() {
		for _, be := range backends {
			for _, from := range []uint64{0, 1, 2, 3, 4} {
				// memdb: saturation or as far as the budget goes; bolt (system calls per execution): 3 deviations
				b := -1
				if be != "memdb" {
					b = 3
				}
				cfgs = append(cfgs, cfg{Backend: be, Chained: be != "bolt-untrimmed", H0: 3, Appends: 2, Starts: []uint64{from}, Bound: b})
			}
		}
		cfgs = append(cfgs, cfg{Backend: "memdb", Chained: false, H0: 3, Appends: 2, Starts: []uint64{2, 2}, SameAddr: true, Bound: 3})
		cfgs = append(cfgs, cfg{Backend: "memdb", Chained: true, H0: 3, Appends: 2, Starts: []uint64{1, 3}, Bound: 3})
		// the in-memory ring exactly full: every append during the scan drops the oldest beacon and shifts the others
		cfgs = append(cfgs, cfg{Backend: "memdb", Chained: false, H0: 9, Appends: 2, Starts: []uint64{2}, Bound: 3})
		// ... and the stream starts at the oldest round the ring holds: the beacon the cursor sits on is the next to go
		cfgs = append(cfgs, cfg{Backend: "memdb", Chained: true, H0: 10, Appends: 2, Starts: []uint64{1}, Bound: 3})
	} else {
		for _, be := range backends {
			for _, ch := range []bool{true, false} {
				for _, from := range []uint64{0, 1, 2, 3, 4, 5} {
					cfgs = append(cfgs, cfg{Backend: be, Chained: ch, H0: 3, Appends: 3, Starts: []uint64{from}, Bound: -1})
				}
				cfgs = append(cfgs, cfg{Backend: be, Chained: ch, H0: 3, Appends: 2, Starts: []uint64{2, 2}, SameAddr: true, Bound: 4})
				cfgs = append(cfgs, cfg{Backend: be, Chained: ch, H0: 3, Appends: 2, Starts: []uint64{1, 3}, Bound: 4})
				cfgs = append(cfgs, cfg{Backend: be, Chained: ch, H0: 3, Appends: 2, Starts: []uint64{0, 4}, Bound: 4})
			}
		}
		// memdb at capacity: ring trimming during the scan
		cfgs = append(cfgs, cfg{Backend: "memdb", Chained: false, H0: 9, Appends: 3, Starts: []uint64{1}, Bound: -1})
		cfgs = append(cfgs, cfg{Backend: "memdb", Chained: true, H0: 9, Appends: 3, Starts: []uint64{5}, Bound: -1})
		cfgs = append(cfgs, cfg{Backend: "memdb", Chained: true, H0: 10, Appends: 3, Starts: []uint64{1}, Bound: -1})
		cfgs = append(cfgs, cfg{Backend: "memdb", Chained: false, H0: 11, Appends: 2, Starts: []uint64{2, 3}, Bound: 4})
	}
	var jobs []vlib.E1Job
	for _, k := range cfgs {
		k := k
		jobs = append(jobs, vlib.E1Job{Name: "c11-stream/" + k.String(), Bound: k.Bound, Run: func(devs []vrt.Dev) *explore.Exec { return runOne(k, devs, false) }})
	}
	c.E1Batch(jobs, time.Until(c.DeadlineIn(75*time.Second, 25*time.Minute)))
	fix.RemoveTemplates()
	c.Assume("scheduling points are channel, select, mutex, spawn and close operations of the instrumented packages (internal/chain/beacon, internal/chain/memdb); bbolt is an atomic library call",
		"stream.Send is instantaneous and never fails in these configurations (slow/failing consumers are C12)",
		"beacon signatures are placeholder bytes: SyncChain does not verify, it copies")
	c.Finish("one case = one complete execution of {1-2 real SyncChain servers, 1 appender doing 2-3 Puts} under one schedule; distinct = distinct delivered-sequence outcomes; non-trivial = the outcome lists what each stream received")
}

func replay(c *vlib.Check) int {
	r, err := vlib.LoadReplay(c.Replay)
	if err != nil {
		fmt.Println(err)
		return 2
	}
	name := r.Harness
	// harness name is "c11-stream/<cfg string>"; parse back
	var k cfg
	var starts string
	name = strings.TrimPrefix(name, "c11-stream/")
	parts := strings.Split(name, "/")
	if len(parts) != 6 {
		fmt.Println("bad harness name", name)
		return 2
	}
	k.Backend = parts[0]
	fmt.Sscanf(parts[1], "chained=%t", &k.Chained)
	fmt.Sscanf(parts[2], "h0=%d", &k.H0)
	fmt.Sscanf(parts[3], "appends=%d", &k.Appends)
	starts = strings.TrimSuffix(strings.TrimPrefix(parts[4], "starts=["), "]")
	for _, f := range strings.Fields(starts) {
		var v uint64
		fmt.Sscan(f, &v)
		k.Starts = append(k.Starts, v)
	}
	fmt.Sscanf(parts[5], "same=%t", &k.SameAddr)
	x := runOne(k, r.Devs, true)
	for _, l := range x.S.Log {
		fmt.Println(l)
	}
	fmt.Println("outcome:", x.Outcome)
	sort.Slice(x.Violations, func(i, j int) bool { return x.Violations[i].Fingerprint < x.Violations[j].Fingerprint })
	for _, v := range x.Violations {
		fmt.Println("violation:", v.Fingerprint, "—", v.Detail)
	}
	if len(x.Violations) > 0 {
		return 1
	}
	return 0
}

var _ = crypto.DefaultSchemeID
