// c10b — property C10, sub-check c10-followd: the daemon's follow loop ("follow ... keeps following ... retrying after
// transient failures"), on real daemon processes.
//
// c10-follow drives the beacon-level sync manager with scripted peers; the loop around it — Control.StartFollowChain
// in internal/core, which must start a new sync when one ends — only exists in the daemon. Here a real daemon P runs a
// chain and produces a beacon every second; a second real daemon F (keys only) is told through its control port to
// follow that chain from P, whose address is a TCP proxy of the harness. After F reported k rounds, every connection
// through the proxy is reset once (P restarts / a network blip); P keeps producing. F must go on: within a few
// periods its reported progress passes the head P had at the moment of the reset.
//
// Exhaustive over: schemes (quick 2, thorough all 5) x reset after k in {1, 3, 6} progress reports x one or two
// resets.
package main

import (
	"context"
	"encoding/hex"
	"fmt"
	"os"
	"time"

	"github.com/drand/drand/v2/crypto"
	"github.com/drand/drand/v2/verifharness/bench"
	"github.com/drand/drand/v2/verifharness/fix"
	"github.com/drand/drand/v2/verifharness/vlib"
)

const beaconID = "default"

type tcase struct {
	Scheme string `json:"scheme"`
	After  int    `json:"reset_after_progress_reports"`
	Resets int    `json:"resets"`
}

func (t tcase) String() string {
	return fmt.Sprintf("%s/reset-after=%d/resets=%d", t.Scheme, t.After, t.Resets)
}

type outcome struct {
	engine   string
	problem  string
	before   uint64 // last round F reported before the first reset
	headAt   uint64 // P's head at the last reset
	after    uint64 // last round F reported at the end
	cutConns int
}

func startChild(sp bench.Spec) (*bench.Child, error) {
	ch, err := bench.StartChild(sp)
	for attempt := 0; err != nil && attempt < 3; attempt++ {
		time.Sleep(300 * time.Millisecond)
		ch, err = bench.StartChild(sp)
	}
	return ch, err
}

func runCase(t tcase) (o outcome) {
	dirP, rmP := fix.ScratchDir()
	defer rmP()
	dirF, rmF := fix.ScratchDir()
	defer rmF()
	spP := bench.NewSpec(dirP, []bench.ChainSpec{{ID: beaconID, Scheme: t.Scheme, Kind: "running"}}, 1)
	px, err := bench.NewProxy(spP.Addr)
	if err != nil {
		o.engine = "proxy: " + err.Error()
		return
	}
	defer px.Close()
	spP.IdentityAddr = px.Listen
	p, err := startChild(spP)
	if err != nil {
		o.engine = "producer daemon: " + err.Error()
		return
	}
	defer p.Kill(false)
	head := func() uint64 {
		st, err := p.Ctrl.Status(beaconID)
		if err != nil || st.GetChainStore() == nil {
			return 0
		}
		return st.GetChainStore().GetLastStored()
	}
	// the chain must be producing
	for end := time.Now().Add(30 * time.Second); head() < 3; {
		if time.Now().After(end) {
			o.engine = "the producer daemon does not produce beacons"
			return
		}
		time.Sleep(200 * time.Millisecond)
	}
	spF := bench.NewSpec(dirF, []bench.ChainSpec{{ID: beaconID, Scheme: t.Scheme, Kind: "fresh"}}, 1)
	f, err := startChild(spF)
	if err != nil {
		o.engine = "follower daemon: " + err.Error()
		return
	}
	defer f.Kill(false)
	ctx, cancel := context.WithCancel(context.Background())
	defer cancel()
	hash := hex.EncodeToString(p.Chains[beaconID].Hash)
	prog, errs, err := f.Ctrl.StartFollowChain(ctx, hash, []string{px.Listen}, 0, beaconID)
	if err != nil {
		o.engine = "follow request: " + err.Error()
		return
	}
	var last uint64
	reports := 0
	// wait returns false when the follow call ended
	wait := func(until func() bool, max time.Duration) bool {
		deadline := time.After(max)
		for !until() {
			select {
			case pr, ok := <-prog:
				if !ok {
					return false
				}
				if pr.GetCurrent() > last {
					last = pr.GetCurrent()
				}
				reports++
			case e := <-errs:
				if e != nil {
					o.problem = "follow-call-ended: " + e.Error()
					return false
				}
			case <-deadline:
				return true
			}
		}
		return true
	}
	if !wait(func() bool { return reports >= t.After && last >= 2 }, 30*time.Second) || reports < t.After {
		if o.problem == "" {
			o.engine = fmt.Sprintf("the follower reported only %d rounds before any reset", reports)
		}
		return
	}
	o.before = last
	for r := 0; r < t.Resets; r++ {
		o.cutConns += px.CutAll()
		o.headAt = head()
		// the chain goes on; a follower that retries after a period is past the producer's head of now within 6 periods
		goal := o.headAt + 2
		if !wait(func() bool { return last >= goal }, 8*time.Second) {
			return
		}
		if last < goal {
			o.after = last
			o.problem = fmt.Sprintf("not-following-after-reset: %d periods after reset #%d of its connection to the peer the follower is still at round %d (peer head at the reset %d, now %d)", 8, r+1, last, o.headAt, head())
			return
		}
	}
	o.after = last
	return
}

func main() {
	bench.MaybeChild()
	c := vlib.New("C10", "model_checking")
	schemes := []string{crypto.DefaultSchemeID, crypto.UnchainedSchemeID}
	if !c.Quick() {
		schemes = crypto.ListSchemes()
	}
	var cases []tcase
	for _, sc := range schemes {
		for _, after := range []int{1, 3, 6} {
			cases = append(cases, tcase{sc, after, 1})
		}
		cases = append(cases, tcase{sc, 2, 2})
	}
	// no step of this sub-check waits without a deadline of its own, but it drives real processes: a run that has not
	// finished long after every deadline has passed is reported as an engine error instead of hanging
	go func() {
		d := 6*time.Minute
		if !c.Quick() {
			d *= 3
		}
		time.Sleep(d)
		c.EngineError("watchdog: the sub-check did not finish within %v", d)
		c.Finish("watchdog")
	}()
	if c.Replay != "" {
		fmt.Println("replay: the case (scheme, reset moment, number of resets) is described in the replay file; ./check C10 quick re-runs it")
		os.Exit(0)
	}
	type res struct {
		t tcase
		o outcome
	}
	out := make(chan res, len(cases))
	sem := make(chan struct{}, 4)
	for _, t := range cases {
		t := t
		sem <- struct{}{}
		go func() {
			defer func() { <-sem }()
			o := runCase(t)
			if o.engine != "" {
				o = runCase(t)
			}
			if o.problem != "" {
				// a finding must show again
				if o2 := runCase(t); o2.problem == "" && o2.engine == "" {
					o = o2
					c.Count("problems_not_reproduced_on_rerun", 1)
				}
			}
			out <- res{t, o}
		}()
	}
	var n int64
	for range cases {
		r := <-out
		n++
		if n <= 3 {
			c.Sample(map[string]any{"case": r.t.String(), "follower_round_before_reset": r.o.before, "peer_head_at_reset": r.o.headAt, "follower_round_at_end": r.o.after, "connections_reset": r.o.cutConns, "problem": r.o.problem})
		}
		switch {
		case r.o.engine != "":
			c.EngineError("c10-followd %s: %s", r.t, r.o.engine)
		case r.o.problem != "":
			kind := r.o.problem
			for i, ch := range kind {
				if ch == ':' {
					kind = kind[:i]
					break
				}
			}
			c.Report("c10/followd/"+kind, fmt.Sprintf("%s: %s", r.t, r.o.problem), map[string]any{"harness": "c10-followd", "case": r.t})
		}
	}
	c.Count("states", n)
	c.Count("transitions", n)
	c.Count("evaluations", n)
	c.Count("traces", n)
	c.Count("distinct", n)
	c.Exhaustive(true)
	c.Sub("c10-followd", map[string]any{"engine": "E2 exhaustive matrix on real daemon processes", "schemes": len(schemes), "cases": len(cases)})
	c.Assume("the peer is a real single-member daemon producing one beacon per second behind a TCP proxy of the harness; a reset closes every connection through the proxy once; 'goes on following' is judged 8 periods after the reset")
	c.Finish("one case = one follow request of a real daemon against a real producing daemon with its connections reset at a chosen moment")
}
