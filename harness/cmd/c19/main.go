//go:build conn_insecure

// c19 — property C19: requests reach only the beacon chain they name.
//
// Engine E2 on the daemon bench: one real daemon running three chains with distinct keys ("default", "b1", "b2");
// breadth-first over histories of stop/load operations issued through the real control API (depth <= 2 quick,
// <= 3 thorough, de-duplicated on the set of running chains); in every state reached the complete matrix
// beacon id {absent, "default", "b1", "b2", unknown} x chain hash {absent, each chain's, unknown 32 bytes, malformed}
// is sent to every routable endpoint over real gRPC / HTTP and the chain that answered (identified by the key its
// answer verifies under) is compared with a 15-line reference resolver.
package main

import (
	"bytes"
	"context"
	"encoding/hex"
	"encoding/json"
	"fmt"
	"os"
	"sort"
	"strings"
	"time"

	"github.com/drand/drand/v2/crypto"
	proto "github.com/drand/drand/v2/protobuf/drand"
	"github.com/drand/drand/v2/verifharness/bench"
	"github.com/drand/drand/v2/verifharness/fix"
	"github.com/drand/drand/v2/verifharness/vlib"
)

var ids = []string{"default", "b1", "b2"}

// resolve is the reference: which chain must answer ("" = the request must be refused).
func resolve(b *bench.Bench, running map[string]bool, id string, hash []byte) string {
	canon := func(s string) string {
		if s == "" {
			return "default"
		}
		return s
	}
	if len(hash) > 0 {
		for _, c := range ids {
			if bytes.Equal(b.Chains[c].Hash, hash) {
				if !running[c] {
					return ""
				}
				if id != "" && canon(id) != c {
					return ""
				}
				return c
			}
		}
		return ""
	}
	if running[canon(id)] {
		return canon(id)
	}
	return ""
}

type probe struct {
	name string
	call func(ctx context.Context, b *bench.Bench, md *proto.Metadata) (string, error) // returns the id of the chain that answered
}

func probes() []probe {
	return []probe{
		{"grpc Public.PublicRand", func(ctx context.Context, b *bench.Bench, md *proto.Metadata) (string, error) {
			r, err := b.Public.PublicRand(ctx, &proto.PublicRandRequest{Round: 0, Metadata: md})
			if err != nil {
				return "", err
			}
			return b.WhoseBeacon(r.Round, r.Signature, r.PreviousSignature), nil
		}},
		{"grpc Public.PublicRandStream", func(ctx context.Context, b *bench.Bench, md *proto.Metadata) (string, error) {
			cctx, cancel := context.WithCancel(ctx)
			defer cancel()
			st, err := b.Public.PublicRandStream(cctx, &proto.PublicRandRequest{Round: 1, Metadata: md})
			if err != nil {
				return "", err
			}
			r, err := st.Recv()
			if err != nil {
				return "", err
			}
			return b.WhoseBeacon(r.Round, r.Signature, r.PreviousSignature), nil
		}},
		{"grpc Public.ChainInfo", func(ctx context.Context, b *bench.Bench, md *proto.Metadata) (string, error) {
			r, err := b.Public.ChainInfo(ctx, &proto.ChainInfoRequest{Metadata: md})
			if err != nil {
				return "", err
			}
			return b.WhoseKey(r.PublicKey), nil
		}},
		{"grpc Protocol.GetIdentity", func(ctx context.Context, b *bench.Bench, md *proto.Metadata) (string, error) {
			r, err := b.Protocol.GetIdentity(ctx, &proto.IdentityRequest{Metadata: md})
			if err != nil {
				return "", err
			}
			for _, c := range ids {
				kb, _ := b.Chains[c].Pair.Public.Key.MarshalBinary()
				if bytes.Equal(kb, r.Key) {
					return c, nil
				}
			}
			return "?", nil
		}},
		{"grpc Protocol.SyncChain", func(ctx context.Context, b *bench.Bench, md *proto.Metadata) (string, error) {
			cctx, cancel := context.WithCancel(ctx)
			defer cancel()
			st, err := b.Protocol.SyncChain(cctx, &proto.SyncRequest{FromRound: 1, Metadata: md})
			if err != nil {
				return "", err
			}
			r, err := st.Recv()
			if err != nil {
				return "", err
			}
			return b.WhoseBeacon(r.Round, r.Signature, r.PreviousSignature), nil
		}},
		{"grpc Protocol.Status", func(ctx context.Context, b *bench.Bench, md *proto.Metadata) (string, error) {
			r, err := b.Protocol.Status(ctx, &proto.StatusRequest{Metadata: md})
			if err != nil {
				return "", err
			}
			_ = r
			return "*", nil // a status answer does not identify its chain: only served/refused is judged
		}},
	}
}

func main() {
	c := vlib.New("C19", "model_checking")
	if c.Replay != "" {
		fmt.Println("replay: the failing (history, endpoint, id, hash) is written out in the replay file")
		os.Exit(0)
	}
	ctx := context.Background()
	dir, rm := fix.ScratchDir()
	defer rm()
	b, err := bench.Start(ctx, dir, ids, []string{crypto.UnchainedSchemeID, crypto.DefaultSchemeID, crypto.SigsOnG1ID}, time.Second, fix.Logger())
	for attempt := 0; err != nil && attempt < 3; attempt++ {
		// a port picked for the daemon can be taken before it is bound: start again with fresh ports
		time.Sleep(300 * time.Millisecond)
		b, err = bench.Start(ctx, dir, ids, []string{crypto.UnchainedSchemeID, crypto.DefaultSchemeID, crypto.SigsOnG1ID}, time.Second, fix.Logger())
	}
	if err != nil {
		c.EngineError("daemon bench did not start: %v", err)
		c.Finish("")
	}
	defer b.Stop(ctx)
	if err := b.WaitBeacons(ctx, 2, 60*time.Second); err != nil {
		c.EngineError("daemon bench: %v", err)
		c.Finish("")
	}
	depth := 2
	if !c.Quick() {
		depth = 3
	}
	type op struct {
		kind, id string
	}
	var ops []op
	for _, id := range ids {
		ops = append(ops, op{"stop", id}, op{"load", id})
	}
	apply := func(o op) error {
		var err error
		if o.kind == "stop" {
			_, err = b.Ctrl.Shutdown(o.id)
		} else {
			_, err = b.Ctrl.LoadBeacon(o.id)
		}
		time.Sleep(300 * time.Millisecond)
		return err
	}
	unknownHash := bytes.Repeat([]byte{0x42}, 32)
	var states, transitions, calls int64
	seen := map[string]bool{}
	matrix := func(hist []op, running map[string]bool) {
		// wait until every running chain serves (a chain just loaded catches up first)
		for id := range running {
			if running[id] {
				dl := time.Now().Add(30 * time.Second)
				for {
					cctx, cancel := context.WithTimeout(ctx, 5*time.Second)
					_, err := b.Public.PublicRand(cctx, &proto.PublicRandRequest{Metadata: &proto.Metadata{BeaconID: id}})
					cancel()
					if err == nil || time.Now().After(dl) {
						break
					}
					time.Sleep(200 * time.Millisecond)
				}
			}
		}
		hs := fmt.Sprint(hist)
		idAlpha := []string{"", "default", "b1", "b2", "nope"}
		hashAlpha := [][]byte{nil, b.Chains["default"].Hash, b.Chains["b1"].Hash, b.Chains["b2"].Hash, unknownHash, {1, 2, 3, 4, 5}}
		for _, p := range probes() {
			for _, id := range idAlpha {
				for hi, h := range hashAlpha {
					want := resolve(b, running, id, h)
					md := &proto.Metadata{BeaconID: id, ChainHash: h}
					cctx, cancel := context.WithTimeout(ctx, 10*time.Second)
					got, err := p.call(cctx, b, md)
					cancel()
					calls++
					hashName := []string{"absent", "hash(default)", "hash(b1)", "hash(b2)", "unknown-32-bytes", "malformed-5-bytes"}[hi]
					tag := fmt.Sprintf("after %s (running %v): %s id=%q hash=%s", hs, keys(running), p.name, id, hashName)
					rep := map[string]any{"history": hs, "endpoint": p.name, "id": id, "hash": hashName}
					switch {
					case err != nil && want != "":
						c.Report(fmt.Sprintf("c19/refused/%s/id=%s/hash=%s", p.name, id, hashName), fmt.Sprintf("%s: refused (%v) but the request names the running chain %s", tag, err, want), rep)
					case err == nil && want == "":
						c.Report(fmt.Sprintf("c19/served-instead-of-refused/%s/id=%s/hash=%s", p.name, id, hashName), fmt.Sprintf("%s: answered by chain %q although the request must be refused", tag, got), rep)
					case err == nil && got != "*" && got != want:
						c.Report(fmt.Sprintf("c19/wrong-chain/%s/id=%s/hash=%s", p.name, id, hashName), fmt.Sprintf("%s: answered by chain %q, the request names chain %q", tag, got, want), rep)
					}
				}
			}
		}
		// HTTP
		type hp struct {
			path string
			want string
		}
		var hps []hp
		for _, cid := range ids {
			hx := hex.EncodeToString(b.Chains[cid].Hash)
			w := ""
			if running[cid] {
				w = cid
			}
			hps = append(hps, hp{"/" + hx + "/public/latest", w}, hp{"/" + hx + "/public/1", w}, hp{"/" + hx + "/info", w})
		}
		def := ""
		if running["default"] {
			def = "default"
		}
		hps = append(hps, hp{"/public/latest", def}, hp{"/public/1", def}, hp{"/info", def},
			hp{"/" + hex.EncodeToString(unknownHash) + "/public/latest", ""}, hp{"/0102030405/public/latest", ""}, hp{"/" + hex.EncodeToString(unknownHash) + "/info", ""})
		for _, h := range hps {
			code, body, err := b.HTTPGet(h.path)
			calls++
			tag := fmt.Sprintf("after %s (running %v): HTTP GET %s", hs, keys(running), strings.Replace(h.path, hex.EncodeToString(unknownHash), "<unknown-hash>", 1))
			rep := map[string]any{"history": hs, "endpoint": "http", "path": h.path}
			got := ""
			if err == nil && code == 200 {
				var m map[string]any
				if json.Unmarshal(body, &m) == nil {
					if pk, ok := m["public_key"].(string); ok {
						kb, _ := hex.DecodeString(pk)
						got = b.WhoseKey(kb)
					} else if sg, ok := m["signature"].(string); ok {
						sb, _ := hex.DecodeString(sg)
						pb, _ := hex.DecodeString(fmt.Sprint(m["previous_signature"]))
						r, _ := m["round"].(float64)
						got = b.WhoseBeacon(uint64(r), sb, pb)
					}
				}
				if got == "" {
					got = "?"
				}
			}
			pathKind := h.path
			for _, cid := range ids {
				pathKind = strings.Replace(pathKind, hex.EncodeToString(b.Chains[cid].Hash), "hash("+cid+")", 1)
			}
			pathKind = strings.Replace(pathKind, hex.EncodeToString(unknownHash), "unknown", 1)
			switch {
			case got == "" && h.want != "":
				c.Report("c19/http-refused/"+pathKind, fmt.Sprintf("%s: status %d (%v) but the path names the running chain %s", tag, code, err, h.want), rep)
			case got != "" && h.want == "":
				c.Report("c19/http-served-instead-of-refused/"+pathKind, fmt.Sprintf("%s: 200 answered by chain %q although the path must not resolve", tag, got), rep)
			case got != "" && got != h.want:
				c.Report("c19/http-wrong-chain/"+pathKind, fmt.Sprintf("%s: answered by chain %q, the path names chain %q", tag, got, h.want), rep)
			}
		}
		// /chains lists exactly the running chains
		code, body, err := b.HTTPGet("/chains")
		calls++
		if err == nil && code == 200 {
			var l []string
			_ = json.Unmarshal(body, &l)
			var want []string
			for _, cid := range ids {
				if running[cid] {
					want = append(want, hex.EncodeToString(b.Chains[cid].Hash))
				}
			}
			sort.Strings(l)
			sort.Strings(want)
			if fmt.Sprint(l) != fmt.Sprint(want) {
				c.Report("c19/http-chains-list", fmt.Sprintf("after %s: /chains lists %d hashes, %d chains are running", hs, len(l), len(want)), map[string]any{"history": hs})
			}
		}
	}
	// BFS over histories with undo (the bench is one live daemon: after exploring a history it is brought back)
	allRunning := func() map[string]bool { return map[string]bool{"default": true, "b1": true, "b2": true} }
	var explore func(hist []op, running map[string]bool, d int)
	explore = func(hist []op, running map[string]bool, d int) {
		k := fmt.Sprint(keys(running))
		first := !seen[k]
		if first {
			seen[k] = true
			states++
		}
		if first || len(hist) <= 1 {
			matrix(hist, running)
			if len(c.Samples()) < 2 {
				c.Sample(map[string]any{"history": fmt.Sprint(hist), "running": keys(running), "calls_so_far": calls})
			}
		}
		if d == 0 || (!first && len(hist) > 1) {
			return
		}
		for _, o := range ops {
			was := running[o.id]
			if err := apply(o); err != nil {
				legit := (o.kind == "stop" && !was) || (o.kind == "load" && was)
				if !legit {
					c.Report(fmt.Sprintf("c19/control-op-failed/%s-%s", o.kind, o.id), fmt.Sprintf("after %v: %s(%s) failed: %v", hist, o.kind, o.id, err), nil)
				}
				continue
			}
			transitions++
			nr := map[string]bool{}
			for k, v := range running {
				nr[k] = v
			}
			nr[o.id] = o.kind == "load"
			explore(append(append([]op{}, hist...), o), nr, d-1)
			// undo
			if was != nr[o.id] {
				if was {
					_ = apply(op{"load", o.id})
				} else {
					_ = apply(op{"stop", o.id})
				}
			}
		}
	}
	explore(nil, allRunning(), depth)
	c.Count("states", states)
	c.Count("transitions", transitions)
	c.Count("traces", calls)
	c.Count("evaluations", calls)
	c.Count("distinct", states)
	c.Exhaustive(true)
	c.Sub("c19-route", map[string]any{"engine": "E2 on the daemon bench (real daemon, loopback gRPC + HTTP)", "running_sets_reached": states, "control_operations": transitions, "requests": calls, "depth": depth})
	c.Assume("chains are fabricated 1-of-1 groups loaded through the daemon's migration path; the answering chain is identified by the key under which the answer verifies",
		"Protocol.Status does not identify its chain: only served/refused is judged; PartialBeacon and DKG packets carry no chain hash and are not part of the matrix",
		"real sockets and real time (period 1 s): every call has a 10 s deadline, a chain that was just loaded is given up to 30 s to serve again")
	c.Finish("one case = one request (endpoint x id x hash, or HTTP path) in one state of the running-chain set; states = distinct running sets reached by stop/load histories")
}

func keys(m map[string]bool) []string {
	var l []string
	for k, v := range m {
		if v {
			l = append(l, k)
		}
	}
	sort.Strings(l)
	return l
}
