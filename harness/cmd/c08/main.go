// c08 — property C08: DKG state moves only along legal transitions; failures keep the last good epoch.
//
// Engine E2 (explicit-state breadth-first search over event histories, over virtual time): the real dkg.Process of
// the node under test M with its real bolt store; the other participants are played by the harness with correctly
// signed packets (package dkgw). Start states: fresh, and "epoch 1 complete" (reached by a real first DKG between
// real processes). Alphabet: gossip packets (valid proposal; proposals that are stale, expired, below the minimum
// threshold, drop a current member, change genesis time or seed, carry another beacon id or an unknown scheme;
// accept / reject by the other member; execute and abort by the leader and by a non-leader), the seven operator
// commands on M, and the passing of time (past the phases of an execution nobody else takes part in; past the
// proposal timeout). After every step the current and finished records are read back from the database.
package main

import (
	"bytes"
	"context"
	"fmt"
	"os"
	"path/filepath"
	"strings"
	"time"

	"github.com/BurntSushi/toml"

	"github.com/drand/drand/v2/common/key"
	"github.com/drand/drand/v2/crypto"
	"github.com/drand/drand/v2/internal/dkg"
	"github.com/drand/drand/v2/internal/util"
	pdkg "github.com/drand/drand/v2/protobuf/dkg"
	"github.com/drand/drand/v2/verifharness/dkgw"
	"github.com/drand/drand/v2/verifharness/dnet"
	"github.com/drand/drand/v2/verifharness/fix"
	"github.com/drand/drand/v2/verifharness/vlib"
	vrt "verif.local/vrt"
	"verif.local/vrt/explore"
)

type event struct {
	name    string
	kind    string    // packet | command | time
	c       dkgw.Case // packet
	cmd     string    // command
	d       time.Duration
	invalid bool // an invalid proposal: must be refused
}

func alphabet(start string) []event {
	base := start
	pk := func(name, kind, claimed, signer, mut string, presign, invalid bool) event {
		return event{name: name, kind: "packet", invalid: invalid, c: dkgw.Case{Base: base, Kind: kind, Claimed: claimed, Signer: signer, Mutation: mut, PreSign: presign}}
	}
	a := []event{
		pk("proposal(valid,from L)", "proposal", "L", "L", "none", false, false),
		pk("proposal(stale epoch)", "proposal", "L", "L", "stale-epoch", true, true),
		pk("proposal(expired timeout)", "proposal", "L", "L", "expired-timeout", true, true),
		pk("proposal(threshold below minimum)", "proposal", "L", "L", "threshold-low", true, true),
		pk("proposal(unknown scheme)", "proposal", "L", "L", "unknown-scheme", true, true),
		pk("proposal(other beacon id in terms)", "proposal", "L", "L", "wrong-beacon-id", true, true),
		pk("accept(B)", "accept", "B", "B", "none", false, false),
		pk("reject(B)", "reject", "B", "B", "none", false, false),
		pk("execute(L)", "execute", "L", "L", "none", false, false),
		pk("abort(L)", "abort", "L", "L", "none", false, false),
		pk("abort(B, not the leader)", "abort", "B", "B", "none", false, false),
		pk("execute(B, not the leader)", "execute", "B", "B", "none", false, false),
	}
	if start != "fresh" {
		a = append(a, pk("proposal(epoch 1 again, everybody joining)", "proposal", "L", "L", "first-epoch-again", true, true))
	}
	if start == "complete" {
		a = append(a,
			pk("proposal(drops a current member)", "proposal", "L", "L", "drop-member", true, true),
			pk("proposal(changed genesis time)", "proposal", "L", "L", "genesis-time", true, true),
			pk("proposal(changed genesis seed)", "proposal", "L", "L", "genesis-seed", true, true),
			pk("proposal(valid,from B)", "proposal", "B", "B", "none", false, false),
			pk("proposal(forged: leader's address listed twice, signed by the second key)", "proposal", "L", "Xdup", "none", false, true))
	}
	for _, c := range []string{"accept", "reject", "join", "execute", "abort", "reshare", "initial"} {
		a = append(a, event{name: "command " + c, kind: "command", cmd: c})
	}
	a = append(a, event{name: "time passes (all phases of an execution)", kind: "time", d: 90 * time.Second},
		event{name: "time passes (proposal timeout)", kind: "time", d: 61 * time.Minute})
	return a
}

var legal = map[dkg.Status][]dkg.Status{
	dkg.Fresh:     {dkg.Proposing, dkg.Proposed},
	dkg.Joined:    {dkg.Left, dkg.Executing, dkg.Aborted, dkg.TimedOut},
	dkg.Proposing: {dkg.Executing, dkg.Aborted, dkg.TimedOut},
	dkg.Proposed:  {dkg.Accepted, dkg.Rejected, dkg.Joined, dkg.Left, dkg.Aborted, dkg.TimedOut},
	dkg.Accepted:  {dkg.Executing, dkg.Aborted, dkg.TimedOut},
	dkg.Rejected:  {dkg.Aborted, dkg.TimedOut},
	dkg.Executing: {dkg.Complete, dkg.TimedOut, dkg.Failed},
	dkg.Complete:  {dkg.Proposing, dkg.Proposed},
	dkg.Left:      {dkg.Joined, dkg.Aborted, dkg.Proposed},
	dkg.Aborted:   {dkg.Proposing, dkg.Proposed},
	dkg.TimedOut:  {dkg.Proposing, dkg.Proposed, dkg.Aborted},
	dkg.Failed:    {dkg.Proposing, dkg.Proposed, dkg.Left, dkg.Aborted},
}

func isLegal(from, to dkg.Status) bool {
	for _, s := range legal[from] {
		if s == to {
			return true
		}
	}
	return false
}

func dump(s *dkg.DBState) string {
	if s == nil {
		return "<nil>"
	}
	var b bytes.Buffer
	_ = toml.NewEncoder(&b).Encode(s.TOML())
	return b.String()
}

type ident struct{ kp *key.Pair }

func (i ident) KeypairFor(string) (*key.Pair, error) { return i.kp, nil }

type snap struct {
	cur, fin *dkg.DBState
	curS     string
	finS     string
}

func read(st *dkg.BoltStore) snap {
	c, _ := st.GetCurrent(dkgw.BeaconID)
	f, _ := st.GetFinished(dkgw.BeaconID)
	return snap{c, f, dump(c), dump(f)}
}

func main() {
	c := vlib.New("C08", "model_checking")
	if c.Replay != "" {
		fmt.Println("replay: the event history is written out in the replay file")
		os.Exit(0)
	}
	scratch, rm := fix.ScratchDir()
	defer rm()
	w := dkgw.Setup(crypto.DefaultSchemeID, scratch)
	if w.Err != nil {
		c.EngineError("c08 set-up failed: %v", w.Err)
		c.Finish("")
	}
	depth := 4
	if !c.Quick() {
		depth = 6
	}
	for _, start := range []string{"fresh", "complete", "left"} {
		alpha := alphabet(start)
		var ctr int
		step := func(hist []int) (string, []explore.Violation, bool) {
			ctr++
			dir := filepath.Join(scratch, fmt.Sprintf("w%d-%d", vrt.ThreadID(), time.Now().UnixNano()))
			dkgw.CopyFile(w.Snap[start], filepath.Join(dir, dkg.BoltFileName))
			defer os.RemoveAll(dir)
			var viols []explore.Violation
			keyS := ""
			add := func(fp, f string, a ...any) {
				viols = append(viols, explore.Violation{Fingerprint: "c08/" + fp, Detail: fmt.Sprintf("start=%s: ", start) + fmt.Sprintf(f, a...)})
			}
			s := vrt.Run(vrt.Options{Start: w.At[start].Add(time.Second), MaxSteps: 2000000, Watchdog: 60 * time.Second, Until: w.At[start].Add(6 * time.Hour)}, func() {
				ctx := context.Background()
				st, err := dkg.NewDKGStore(dir)
				if err != nil {
					add("harness-setup", "%v", err)
					return
				}
				defer st.Close()
				clk := &vrt.Clock{}
				nt := dnet.New(w.Sch)
				proc := dkg.NewDKGProcess(st, ident{w.KM}, util.NewFanOutChan[dkg.SharingOutput](), nt.Client(), nil, nt.Cfg, fix.Logger())
				md := &pdkg.CommandMetadata{BeaconID: dkgw.BeaconID}
				for i, ei := range hist {
					e := alpha[ei]
					last := i == len(hist)-1
					clk.Sleep(time.Second) // distinct packet signatures, gossip settles
					before := read(st)
					var err error
					applied := true
					switch e.kind {
					case "packet":
						cs := e.c
						if before.cur != nil && before.cur.Epoch >= 2 && start == "fresh" {
							cs.Base = "complete"
						}
						pkt, ok := w.Build(cs, clk.Now())
						if !ok {
							applied = false
							break
						}
						if cs.Kind != "proposal" && before.cur != nil && before.cur.Leader != nil {
							// control packets are signed over the terms M holds now
							pkt, ok = w.BuildOver(cs, dkg.VerifTermsFromState(before.cur), clk.Now())
							if !ok {
								applied = false
								break
							}
						}
						_, err = proc.Packet(ctx, pkt)
					case "command":
						cmd := &pdkg.DKGCommand{Metadata: md}
						switch e.cmd {
						case "accept":
							cmd.Command = &pdkg.DKGCommand_Accept{Accept: &pdkg.AcceptOptions{}}
						case "reject":
							cmd.Command = &pdkg.DKGCommand_Reject{Reject: &pdkg.RejectOptions{}}
						case "join":
							cmd.Command = &pdkg.DKGCommand_Join{Join: &pdkg.JoinOptions{}}
						case "execute":
							cmd.Command = &pdkg.DKGCommand_Execute{Execute: &pdkg.ExecutionOptions{}}
						case "abort":
							cmd.Command = &pdkg.DKGCommand_Abort{Abort: &pdkg.AbortOptions{}}
						case "reshare":
							cmd.Command = &pdkg.DKGCommand_Resharing{Resharing: w.ReshareOptions(clk.Now())}
						case "initial":
							cmd.Command = &pdkg.DKGCommand_Initial{Initial: w.InitialOptions(clk.Now())}
						}
						_, err = proc.Command(ctx, cmd)
					case "time":
						clk.Sleep(e.d)
					}
					clk.Sleep(time.Second)
					after := read(st)
					if !last || !applied {
						continue
					}
					tag := fmt.Sprintf("%s (state before %v)", e.name, stateOf(before.cur))
					if after.cur == nil {
						add("current-unreadable", "%s: the current record cannot be read back", tag)
						continue
					}
					if before.cur != nil && after.cur.State != before.cur.State {
						from := before.cur.State
						// a terminal state falls back to the last finished record (or to fresh) before the event applies
						if !isLegal(from, after.cur.State) {
							add(fmt.Sprintf("illegal-transition/%s->%s", from, after.cur.State), "%s: state went %s -> %s (err=%v)", tag, from, after.cur.State, err)
						}
					}
					if before.cur != nil && after.cur.Epoch < before.cur.Epoch {
						fp := "epoch-decreased"
						if start == "left" {
							fp += "/node-that-left"
						}
						add(fp, "%s: epoch went %d -> %d", tag, before.cur.Epoch, after.cur.Epoch)
					}
					if after.finS != before.finS {
						if after.fin == nil || after.fin.State != dkg.Complete || (before.fin != nil && after.fin.Epoch <= before.fin.Epoch) {
							add("finished-record-changed", "%s: the finished record changed without the completion of a later epoch", tag)
						}
					}
					if after.fin != nil && (after.fin.FinalGroup == nil || after.fin.KeyShare == nil) {
						add("finished-record-not-whole", "%s: the finished record lacks its group or its share", tag)
					}
					if err != nil && e.kind != "time" && (after.curS != before.curS || after.finS != before.finS) {
						add("rejected-step-left-trace", "%s: the step was refused (%v) but the stored records changed", tag, err)
					}
					if e.invalid && err == nil && after.curS != before.curS {
						add("invalid-proposal-accepted/"+e.c.Mutation, "%s: the proposal was applied (state now %s)", tag, stateOf(after.cur))
					}
					if e.kind == "packet" && e.c.Kind == "proposal" && !e.invalid && e.c.Claimed == "L" && err != nil && before.cur != nil {
						// the valid proposal carries epoch 1 (fresh start), 2 (after epoch 1) or 3 (for the node that left at 2)
						pe := map[string]uint32{"fresh": 1, "complete": 2, "left": 3}[start]
						retry := false
						switch before.cur.State {
						case dkg.Aborted, dkg.TimedOut, dkg.Failed:
							retry = pe == before.cur.Epoch // a retry at the same epoch
						case dkg.Complete:
							retry = pe == before.cur.Epoch+1
						case dkg.Fresh:
							retry = true
						case dkg.Left:
							retry = pe > before.cur.Epoch
						}
						if retry {
							fp := "retry-refused"
							if start == "left" {
								fp += "/node-that-left"
							}
							add(fp, "%s: a valid proposal for epoch %d was refused: %v", tag, pe, err)
						}
					}
					// canonical key of the state reached
					keyS = fmt.Sprintf("%s|fin=%d", stateOf(after.cur), epochOf(after.fin))
				}
				if len(hist) == 0 {
					sn := read(st)
					keyS = fmt.Sprintf("%s|fin=%d", stateOf(sn.cur), epochOf(sn.fin))
				}
			})
			if s.Panic != "" {
				add("panic", "%.600s", s.Panic)
			}
			if s.NativeBlock != "" {
				return "ENGINE", nil, true
			}
			stop := keyS == ""
			if stop {
				keyS = fmt.Sprint("noop", hist)
			}
			return keyS, viols, stop
		}
		describe := func(hist []int) any {
			var l []string
			for _, e := range hist {
				l = append(l, alpha[e].name)
			}
			return strings.Join(l, " ; ")
		}
		// A step is a deterministic function of its history (fresh store copy, virtual time, default schedule): a violation
		// that does not show again when the same history is run once more comes from the environment (it was seen once
		// in dozens of runs: the scratch database of one step was damaged underneath it), not from the code under test.
		// Such a step is counted and its second result is used.
		confirmed := func(hist []int) (string, []explore.Violation, bool) {
			k, v, stop := step(hist)
			if len(v) == 0 {
				return k, v, stop
			}
			k2, v2, stop2 := step(hist)
			if len(v2) == 0 {
				c.Count("violations_not_reproduced_on_rerun", 1)
				return k2, v2, stop2
			}
			return k, v, stop
		}
		c.BFS("c08-sm/start="+start, func([]int) int { return len(alpha) }, depth, c.DeadlineIn(100*time.Second, 20*time.Minute), confirmed, describe)
	}
	raceCheck(c, w, scratch)
	c.Assume("the other participants are played by the harness with correctly signed packets; executions started in these histories have no peers and therefore fail after their phases (completion of an epoch is reached by the real first DKG of the set-up)",
		"state key = (status, epoch, leader, list sizes, acceptors/rejectors, finished epoch): the Process keeps no other state that influences later steps except its set of seen packet signatures, which the harness keeps fresh by advancing virtual time between events",
		"reference transition table taken from the protocol description; an event that is refused must leave both records byte-identical")
	c.Finish("one case = one event applied to the real Process in the state reached by a history; states = distinct canonical states, transitions = (history, event) pairs executed")
}

func stateOf(s *dkg.DBState) string {
	if s == nil {
		return "<nil>"
	}
	return fmt.Sprintf("%s/e%d/leader=%s/rem=%d,join=%d,leave=%d/acc=%d,rej=%d", s.State, s.Epoch, s.Leader.GetAddress(), len(s.Remaining), len(s.Joining), len(s.Leaving), len(s.Acceptors), len(s.Rejectors))
}
func epochOf(s *dkg.DBState) int {
	if s == nil {
		return 0
	}
	return int(s.Epoch)
}
