package main

import (
	"context"
	"fmt"
	"os"
	"path/filepath"
	"time"

	"github.com/drand/drand/v2/internal/dkg"
	"github.com/drand/drand/v2/internal/util"
	pdkg "github.com/drand/drand/v2/protobuf/dkg"
	"github.com/drand/drand/v2/verifharness/dkgw"
	"github.com/drand/drand/v2/verifharness/dnet"
	"github.com/drand/drand/v2/verifharness/fix"
	"github.com/drand/drand/v2/verifharness/vlib"
	vrt "verif.local/vrt"
	"verif.local/vrt/explore"
)

// recStore records every state written as the current record.
type recStore struct {
	*dkg.BoltStore
	writes []dkg.Status
}

func (r *recStore) SaveCurrent(id string, s *dkg.DBState) error {
	r.writes = append(r.writes, s.State)
	return r.BoltStore.SaveCurrent(id, s)
}
func (r *recStore) SaveFinished(id string, s *dkg.DBState) error {
	r.writes = append(r.writes, s.State)
	return r.BoltStore.SaveFinished(id, s)
}

// raceCheck is c08-race (engine E1): an operator command on M and a gossip packet for M are in flight at the same
// time (the daemon serves both from different goroutines); every interleaving at lock granularity. The sequence
// of states written to the database must be a path of the legal transition table, and a packet that was
// acknowledged must not be undone by the command.
func raceCheck(c *vlib.Check, w *dkgw.World, scratch string) {
	type pair struct {
		base, cmd, pktKind, pktFrom string
	}
	pairs := []pair{
		{"proposed", "accept", "abort", "L"}, {"proposed", "reject", "abort", "L"}, {"accepted", "abort", "execute", "L"},
		{"proposed", "accept", "reject", "B"}, {"proposed", "accept", "accept", "B"}, {"b-accepted", "accept", "abort", "L"},
	}
	var jobs []vlib.E1Job
	bound := 3
	if !c.Quick() {
		bound = -1
	}
	for _, p := range pairs {
		p := p
		run := func(devs []vrt.Dev, labels bool) *explore.Exec {
			dir := filepath.Join(scratch, fmt.Sprintf("race-%d", time.Now().UnixNano()))
			dkgw.CopyFile(w.Snap[p.base], filepath.Join(dir, dkg.BoltFileName))
			defer os.RemoveAll(dir)
			var rs *recStore
			var cmdErr, pktErr error
			var start, end dkg.Status
			var setupErr error
			s := vrt.Run(vrt.Options{Devs: devs, Labels: labels, Start: w.At[p.base].Add(time.Second), MaxSteps: 500000, Watchdog: 60 * time.Second, Until: w.At[p.base].Add(10 * time.Minute)}, func() {
				ctx := context.Background()
				st, err := dkg.NewDKGStore(dir)
				if err != nil {
					setupErr = err
					return
				}
				defer st.Close()
				rs = &recStore{BoltStore: st}
				clk := &vrt.Clock{}
				nt := dnet.New(w.Sch)
				proc := dkg.NewDKGProcess(rs, ident{w.KM}, util.NewFanOutChan[dkg.SharingOutput](), nt.Client(), nil, nt.Cfg, fix.Logger())
				cur, _ := st.GetCurrent(dkgw.BeaconID)
				start = cur.State
				pkt, ok := w.BuildOver(dkgw.Case{Base: p.base, Kind: p.pktKind, Claimed: p.pktFrom, Signer: p.pktFrom, Mutation: "none"}, dkg.VerifTermsFromState(cur), clk.Now())
				if !ok {
					setupErr = fmt.Errorf("cannot build the packet")
					return
				}
				cmd := &pdkg.DKGCommand{Metadata: &pdkg.CommandMetadata{BeaconID: dkgw.BeaconID}}
				switch p.cmd {
				case "accept":
					cmd.Command = &pdkg.DKGCommand_Accept{Accept: &pdkg.AcceptOptions{}}
				case "reject":
					cmd.Command = &pdkg.DKGCommand_Reject{Reject: &pdkg.RejectOptions{}}
				case "abort":
					cmd.Command = &pdkg.DKGCommand_Abort{Abort: &pdkg.AbortOptions{}}
				}
				vrt.GoNamed("operator", func() { _, cmdErr = proc.Command(ctx, cmd); vrt.Logf("command %s returned %v", p.cmd, cmdErr) })
				vrt.GoNamed("network", func() { _, pktErr = proc.Packet(ctx, pkt); vrt.Logf("packet %s returned %v", p.pktKind, pktErr) })
				vrt.WaitIdle()
				clk.Sleep(2 * time.Second)
				if a, _ := st.GetCurrent(dkgw.BeaconID); a != nil {
					end = a.State
				}
			})
			x := &explore.Exec{S: s}
			if s.NativeBlock != "" || s.ReplayDivergence != "" {
				x.Outcome = "ENGINE"
				return x
			}
			tag := fmt.Sprintf("base=%s command=%s packet=%s(from %s)", p.base, p.cmd, p.pktKind, p.pktFrom)
			add := func(fp, f string, a ...any) {
				x.Violations = append(x.Violations, explore.Violation{Fingerprint: "c08/race/" + fp, Detail: tag + ": " + fmt.Sprintf(f, a...)})
			}
			if setupErr != nil {
				add("harness-setup", "%v", setupErr)
				return x
			}
			if s.Panic != "" {
				add("panic", "%.500s", s.Panic)
			}
			prev := start
			for _, st := range rs.writes {
				if st != prev && !isLegal(prev, st) {
					add(fmt.Sprintf("illegal-transition/%s->%s", prev, st), "states written %v starting from %s", rs.writes, start)
					break
				}
				prev = st
			}
			if pktErr == nil && (p.pktKind == "abort" || p.pktKind == "execute") && len(rs.writes) > 0 {
				want := map[string]dkg.Status{"abort": dkg.Aborted, "execute": dkg.Executing}[p.pktKind]
				seen := false
				for _, st := range rs.writes {
					if st == want {
						seen = true
					} else if seen && st != dkg.Failed && st != dkg.Complete {
						add("acknowledged-packet-undone", "the %s packet was acknowledged but the state was later overwritten: states written %v", p.pktKind, rs.writes)
					}
				}
			}
			x.Outcome = fmt.Sprintf("cmdErr=%v pktErr=%v writes=%v end=%s", cmdErr != nil, pktErr != nil, rs.writes, end)
			return x
		}
		jobs = append(jobs, vlib.E1Job{Name: fmt.Sprintf("c08-race/base=%s/command=%s/packet=%s-from-%s", p.base, p.cmd, p.pktKind, p.pktFrom), Bound: bound, Shards: 1,
			Run: func(devs []vrt.Dev) *explore.Exec { return run(devs, false) }, Labeled: func(devs []vrt.Dev) *explore.Exec { return run(devs, true) }})
	}
	c.E1Batch(jobs, time.Until(c.DeadlineIn(60*time.Second, 10*time.Minute)))
}
