//go:build conn_insecure

// c13 — property C13: a crash at any point leaves a restartable, self-consistent node.
//
// Engine E3 (crash-point enumeration on real daemon processes). The daemon binary is built with a crash point
// before every persistence operation of common/key, internal/fs, internal/dkg, internal/chain/boltdb and
// internal/core (inserted by the AST instrumenter: file create/open/remove/chmod/mkdir, bolt Open/Update) and with
// file-backed TOML encoders routed through a writer that can tear a write. For every scenario (beacon production on
// a 1-of-1 chain; first DKG of three real daemons; resharing among the same members; resharing in which a node
// leaves and a fresh one joins) and every traced role, one reference run records the sequence of points the traced
// daemon passes; then, for EVERY (point, occurrence) of that sequence, the scenario is run again and the traced
// daemon kills itself with SIGKILL exactly there (before the operation; for encoder writes also after half of the
// bytes). Crashing before operation k+1 is crashing after operation k, so before / after / torn are all covered.
// After each crash: the node's directories are inspected with the repository's own loaders (DKG database, key
// store, chain store), then the daemon is restarted from them and must come up and, when it belongs to the running
// group, catch up with the others.
package main

import (
	"bytes"
	"context"
	"encoding/hex"
	"fmt"
	"os"
	"os/exec"
	"path/filepath"
	"sort"
	"strings"
	"sync"
	"syscall"
	"time"

	"github.com/drand/drand/v2/common"
	"github.com/drand/drand/v2/common/key"
	"github.com/drand/drand/v2/crypto"
	"github.com/drand/drand/v2/internal/chain"
	"github.com/drand/drand/v2/internal/chain/boltdb"
	"github.com/drand/drand/v2/internal/dkg"
	pb "github.com/drand/drand/v2/protobuf/drand"
	"github.com/drand/drand/v2/verifharness/bench"
	"github.com/drand/drand/v2/verifharness/fix"
	"github.com/drand/drand/v2/verifharness/vlib"
	"github.com/drand/kyber"
)

type scenario struct {
	name   string
	nodes  int
	traced int
	role   string
}

// spec of one crash: the n-th execution of a point after arming ("" = no crash: reference run)
type crashSpec struct {
	Label string `json:"point"`
	Occ   int    `json:"occurrence"`
}

func (s crashSpec) String() string { return fmt.Sprintf("%s#%d", s.Label, s.Occ) }

type runResult struct {
	points   []crashSpec // what the traced daemon logged (reference run)
	crashed  bool
	problems []problem
	note     string
}

type problem struct {
	inv    string
	detail string
}

const beaconID = "default"

type runner struct {
	sc      scenario
	spec    crashSpec
	cl      *bench.Cluster
	t       int
	armFile string
	logFile string
	served  uint64 // highest round the traced node served before it died
	sig     []byte
	groups  map[uint32]*key.Group // epoch -> group as seen on the healthy nodes
	res     runResult
}

func (r *runner) bad(inv, format string, a ...any) {
	r.res.problems = append(r.res.problems, problem{inv, fmt.Sprintf(format, a...)})
}

func (r *runner) alive() bool { return r.cl.Nodes[r.t].Cmd != nil && r.cl.Nodes[r.t].Alive() }

// poll records what the traced node serves.
func (r *runner) poll() {
	if !r.alive() {
		return
	}
	ctx, cancel := context.WithTimeout(context.Background(), 3*time.Second)
	defer cancel()
	if b, err := r.cl.Nodes[r.t].Public.PublicRand(ctx, &pb.PublicRandRequest{Metadata: &pb.Metadata{BeaconID: beaconID}}); err == nil && b.Round > r.served {
		r.served, r.sig = b.Round, b.Signature
	}
}

// others returns the nodes that are not traced.
func (r *runner) others(list []int) []int {
	var out []int
	for _, i := range list {
		if i != r.t {
			out = append(out, i)
		}
	}
	return out
}

// try runs a step that involves the traced node: its failure is not an error once the node is dead.
func (r *runner) try(i int, f func() error) error {
	if i == r.t && !r.alive() {
		return nil
	}
	err := f()
	if err != nil && r.spec.Label != "" {
		// the traced daemon may have died inside this very call (its exit is noticed a moment later); a command on a
		// healthy node may fail because the dead one cannot be reached (the leader waits for its gossip)
		for w := 0; w < 30 && r.alive(); w++ {
			time.Sleep(100 * time.Millisecond)
		}
		if !r.alive() {
			return nil
		}
	}
	return err
}

func (r *runner) waitComplete(epoch int, nodes []int, max time.Duration) error {
	deadline := time.Now().Add(max)
	for {
		var live []int
		for _, i := range nodes {
			if i != r.t || r.alive() {
				live = append(live, i)
			}
		}
		if err := r.cl.WaitComplete(epoch, live, 300*time.Millisecond); err == nil {
			return nil
		} else if time.Now().After(deadline) {
			return err
		}
		r.poll()
	}
}

func (r *runner) arm() { _ = os.WriteFile(r.armFile, []byte("armed"), 0o644) }

// grabGroup remembers the group of an epoch as stored by a healthy node.
func (r *runner) grabGroup(epoch uint32) {
	for i := range r.cl.Nodes {
		if i == r.t {
			continue
		}
		if g, err := key.NewFileStore(r.cl.Dirs[i]+"/multibeacon", beaconID).LoadGroup(); err == nil && g != nil {
			r.groups[epoch] = g
			return
		}
	}
}

func (r *runner) script() error {
	cl := r.cl
	switch r.sc.name {
	case "dkg":
		r.arm()
		return r.firstDKG()
	case "reshare", "replace":
		if err := r.firstDKG(); err != nil {
			return err
		}
		if err := cl.WaitHead(0, 2, 60*time.Second); err != nil {
			return err
		}
		r.poll()
		r.arm()
		remaining, joining, leaving, acceptors := []int{0, 1, 2}, []int(nil), []int(nil), []int{1, 2}
		if r.sc.name == "replace" {
			remaining, joining, leaving, acceptors = []int{0, 1}, []int{3}, []int{2}, []int{1}
		}
		if err := r.try(0, func() error { return cl.ProposeReshare(0, remaining, joining, leaving, 2) }); err != nil {
			return fmt.Errorf("reshare proposal: %w", err)
		}
		for _, i := range acceptors {
			i := i
			if err := r.try(i, func() error { return cl.Accept(i) }); err != nil {
				return fmt.Errorf("accept %d: %w", i, err)
			}
		}
		for _, i := range joining {
			i := i
			gf, err := os.ReadFile(cl.Dirs[0] + "/multibeacon/" + beaconID + "/groups/drand_group.toml")
			if err != nil {
				return err
			}
			if err := r.try(i, func() error { return cl.Join(i, gf) }); err != nil {
				return fmt.Errorf("join %d: %w", i, err)
			}
		}
		r.poll()
		if err := r.try(0, func() error { return cl.Execute(0) }); err != nil {
			return fmt.Errorf("execute: %w", err)
		}
		members := append(append([]int{}, remaining...), joining...)
		if err := r.waitComplete(2, members, 60*time.Second); err != nil {
			if r.alive() || r.spec.Label == "" {
				return fmt.Errorf("resharing: %w", err)
			}
			r.res.note = "the resharing did not complete on the healthy nodes after the crash (" + err.Error() + ")"
			return nil
		}
		r.grabGroup(2)
		if r.alive() {
			// up to and past the transition (10 rounds after completion): the leaver deletes its files there
			h, _ := cl.Head(0)
			end := time.Now().Add(40 * time.Second)
			for time.Now().Before(end) && r.alive() {
				if hh, err := cl.Head(0); err == nil && hh >= h+13 {
					break
				}
				r.poll()
				time.Sleep(300 * time.Millisecond)
			}
		}
		return nil
	}
	return fmt.Errorf("unknown scenario")
}

func (r *runner) firstDKG() error {
	cl := r.cl
	if err := r.try(0, func() error { return cl.ProposeInitial(0, []int{0, 1, 2}, 2, 8*time.Second) }); err != nil {
		return fmt.Errorf("initial proposal: %w", err)
	}
	for _, i := range []int{1, 2} {
		i := i
		if err := r.try(i, func() error { return cl.Join(i, nil) }); err != nil {
			return fmt.Errorf("join %d: %w", i, err)
		}
	}
	if err := r.try(0, func() error { return cl.Execute(0) }); err != nil {
		return fmt.Errorf("execute: %w", err)
	}
	if err := r.waitComplete(1, []int{0, 1, 2}, 60*time.Second); err != nil {
		if r.alive() || r.spec.Label == "" {
			return fmt.Errorf("first DKG: %w", err)
		}
		r.res.note = "the first DKG did not complete on the healthy nodes after the crash (" + err.Error() + ")"
		return nil
	}
	r.grabGroup(1)
	if r.sc.name == "dkg" && r.alive() {
		// a few rounds of production (the first beacons are persistence operations too)
		end := time.Now().Add(25 * time.Second)
		for time.Now().Before(end) && r.alive() {
			if h, err := cl.Head(r.t); err == nil && h >= 3 {
				break
			}
			r.poll()
			time.Sleep(300 * time.Millisecond)
		}
	}
	r.poll()
	return nil
}

// ---- inspection of the crashed node's directories (on a copy, with the repository's loaders) ----

func onPoly(g *key.Group, sh *key.Share) bool {
	if g == nil || sh == nil || g.PublicKey == nil {
		return false
	}
	pub := g.PublicKey.PubPoly(g.Scheme)
	want := pub.Eval(sh.PrivateShare().I).V
	got := g.Scheme.KeyGroup.Point().Mul(sh.PrivateShare().V, nil)
	return want.Equal(got)
}

func sameCommits(a []kyber.Point, b []kyber.Point) bool {
	if len(a) != len(b) {
		return false
	}
	for i := range a {
		if !a[i].Equal(b[i]) {
			return false
		}
	}
	return true
}

func (r *runner) inspect(dir string) {
	me := r.cl.Nodes[r.t].Chains[beaconID].Pair.Public
	// DKG database
	var fin, cur *dkg.DBState
	st, err := dkg.NewDKGStore(dir)
	if err != nil {
		r.bad("dkg-db-opens", "dkg.db cannot be opened after the crash: %v", err)
	} else {
		if cur, err = st.GetCurrent(beaconID); err != nil {
			r.bad("dkg-db-decodes", "current DKG record cannot be decoded: %v", err)
		}
		if fin, err = st.GetFinished(beaconID); err != nil {
			r.bad("dkg-db-decodes", "finished DKG record cannot be decoded: %v", err)
		}
		_ = st.Close()
	}
	if fin != nil {
		switch {
		case fin.State != dkg.Complete && fin.State != dkg.Left:
			r.bad("finished-record-whole", "finished record is in state %s", fin.State)
		case fin.FinalGroup == nil:
			r.bad("finished-record-whole", "finished record of epoch %d has no group", fin.Epoch)
		case fin.FinalGroup.Find(me) != nil && fin.KeyShare == nil:
			r.bad("finished-record-whole", "finished record of epoch %d has a group that contains the node but no share", fin.Epoch)
		case fin.KeyShare != nil && !onPoly(fin.FinalGroup, fin.KeyShare):
			r.bad("finished-record-whole", "share of the finished record (epoch %d) is not on the public polynomial of its group", fin.Epoch)
		}
	}
	if cur != nil && cur.State == dkg.Complete && (fin == nil || fin.Epoch != cur.Epoch) {
		fe := "none"
		if fin != nil {
			fe = fmt.Sprint(fin.Epoch)
		}
		r.bad("completion-recorded-at-once", "current record says epoch %d is complete but the finished record is %s", cur.Epoch, fe)
	}
	r.inspectKeysWith(dir, fin)
	// chain store
	dbDir := dir + "/multibeacon/" + beaconID + "/db"
	if _, err := os.Stat(dbDir + "/" + boltdb.BoltFileName); err == nil {
		r.inspectChain(dbDir)
	} else if r.served > 0 {
		r.bad("chain-has-served-beacons", "the node served round %d but has no chain database", r.served)
	}
}

// inspectKeys judges the group and share files of a directory against its DKG database.
func (r *runner) inspectKeys(dir string) {
	var fin *dkg.DBState
	if st, err := dkg.NewDKGStore(dir); err == nil {
		fin, _ = st.GetFinished(beaconID)
		_ = st.Close()
	}
	r.inspectKeysWith(dir, fin)
}

func (r *runner) inspectKeysWith(dir string, fin *dkg.DBState) {
	// key store
	ks := key.NewFileStore(dir+"/multibeacon", beaconID)
	g, gerr := ks.LoadGroup()
	sh, serr := ks.LoadShare()
	gAbsent := g == nil && (gerr == nil || os.IsNotExist(gerr) || strings.Contains(fmt.Sprint(gerr), "no such file"))
	sAbsent := serr != nil && (os.IsNotExist(serr) || strings.Contains(fmt.Sprint(serr), "no such file"))
	switch {
	case !gAbsent && gerr != nil:
		r.bad("group-file-readable", "group file exists but cannot be loaded (torn?): %v", gerr)
	case !sAbsent && serr != nil:
		r.bad("share-file-readable", "share file exists but cannot be loaded (torn?): %v", serr)
	case gAbsent != sAbsent:
		r.bad("group-and-share-same-epoch", "group file absent=%v but share file absent=%v", gAbsent, sAbsent)
	case !gAbsent:
		if g.PublicKey == nil || !sameCommits(sh.Commits, g.PublicKey.Coefficients) || !onPoly(g, sh) {
			r.bad("group-and-share-same-epoch", "the share file does not belong to the group file (different public polynomial): a node restarted from them signs partials nobody accepts")
		}
	}
	// files vs database
	if !gAbsent && gerr == nil {
		ok := false
		var known []string
		if fin != nil && fin.FinalGroup != nil && bytes.Equal(fin.FinalGroup.Hash(), g.Hash()) {
			ok = true
		}
		finEpoch := uint32(0)
		if fin != nil {
			finEpoch = fin.Epoch
		}
		for e, pg := range r.groups {
			known = append(known, fmt.Sprintf("epoch %d %x", e, pg.Hash()[:4]))
			if (e == finEpoch || e+1 == finEpoch) && bytes.Equal(pg.Hash(), g.Hash()) {
				ok = true
			}
		}
		if fin == nil {
			r.bad("files-match-database", "a group file exists (hash %x) but the DKG database has no completed epoch", g.Hash()[:4])
		} else if !ok {
			r.bad("files-match-database", "the group file (hash %x) is neither the group of the last completed epoch %d nor of the one before (known: %v)", g.Hash()[:4], finEpoch, known)
		}
	}
}

func (r *runner) inspectChain(dbDir string) {
	defer func() {
		if p := recover(); p != nil {
			r.bad("chain-db-opens", "opening the chain database with the repository's own constructor panics: %v", p)
		}
	}()
	g := r.groups[1]
	ctx := context.Background()
	var sch *crypto.Scheme
	if g != nil {
		sch = g.Scheme
		if sch.Name == crypto.DefaultSchemeID {
			ctx = chain.SetPreviousRequiredOnContext(ctx)
		}
	}
	s, err := boltdb.NewBoltStore(ctx, fix.Logger(), dbDir)
	if err != nil {
		r.bad("chain-db-opens", "chain database cannot be opened: %v", err)
		return
	}
	defer s.Close()
	var last *common.Beacon
	n := 0
	err = s.Cursor(ctx, func(ctx context.Context, c chain.Cursor) error {
		for b, err := c.First(ctx); ; b, err = c.Next(ctx) {
			if err != nil {
				if strings.Contains(err.Error(), "no beacon") || strings.Contains(err.Error(), "not found") {
					return nil
				}
				return err
			}
			if b == nil {
				return nil
			}
			if last != nil && b.Round != last.Round+1 {
				r.bad("chain-gap-free", "round %d follows round %d in the chain database", b.Round, last.Round)
			}
			if b.Round > 0 && g != nil {
				if err := sch.VerifyBeacon(b, g.PublicKey.Key()); err != nil {
					r.bad("chain-beacons-verify", "stored beacon of round %d does not verify: %v", b.Round, err)
				}
			}
			cp := *b
			last = &cp
			n++
		}
	})
	if err != nil {
		r.bad("chain-db-reads", "scanning the chain database: %v", err)
	}
	if r.served > 0 && (last == nil || last.Round < r.served) {
		lr := uint64(0)
		if last != nil {
			lr = last.Round
		}
		r.bad("chain-has-served-beacons", "the node served round %d before the crash but its chain database ends at round %d", r.served, lr)
	}
}

func copyDir(src, dst string) error {
	out, err := exec.Command("cp", "-a", src, dst).CombinedOutput()
	if err != nil {
		return fmt.Errorf("%v: %s", err, out)
	}
	return nil
}

// restart starts the traced daemon again from its directories and judges what the property promises.
func (r *runner) restart() (up bool) {
	cl := r.cl
	if err := cl.StartNode(r.t, nil); err != nil {
		tail := ""
		if b, e := os.ReadFile(cl.Dirs[r.t] + "/stderr.log"); e == nil && len(b) > 0 {
			tail = string(b)
			if len(tail) > 500 {
				tail = tail[len(tail)-500:]
			}
		}
		r.bad("restartable", "the daemon does not come up from the directories the crash left: %v %s", err, strings.ReplaceAll(tail, "\n", " | "))
		return false
	}
	up = true
	cur, done, err := cl.Status(r.t)
	if err != nil {
		r.bad("restartable", "the restarted daemon does not answer a DKG status query: %v", err)
		return up
	}
	// liveness: if the node holds the key material of the group the others run, it catches up with them
	var ref = -1
	for i := range cl.Nodes {
		if i != r.t && cl.Nodes[i].Cmd != nil && cl.Nodes[i].Alive() {
			if _, d, err := cl.Status(i); err == nil && d == done && strings.HasPrefix(d, "Complete/") {
				ref = i
			}
		}
	}
	if ref < 0 {
		r.res.note += fmt.Sprintf(" restarted: current %s, completed %s (no healthy node at the same epoch: catching up not judged)", cur, done)
		return up
	}
	g, err := key.NewFileStore(cl.Dirs[r.t]+"/multibeacon", beaconID).LoadGroup()
	if err != nil || g == nil {
		return up // reported by the inspection
	}
	if g.Find(cl.Nodes[r.t].Chains[beaconID].Pair.Public) == nil {
		return up
	}
	h, err := cl.Head(ref)
	if err != nil {
		return up
	}
	if err := cl.WaitHead(r.t, h, 60*time.Second); err != nil {
		r.bad("resumes", "restarted with the key material of the running epoch (%s) but does not catch up with the others: %v", done, err)
		return up
	}
	if r.served > 0 {
		ctx, cancel := context.WithTimeout(context.Background(), 10*time.Second)
		defer cancel()
		b, err := cl.Nodes[r.t].Public.PublicRand(ctx, &pb.PublicRandRequest{Round: r.served, Metadata: &pb.Metadata{BeaconID: beaconID}})
		if err != nil || !bytes.Equal(b.Signature, r.sig) {
			r.bad("chain-has-served-beacons", "round %d, served before the crash, is not served identically after the restart (%v)", r.served, err)
		}
	}
	return up
}

func hasEngine(r runResult) bool {
	for _, p := range r.problems {
		if p.inv == "engine" {
			return true
		}
	}
	return false
}

func hasProblem(r runResult) bool {
	for _, p := range r.problems {
		if p.inv != "engine" {
			return true
		}
	}
	return false
}

// reproduced keeps the problems of the first run whose invariant is violated in the second run as well.
func reproduced(first, second []problem) []problem {
	var out []problem
	for _, p := range first {
		if p.inv == "engine" {
			out = append(out, p)
			continue
		}
		for _, q := range second {
			if q.inv == p.inv {
				out = append(out, p)
				break
			}
		}
	}
	return out
}

func readPoints(file string) []crashSpec {
	b, err := os.ReadFile(file)
	if err != nil {
		return nil
	}
	var out []crashSpec
	for _, l := range strings.Split(string(b), "\n") {
		l = strings.TrimSuffix(strings.TrimSpace(l), " CRASH")
		if i := strings.LastIndex(l, "#"); i > 0 {
			var n int
			fmt.Sscanf(l[i+1:], "%d", &n)
			out = append(out, crashSpec{l[:i], n})
		}
	}
	return out
}

func runOne(sc scenario, spec crashSpec) (res runResult) {
	r := &runner{sc: sc, spec: spec, t: sc.traced, groups: map[uint32]*key.Group{}}
	var cl *bench.Cluster
	var err error
	for try := 0; try < 3; try++ {
		if cl, err = bench.NewCluster(sc.nodes, beaconID, crypto.DefaultSchemeID, 1, false); err != nil {
			continue
		}
		r.cl = cl
		r.armFile = cl.Dirs[sc.traced] + "/crash.arm"
		r.logFile = cl.Dirs[sc.traced] + "/crash.log"
		env := []string{"VERIF_CRASH_ARM=" + r.armFile, "VERIF_CRASH_LOG=" + r.logFile}
		if spec.Label != "" {
			env = append(env, "VERIF_CRASH_AT="+spec.String())
		}
		err = nil
		for i := range cl.Nodes {
			var e []string
			if i == sc.traced {
				e = env
			}
			if err = cl.StartNode(i, e); err != nil {
				break
			}
		}
		if err == nil {
			break
		}
		if spec.Label != "" && !r.alive() && len(readPoints(r.logFile)) > 0 {
			err = nil // died during start-up at its crash point
			break
		}
		cl.Close()
	}
	if err != nil {
		r.res.note = "engine: " + err.Error()
		r.res.problems = append(r.res.problems, problem{"engine", err.Error()})
		return r.res
	}
	defer cl.Close()
	if err := r.script(); err != nil {
		r.res.problems = append(r.res.problems, problem{"engine", "script: " + err.Error()})
		return r.res
	}
	r.res.points = readPoints(r.logFile)
	if spec.Label == "" {
		// reference run: end with a kill anyway (the end of the run is a crash point too)
		cl.Nodes[r.t].Kill(false)
	} else if r.alive() {
		r.res.note = "the point was not reached in this run"
		return r.res
	}
	r.res.crashed = true
	time.Sleep(300 * time.Millisecond)
	snap, rm := fix.ScratchDir()
	defer rm()
	if err := copyDir(cl.Dirs[r.t], snap+"/node"); err != nil {
		r.res.problems = append(r.res.problems, problem{"engine", err.Error()})
		return r.res
	}
	// the raw state the crash left: databases are judged as they are; the group / share files are judged as the
	// restarted daemon leaves them after loading (a start-up that repairs them is fine, one that does not is not)
	r.inspect(snap + "/node")
	var deferred []problem
	kept := r.res.problems[:0:0]
	for _, p := range r.res.problems {
		if p.inv == "group-and-share-same-epoch" || p.inv == "files-match-database" || p.inv == "group-file-readable" || p.inv == "share-file-readable" {
			deferred = append(deferred, p)
		} else {
			kept = append(kept, p)
		}
	}
	r.res.problems = kept
	if !r.restart() {
		r.res.problems = append(r.res.problems, deferred...)
		return r.res
	}
	if len(deferred) > 0 {
		before := len(r.res.problems)
		snap2 := snap + "/after"
		if err := copyDir(cl.Dirs[r.t], snap2); err == nil {
			r.inspectKeys(snap2)
		}
		if len(r.res.problems) == before {
			r.res.note += fmt.Sprintf(" (the crash left %q; the restarted daemon repaired it)", deferred[0].detail)
		}
	}
	return r.res
}

// ---- c13-keystore: every crash point of the key store's own operations, old-or-new oracle ----

const keyopEnv = "VERIF_C13_KEYOP"

// keyMaterial: generations 1 and 2 are 3-of-5 groups (long encodings), generation 3 a 1-of-1 group (a shorter
// encoding saved over a longer one, as after a resharing to a lower threshold).
func keyMaterial(gen int) (*key.Pair, *key.Group, *key.Share) {
	sp := bench.Spec{Addr: "127.0.0.1:1", PeriodS: 1, Genesis: 1700000000 + int64(gen), Label: fmt.Sprintf("gen%d/", gen)}
	kind := "group"
	if gen < 3 {
		for i := 0; i < 4; i++ {
			sp.Members = append(sp.Members, bench.Member{Label: fmt.Sprintf("c13/gen%d/member%d", gen, i), Addr: fmt.Sprintf("127.0.0.1:%d", 10+i)})
		}
	} else {
		kind = "running"
	}
	ch := bench.ChainOf(bench.ChainSpec{ID: beaconID, Scheme: crypto.DefaultSchemeID, Kind: kind}, sp)
	return ch.Pair, ch.Group, ch.Share
}

var keyOps = []string{"SaveKeyPair", "SaveGroup", "SaveShare", "SelfSignAll"}

// keyopChild performs one key-store operation on a folder that holds generation-1 material (crash points armed by env).
func keyopChild(op, dir string) {
	gen := 2
	if strings.HasSuffix(op, "@3") {
		op, gen = strings.TrimSuffix(op, "@3"), 3
	}
	syscall.Umask(0) // the modes of secret files must not depend on a friendly umask
	ks := key.NewFileStore(dir, beaconID)
	kp, g, sh := keyMaterial(gen)
	var err error
	switch op {
	case "SaveKeyPair":
		err = ks.SaveKeyPair(kp)
	case "SaveGroup":
		err = ks.SaveGroup(g)
	case "SaveShare":
		err = ks.SaveShare(sh)
	case "SelfSignAll":
		err = key.SelfSignAll(fix.Logger(), dir)
	}
	if err != nil {
		fmt.Println("KEYOP-ERROR", err)
		os.Exit(3)
	}
	os.Exit(0)
}

func runKeyop(op string, spec crashSpec) (points []crashSpec, problems []problem) {
	top, rm := fix.ScratchDir()
	defer rm()
	dir := top + "/multibeacon"
	ks := key.NewFileStore(dir, beaconID)
	kp1, g1, sh1 := keyMaterial(1)
	if op == "SelfSignAll" {
		kp1.Public.Signature = nil // an identity of an older version: the operation signs and rewrites it
	}
	null, _ := os.OpenFile(os.DevNull, os.O_WRONLY, 0)
	stdout := os.Stdout
	os.Stdout = null
	e1, e2, e3 := ks.SaveKeyPair(kp1), ks.SaveGroup(g1), ks.SaveShare(sh1)
	os.Stdout = stdout
	null.Close()
	if e1 != nil || e2 != nil || e3 != nil {
		return nil, []problem{{"engine", fmt.Sprint(e1, e2, e3)}}
	}
	logf := top + "/crash.log"
	cmd := exec.Command(os.Args[0])
	cmd.Env = append(os.Environ(), keyopEnv+"="+op+"|"+dir, "VERIF_CRASH_LOG="+logf)
	if spec.Label != "" {
		cmd.Env = append(cmd.Env, "VERIF_CRASH_AT="+spec.String())
	}
	out, err := cmd.CombinedOutput()
	points = readPoints(logf)
	if spec.Label == "" {
		if err != nil {
			return points, []problem{{"engine", fmt.Sprintf("reference run of %s: %v %s", op, err, out)}}
		}
		return points, nil
	}
	if err == nil {
		return points, []problem{{"engine", "the crash point was not reached"}}
	}
	// old-or-new: every file loads, and holds generation 1 or generation 2 content
	kp2, g2, sh2 := keyMaterial(2)
	bad := func(inv, f string, a ...any) { problems = append(problems, problem{inv, fmt.Sprintf(f, a...)}) }
	if kp, err := ks.LoadKeyPair(); err != nil {
		bad("key-pair-intact", "after the crash the key pair cannot be loaded any more (the node's identity is lost): %v", err)
	} else if !kp.Key.Equal(kp1.Key) && !kp.Key.Equal(kp2.Key) {
		bad("key-pair-intact", "after the crash the private key is neither the old nor the new one")
	}
	if g, err := ks.LoadGroup(); err != nil || g == nil {
		bad("group-file-readable", "after the crash the group file cannot be loaded: %v", err)
	} else if !bytes.Equal(g.Hash(), g1.Hash()) && !bytes.Equal(g.Hash(), g2.Hash()) {
		bad("group-file-readable", "after the crash the group file is neither the old nor the new group")
	}
	if sh, err := ks.LoadShare(); err != nil {
		bad("share-file-readable", "after the crash the share file cannot be loaded: %v", err)
	} else if !sh.PrivateShare().V.Equal(sh1.PrivateShare().V) && !sh.PrivateShare().V.Equal(sh2.PrivateShare().V) {
		bad("share-file-readable", "after the crash the share is neither the old nor the new one")
	}
	// the operator (or the daemon) tries again after the crash, with other content (generation 3, shorter encodings):
	// what is then on disk must be exactly that, in files readable by their owner only
	if op == "SelfSignAll" {
		return points, problems
	}
	cmd2 := exec.Command(os.Args[0])
	cmd2.Env = append(os.Environ(), keyopEnv+"="+op+"@3|"+dir)
	if out, err := cmd2.CombinedOutput(); err != nil {
		bad("retry-after-crash", "the same operation run again after the crash fails: %v %.200s", err, out)
		return points, problems
	}
	kp3, g3, sh3 := keyMaterial(3)
	switch op {
	case "SaveKeyPair":
		if kp, err := ks.LoadKeyPair(); err != nil || !kp.Key.Equal(kp3.Key) {
			bad("retry-after-crash/round-trip", "after crash + new SaveKeyPair the key pair on disk is not the one saved: %v", err)
		}
	case "SaveGroup":
		if g, err := ks.LoadGroup(); err != nil || g == nil || !bytes.Equal(g.Hash(), g3.Hash()) {
			bad("retry-after-crash/round-trip", "after crash + new SaveGroup the group on disk is not the one saved: %v", err)
		}
	case "SaveShare":
		if sh, err := ks.LoadShare(); err != nil || !sh.PrivateShare().V.Equal(sh3.PrivateShare().V) || len(sh.Commits) != len(sh3.Commits) {
			bad("retry-after-crash/round-trip", "after crash + new SaveShare the share on disk is not the one saved: %v", err)
		}
	}
	secrets := [][]byte{}
	for _, k := range []*key.Pair{kp1, kp2, kp3} {
		b, _ := k.Key.MarshalBinary()
		secrets = append(secrets, []byte(hex.EncodeToString(b)))
	}
	for _, s := range []*key.Share{sh1, sh2, sh3} {
		b, _ := s.PrivateShare().V.MarshalBinary()
		secrets = append(secrets, []byte(hex.EncodeToString(b)))
	}
	_ = filepath.Walk(dir, func(p string, info os.FileInfo, err error) error {
		if err != nil || !info.Mode().IsRegular() {
			return nil
		}
		b, _ := os.ReadFile(p)
		for _, sec := range secrets {
			if bytes.Contains(b, sec) && info.Mode().Perm()&0o077 != 0 {
				bad("retry-after-crash/secret-file-mode", "after crash + new %s, %s holds a private key/share and has mode %04o", op, filepath.Base(p), info.Mode().Perm())
				break
			}
		}
		return nil
	})
	return points, problems
}

func partKeystore(c *vlib.Check) (runs int) {
	for _, op := range keyOps {
		pts, probs := runKeyop(op, crashSpec{})
		for _, p := range probs {
			c.EngineError("c13-keystore %s: %s", op, p.detail)
		}
		seen := map[crashSpec]bool{}
		for _, pt := range pts {
			if seen[pt] {
				continue
			}
			seen[pt] = true
			runs++
			_, probs := runKeyop(op, pt)
			for _, p := range probs {
				if p.inv == "engine" {
					c.EngineError("c13-keystore %s crash at %s: %s", op, pt, p.detail)
					continue
				}
				c.Report(fmt.Sprintf("c13/keystore/%s/%s/%s", op, pt, p.inv), fmt.Sprintf("key store operation %s over existing files, process killed before %s: %s", op, pt, p.detail),
					map[string]any{"operation": op, "crash": pt, "invariant": p.inv})
			}
		}
	}
	c.Sub("c13-keystore", map[string]any{"engine": "E3 on the key store: every crash point of SaveKeyPair / SaveGroup / SaveShare / SelfSignAll over existing files (umask 0); every file must load and be the old or the new version; then the operation is run again with other, shorter content: what is on disk is exactly that, secret files owner-only", "operations": len(keyOps), "crash_runs": runs})
	return runs
}

func main() {
	if v := os.Getenv(keyopEnv); v != "" {
		parts := strings.SplitN(v, "|", 2)
		keyopChild(parts[0], parts[1])
	}
	bench.MaybeChild()
	c := vlib.New("C13", "model_checking")
	if c.Replay != "" {
		b, _ := os.ReadFile(c.Replay)
		fmt.Printf("replay file:\n%s\n", b)
		os.Exit(0)
	}
	scenarios := []scenario{
		{"dkg", 3, 1, "member"},
		{"reshare", 3, 1, "member"},
		{"dkg", 3, 0, "leader"},
		{"reshare", 3, 0, "leader"},
		{"replace", 4, 2, "leaver"},
		{"replace", 4, 3, "joiner"},
	}
	if c.Quick() {
		scenarios = scenarios[:2]
	}
	ksRuns := partKeystore(c)
	deadline := c.Deadline(14*time.Minute, 3*time.Hour)
	par := 5
	if c.Workers < 10 {
		par = 2
	}
	type job struct {
		sc   scenario
		spec crashSpec
	}
	var jobs []job
	var mu sync.Mutex
	total, reached, capped := 0, 0, false
	reruns := 0
	pointsPer := map[string]int{}
	// reference runs
	var wg sync.WaitGroup
	sem := make(chan struct{}, par)
	for _, sc := range scenarios {
		wg.Add(1)
		sem <- struct{}{}
		go func(sc scenario) {
			defer wg.Done()
			defer func() { <-sem }()
			res := runOne(sc, crashSpec{})
			for attempt := 0; attempt < 2 && hasEngine(res); attempt++ {
				res = runOne(sc, crashSpec{})
			}
			tag := sc.name + "/" + sc.role
			for _, p := range res.problems {
				if p.inv == "engine" {
					c.EngineError("c13 reference run %s: %s", tag, p.detail)
					return
				}
				c.Report(fmt.Sprintf("c13/%s/end-of-run/%s", tag, p.inv), fmt.Sprintf("%s, daemon killed at the end of the scenario: %s", tag, p.detail), map[string]any{"scenario": sc.name, "role": sc.role, "crash": "end of run", "invariant": p.inv})
			}
			seen := map[crashSpec]bool{}
			mu.Lock()
			defer mu.Unlock()
			for _, p := range res.points {
				// production writes one beacon per second for as long as the run lasts: three occurrences of a beacon Put stand for the rest
				if strings.Contains(p.Label, "Store.Put") && p.Occ > 3 {
					continue
				}
				if !seen[p] {
					seen[p] = true
					jobs = append(jobs, job{sc, p})
					pointsPer[tag]++
				}
			}
		}(sc)
	}
	wg.Wait()
	sort.SliceStable(jobs, func(i, j int) bool { return jobs[i].sc.name+jobs[i].sc.role < jobs[j].sc.name+jobs[j].sc.role })
	fmt.Printf("c13: %d crash points over %d scenario roles: %v\n", len(jobs), len(scenarios), pointsPer)
	for _, j := range jobs {
		if time.Now().After(deadline) {
			capped = true
			break
		}
		wg.Add(1)
		sem <- struct{}{}
		go func(j job) {
			defer wg.Done()
			defer func() { <-sem }()
			res := runOne(j.sc, j.spec)
			for attempt := 0; attempt < 2 && hasEngine(res); attempt++ {
				res = runOne(j.sc, j.spec) // the scenario itself did not run through (ports, load): once more
			}
			if hasProblem(res) {
				// real processes, real time: a finding must reproduce on a second run of the same crash point before it is
				// reported (a loaded machine can make a node miss a generous deadline once)
				again := runOne(j.sc, j.spec)
				res.problems = reproduced(res.problems, again.problems)
				mu.Lock()
				reruns++
				mu.Unlock()
			}
			tag := j.sc.name + "/" + j.sc.role
			mu.Lock()
			total++
			if res.crashed {
				reached++
			}
			mu.Unlock()
			for _, p := range res.problems {
				if p.inv == "engine" {
					c.EngineError("c13 %s crash at %s: %s", tag, j.spec, p.detail)
					continue
				}
				c.Report(fmt.Sprintf("c13/%s/%s/%s", tag, j.spec, p.inv), fmt.Sprintf("%s, daemon killed before %s: %s %s", tag, j.spec, p.detail, res.note),
					map[string]any{"scenario": j.sc.name, "role": j.sc.role, "crash": j.spec, "invariant": p.inv, "detail": p.detail})
			}
			if os.Getenv("VERIF_C13_TRACE") != "" {
				fmt.Printf("trace: %-16s %-70s crashed=%v problems=%d %s\n", tag, j.spec, res.crashed, len(res.problems), res.note)
			}
		}(j)
	}
	wg.Wait()
	c.Count("states", int64(reached+len(scenarios)))
	c.Count("transitions", int64(total+len(scenarios)))
	c.Count("traces", int64(total+len(scenarios)))
	c.Count("evaluations", int64(reached+len(scenarios)))
	c.Count("distinct", int64(reached))
	c.Count("keystore_crash_runs", int64(ksRuns))
	c.Count("crash_runs_repeated_for_confirmation", int64(reruns))
	c.Count("crash_points", int64(len(jobs)))
	c.Count("crash_points_reached", int64(reached))
	c.Exhaustive(!capped && reached == len(jobs))
	pp := map[string]any{}
	for k, v := range pointsPer {
		pp[k] = v
	}
	c.Sub("c13-crash", map[string]any{"engine": "E3 crash-point enumeration on real daemon processes (SIGKILL at instrumented persistence operations)", "scenario_roles": len(scenarios),
		"points_per_scenario_role": pp, "crash_runs": total, "crashes_delivered": reached, "capped": capped})
	c.Assume("a crash is the death of the process (SIGKILL): what completed system calls wrote survives; power loss (lost page cache) is outside the property as stated",
		"a bbolt transaction is atomic under a process crash (the property's own mechanism: one transaction per beacon / per DKG completion); crash points sit before every transaction and before / in the middle of every file write of the instrumented packages",
		"crashing before operation k+1 is crashing after operation k; the end of each scenario is a crash point as well",
		"beacon production repeats one operation per second: its first three occurrences per run are enumerated",
		"catching up after the restart is judged only when the restarted node holds the key material of the epoch the healthy nodes run (a node that missed a DKG needs a new one by design)")
	_ = hex.EncodeToString
	c.Finish("one crash run = one real scenario with the traced daemon killed at one (point, occurrence); oracle: DKG database decodes and its completed record is one whole epoch, group file and share file load and belong to one epoch which is the database's last completed one or the one before, chain store gap-free / verifying / containing what was served, daemon restarts and catches up")
}
