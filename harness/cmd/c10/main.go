// c10 — property C10: chain sync stores only verified beacons and converges when an honest peer exists.
//
// c10-sync (engine E1): the real SyncManager (Run loop, Sync, tryNode) on the real participant store stack under
// the controlled scheduler; peers are scripted per identity (honest-ahead, behind, refusing, stalling, closing
// early, bad or empty signature at position j, skipped / repeated / regressing rounds, foreign beacon id,
// valid beacons with a gap, beacons of another chain). All multisets of peers (size <=2 quick, <=3 thorough)
// x every contact order (the code's random permutation is an explorer choice, enumerated completely) x
// starting heights x targets (a round, beyond the peers' head, follow) x chained/unchained; the node re-issues
// its request every period like the beacon loop does.
// c10-check (engine E2): see check.go.
package main

import (
	"fmt"
	"time"

	"github.com/drand/drand/v2/crypto"
	"github.com/drand/drand/v2/verifharness/bnet"
	"github.com/drand/drand/v2/verifharness/vlib"
	vrt "verif.local/vrt"
	"verif.local/vrt/explore"
)

var behaviours = []string{"honest", "behind", "refuse", "stall", "close@1", "badsig@0", "badsig@1", "emptysig@1", "skip@1", "repeat@1", "regress@1", "foreignid", "validgap", "wrongchain", "close@0"}

func multisets(maxSize int) [][]string {
	var out [][]string
	var rec func(start int, cur []string)
	rec = func(start int, cur []string) {
		if len(cur) > 0 {
			out = append(out, append([]string{}, cur...))
		}
		if len(cur) == maxSize {
			return
		}
		for i := start; i < len(behaviours); i++ {
			rec(i, append(cur, behaviours[i]))
		}
	}
	rec(0, nil)
	return out
}

// followCases: a node that follows a chain (no append-only layer in its store stack) against peers that replay old rounds.
func followCases() []bnet.SyncCase {
	var cs []bnet.SyncCase
	for _, first := range []string{"forgedreplay@0", "forgedreplay@1", "genuinereplay@1", "regress@1", "repeat@1", "badsig@1", "skip@1"} {
		for _, rest := range [][]string{nil, {"honest"}, {"close@1"}} {
			for _, h0 := range []uint64{0, 2} {
				for _, tgt := range []uint64{h0 + 3, 0} {
					cs = append(cs, bnet.SyncCase{H0: h0, Target: tgt, Peers: append([]string{first}, rest...), Height: 5})
				}
			}
		}
	}
	return cs
}

func cases(maxSize int, quick bool) []bnet.SyncCase {
	var cs []bnet.SyncCase
	if maxSize >= 1 {
		// one failing database write (first round of the sync, a middle one, the target) with honest peers: the sync is
		// retried and converges
		for _, peers := range [][]string{{"honest"}, {"honest", "honest"}} {
			for _, fw := range []uint64{3, 4, 5} {
				cs = append(cs, bnet.SyncCase{H0: 2, Target: 5, Peers: peers, Height: 5, FailWrite: fw})
				cs = append(cs, bnet.SyncCase{H0: 2, Target: 0, Peers: peers, Height: 5, FailWrite: fw})
			}
		}
	}
	for _, ms := range multisets(maxSize) {
		for _, h0 := range []uint64{0, 2} {
			for _, tgt := range []uint64{h0 + 1, h0 + 3, 0} {
				if quick && len(ms) == maxSize && maxSize > 1 && tgt == h0+1 {
					continue
				}
				cs = append(cs, bnet.SyncCase{H0: h0, Target: tgt, Peers: ms, Height: 5})
			}
		}
	}
	return cs
}

func run(sm *bnet.SyncSim, devs []vrt.Dev, labels bool) *explore.Exec {
	return sm.Judge(sm.Run(devs, labels), "c10/sync")
}

func main() {
	c := vlib.New("C10", "model_checking")
	genesis := vrt.Epoch.Add(2 * time.Second).Unix()
	type job struct {
		scheme string
		be     string
		size   int
		bound  int
		only   func(bnet.SyncCase) bool
	}
	withHonest := func(c bnet.SyncCase) bool {
		for _, p := range c.Peers {
			if p == "honest" {
				return true
			}
		}
		return false
	}
	var js []job
	if c.Quick() {
		js = []job{
			{crypto.DefaultSchemeID, "memdb", 2, 0, nil},
			{crypto.UnchainedSchemeID, "memdb", 2, 0, nil},
			{crypto.DefaultSchemeID, "memdb", 3, 0, withHonest},
			{crypto.DefaultSchemeID, "memdb", 1, 1, nil},
			{crypto.UnchainedSchemeID, "bolt-trimmed", 1, 0, nil},
		}
	} else {
		js = []job{
			{crypto.DefaultSchemeID, "memdb", 3, 0, nil},
			{crypto.UnchainedSchemeID, "memdb", 3, 0, nil},
			{crypto.DefaultSchemeID, "memdb", 2, 1, nil},
			{crypto.UnchainedSchemeID, "memdb", 2, 1, nil},
			{crypto.SigsOnG1ID, "memdb", 2, 0, nil},
			{crypto.DefaultSchemeID, "bolt-trimmed", 2, 0, nil},
			{crypto.UnchainedSchemeID, "bolt-untrimmed", 2, 0, nil},
			{crypto.DefaultSchemeID, "memdb", 1, 2, nil},
		}
	}
	var jobs []vlib.E1Job
	total := 0
	for _, j := range js {
		k := bnet.NewKeys(j.scheme, 3, 2, 3*time.Second, genesis)
		f := bnet.NewKeys(j.scheme, 3, 2, 3*time.Second, genesis)
		all := cases(j.size, c.Quick())
		var cs []bnet.SyncCase
		for _, x := range all {
			if j.only == nil || j.only(x) {
				cs = append(cs, x)
			}
		}
		total += len(cs)
		sm := &bnet.SyncSim{Keys: k, Foreign: f, Backend: j.be, Cases: cs, Periods: 5}
		jobs = append(jobs, vlib.E1Job{Name: fmt.Sprintf("c10-sync/%s/%s/peers<=%d/cases=%d", j.scheme, j.be, j.size, len(cs)), Bound: j.bound,
			Run: func(devs []vrt.Dev) *explore.Exec { return run(sm, devs, false) }, Labeled: func(devs []vrt.Dev) *explore.Exec { return run(sm, devs, true) },
			Post: sm.Post("c10/sync")})
	}
	// c10-encoding: peers that send every genuine signature in another byte encoding (trailing bytes, a coordinate
	// plus the field modulus): what is stored must be the chain's bytes (any two honest nodes hold byte-identical
	// beacons, the published randomness is the hash of these bytes)
	for _, scID := range crypto.ListSchemes() {
		k := bnet.NewKeys(scID, 3, 2, 3*time.Second, genesis)
		f := bnet.NewKeys(scID, 3, 2, 3*time.Second, genesis)
		var cs []bnet.SyncCase
		for _, first := range []string{"trailing@0", "trailing@2", "xplusp@0", "xplusp@1"} {
			for _, rest := range [][]string{nil, {"honest"}} {
				for _, h0 := range []uint64{0, 2} {
					cs = append(cs, bnet.SyncCase{H0: h0, Target: 0, Peers: append([]string{first}, rest...), Height: 5})
				}
			}
		}
		total += len(cs)
		for _, follow := range []bool{false, true} {
			be := "memdb"
			if follow {
				be = "bolt-trimmed"
			}
			sm := &bnet.SyncSim{Keys: k, Foreign: f, Backend: be, Cases: cs, Periods: 3, Follow: follow}
			jobs = append(jobs, vlib.E1Job{Name: fmt.Sprintf("c10-encoding/%s/%s/follow=%v/cases=%d", scID, be, follow, len(cs)), Bound: 0,
				Run: func(devs []vrt.Dev) *explore.Exec { return run(sm, devs, false) }, Labeled: func(devs []vrt.Dev) *explore.Exec { return run(sm, devs, true) },
				Post: sm.Post("c10/sync")})
		}
	}
	// c10-follow
	fschemes := []string{crypto.DefaultSchemeID, crypto.UnchainedSchemeID}
	fbackends := []string{"bolt-trimmed"}
	if !c.Quick() {
		fschemes = append(fschemes, crypto.SigsOnG1ID)
		fbackends = []string{"bolt-trimmed", "bolt-untrimmed", "memdb"}
	}
	for _, scID := range fschemes {
		for _, be := range fbackends {
			k := bnet.NewKeys(scID, 3, 2, 3*time.Second, genesis)
			f := bnet.NewKeys(scID, 3, 2, 3*time.Second, genesis)
			cs := followCases()
			total += len(cs)
			sm := &bnet.SyncSim{Keys: k, Foreign: f, Backend: be, Cases: cs, Periods: 3, Follow: true}
			bound := 0
			if !c.Quick() && be == "bolt-trimmed" {
				bound = 1
			}
			jobs = append(jobs, vlib.E1Job{Name: fmt.Sprintf("c10-follow/%s/%s/cases=%d", scID, be, len(cs)), Bound: bound,
				Run:     func(devs []vrt.Dev) *explore.Exec { return sm.Judge(sm.Run(devs, false), "c10/follow") },
				Labeled: func(devs []vrt.Dev) *explore.Exec { return sm.Judge(sm.Run(devs, true), "c10/follow") },
				Post:    sm.Post("c10/follow")})
		}
	}
	c.Count("sync_cases", int64(total))
	c.E1Batch(jobs, time.Until(c.DeadlineIn(120*time.Second, 30*time.Minute)))
	checkCheck(c)
	c.Assume("peers are scripted streams built from a harness-generated valid chain (and a second chain under another key for 'wrongchain'); an honest server keeps its stream open after the last stored beacon",
		"the peer order chosen by rand.Perm in SyncManager.Sync is an explorer choice enumerated completely (cost 0); 'eventually converges' is decided as: with fail-fast bad peers every execution reaches the goal, with stalling peers some explored order reaches it and a fresh attempt is made after the expiry",
		"follow mode through the control API (StartFollowChain) is exercised by the daemon-bench checks")
	c.Finish("one case = one execution of the real SyncManager for one (peer multiset, height, target) case under one contact order and schedule; distinct = distinct (case, head, attempts) outcomes")
}
