package main

import (
	"github.com/drand/drand/v2/verifharness/repairchk"
	"github.com/drand/drand/v2/verifharness/vlib"
)

// checkCheck is c10-check: see package repairchk.
func checkCheck(c *vlib.Check) { repairchk.Run(c, "c10/check", "c10-check") }
