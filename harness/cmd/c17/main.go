// c17 — property C17: chain hash and group hash commit to exactly the parameters they identify.
//
// Exhaustive shape enumeration: 5 schemes x groups of 1..4 nodes (thorough: ..6) x {explicit seed, no seed} x 3 beacon
// ids x every single-field perturbation x three encoding paths (group file TOML, protobuf, JSON) x all node orders.
package main

import (
	"bytes"
	"encoding/json"
	"fmt"
	"os"
	"path/filepath"
	"strings"
	"time"

	"github.com/drand/drand/v2/common"
	"github.com/drand/drand/v2/common/chain"
	"github.com/drand/drand/v2/common/key"
	"github.com/drand/drand/v2/crypto"
	proto "github.com/drand/drand/v2/protobuf/drand"
	"github.com/drand/drand/v2/verifharness/fix"
	"github.com/drand/drand/v2/verifharness/gen"
	"github.com/drand/drand/v2/verifharness/vlib"
)

var c *vlib.Check
var evals, distinct int64

func bad(fp, format string, a ...any) {
	c.Report("c17/"+fp, fmt.Sprintf(format, a...), map[string]any{"case": fmt.Sprintf(format, a...)})
}

func infoPaths(g *key.Group, dir string, tag string) map[string]*chain.Info {
	out := map[string]*chain.Info{}
	out["direct"] = chain.NewChainInfo(g)
	// group file path
	p := filepath.Join(dir, "group.toml")
	if err := key.Save(p, g, false); err != nil {
		bad("encode-failed", "%s: saving the group file failed: %v", tag, err)
		return out
	}
	g2 := new(key.Group)
	if err := key.Load(p, g2); err != nil {
		bad("decode-failed", "%s: loading the group file failed: %v", tag, err)
	} else {
		out["group-file"] = chain.NewChainInfo(g2)
	}
	// protobuf
	pi, err := chain.InfoFromProto(out["direct"].ToProto(nil))
	if err != nil {
		bad("decode-failed", "%s: InfoFromProto(ToProto) failed: %v", tag, err)
	} else {
		out["protobuf"] = pi
	}
	// group protobuf -> info
	gp, err := key.GroupFromProto(g.ToProto(common.GetAppVersion()), nil)
	if err != nil {
		bad("decode-failed", "%s: GroupFromProto(ToProto) failed: %v", tag, err)
	} else {
		out["group-protobuf"] = chain.NewChainInfo(gp)
	}
	// JSON
	b, err := json.Marshal(out["direct"])
	if err != nil {
		bad("encode-failed", "%s: chain info MarshalJSON failed: %v", tag, err)
	} else {
		ji := new(chain.Info)
		if err := json.Unmarshal(b, ji); err != nil {
			bad("decode-failed", "%s: chain info UnmarshalJSON of its own encoding failed: %v (%s)", tag, err, b)
		} else {
			out["json"] = ji
		}
		// a chain_hash that does not match the fields must be rejected
		var m map[string]any
		_ = json.Unmarshal(b, &m)
		for _, field := range []string{"period", "genesis_time", "genesis_seed", "beacon_id"} {
			mm := map[string]any{}
			for k, v := range m {
				mm[k] = v
			}
			switch field {
			case "period":
				mm[field] = m[field].(float64) + 1
			case "genesis_time":
				mm[field] = m[field].(float64) + 1
			case "genesis_seed":
				s, _ := m[field].(string)
				if len(s) == 0 {
					mm[field] = "00"
				} else {
					mm[field] = s[:len(s)-1] + map[bool]string{true: "0", false: "1"}[s[len(s)-1] == '1']
				}
			case "beacon_id":
				mm[field] = m[field].(string) + "x"
			}
			tb, _ := json.Marshal(mm)
			evals++
			if err := json.Unmarshal(tb, new(chain.Info)); err == nil {
				bad("json-mismatch-accepted", "%s: chain info JSON whose %s was altered (embedded chain_hash no longer matches) was accepted", tag, field)
			}
		}
	}
	return out
}

func main() {
	c = vlib.New("C17", "exploration")
	if c.Replay != "" {
		fmt.Println("replay: the failing case is written out in the replay file")
		os.Exit(0)
	}
	dir, rm := fix.ScratchDir()
	defer rm()
	maxN := 4
	if !c.Quick() {
		maxN = 6
	}
	samples := 0
	for _, scID := range crypto.ListSchemes() {
		for n := 1; n <= maxN; n++ {
			t := key.MinimumT(n)
			m := gen.NewMaterial(scID, n, t)
			other := gen.NewMaterial(scID, n, t)
			for _, id := range []string{"", "default", "quicknet-x"} {
				for _, seeded := range []bool{true, false} {
					base := gen.GroupOpts{ID: id, Period: 30 * time.Second, Catchup: 5 * time.Second, Genesis: 1600000000, Transition: 0}
					if seeded {
						base.Seed = bytes.Repeat([]byte{0xab}, 32)
					}
					tag := fmt.Sprintf("%s n=%d id=%q seeded=%v", scID, n, id, seeded)
					g := m.Group(base)
					paths := infoPaths(g, dir, tag)
					ref := paths["direct"].Hash()
					distinct++
					for name, inf := range paths {
						evals++
						if !bytes.Equal(inf.Hash(), ref) {
							bad("paths-disagree", "%s: chain hash through the %s path is %x, directly from the group it is %x", tag, name, inf.Hash()[:6], ref[:6])
						}
					}
					if samples < 2 {
						samples++
						c.Sample(map[string]any{"case": tag, "chain_hash": fmt.Sprintf("%x", ref), "paths": len(paths)})
					}
					// calling again on the same object (after the group has been encoded) must not change the hash
					evals++
					if h2 := chain.NewChainInfo(g).Hash(); !bytes.Equal(h2, ref) {
						bad("hash-unstable", "%s: the chain hash of one group object changed between two calls", tag)
					}
					// "" and "default" identify the same chain
					if id == "" {
						o := base
						o.ID = "default"
						evals++
						if !bytes.Equal(chain.NewChainInfo(m.Group(o)).Hash(), ref) {
							bad("default-id", "%s: chain hash differs between beacon id \"\" and \"default\"", tag)
						}
					}
					// single-field perturbations change the chain hash
					pert := map[string]func(o *gen.GroupOpts){
						"period+1s":  func(o *gen.GroupOpts) { o.Period += time.Second },
						"period-1s":  func(o *gen.GroupOpts) { o.Period -= time.Second },
						"genesis+1":  func(o *gen.GroupOpts) { o.Genesis++ },
						"genesis-1":  func(o *gen.GroupOpts) { o.Genesis-- },
						"id-changed": func(o *gen.GroupOpts) { o.ID = o.ID + "y" },
					}
					if seeded {
						pert["seed-bitflip"] = func(o *gen.GroupOpts) { o.Seed = append([]byte{}, o.Seed...); o.Seed[7] ^= 1 }
						pert["seed-longer"] = func(o *gen.GroupOpts) { o.Seed = append(append([]byte{}, o.Seed...), 0) }
					}
					for pn, f := range pert {
						o := base
						f(&o)
						evals++
						if bytes.Equal(chain.NewChainInfo(m.Group(o)).Hash(), ref) {
							bad("perturbation-not-reflected", "%s: chain hash unchanged after %s", tag, pn)
						}
					}
					// the hash is a function of the fields, not of the value's history: an Info that has been hashed (and
					// encoded) once and is then changed, in place or through a copy, hashes and encodes as the changed one
					{
						inPlace := map[string]func(i *chain.Info){
							"period":  func(i *chain.Info) { i.Period += time.Second },
							"genesis": func(i *chain.Info) { i.GenesisTime++ },
							"seed":    func(i *chain.Info) { i.GenesisSeed = append(append([]byte{}, i.GenesisSeed...), 1) },
							"id":      func(i *chain.Info) { i.ID = i.ID + "y" },
							"key":     func(i *chain.Info) { i.PublicKey = other.Commits[0] },
						}
						for pn, f := range inPlace {
							info := chain.NewChainInfo(m.Group(base))
							h0 := append([]byte{}, info.Hash()...)
							_, _ = json.Marshal(info)
							_ = info.ToProto(nil)
							cp := *info
							f(info)
							f(&cp)
							fresh := chain.NewChainInfo(m.Group(base))
							f(fresh)
							evals += 3
							if bytes.Equal(info.Hash(), h0) || !bytes.Equal(info.Hash(), fresh.Hash()) {
								bad("stale-hash-after-modification", "%s: an Info hashed once and then changed in %s keeps its old chain hash", tag, pn)
							}
							if !bytes.Equal(cp.Hash(), fresh.Hash()) {
								bad("stale-hash-after-modification", "%s: a copy of a hashed Info changed in %s does not hash like a fresh Info with the same fields", tag, pn)
							}
							if pk := info.ToProto(nil); !bytes.Equal(pk.Hash, fresh.Hash()) {
								bad("stale-hash-after-modification", "%s: protobuf packet of an Info changed in %s carries a hash that does not match its fields", tag, pn)
							}
							if b, err := json.Marshal(info); err == nil {
								var back chain.Info
								if err := json.Unmarshal(b, &back); err != nil {
									bad("stale-hash-after-modification", "%s: JSON of an Info changed in %s is rejected by the decoder: %v", tag, pn, err)
								}
							}
						}
					}
					// another distributed key
					{
						g2 := m.Group(base)
						g2.PublicKey = &key.DistPublic{Coefficients: other.Commits}
						evals++
						if bytes.Equal(chain.NewChainInfo(g2).Hash(), ref) {
							bad("perturbation-not-reflected", "%s: chain hash unchanged after replacing the distributed public key", tag)
						}
					}
					// membership changes (seeded groups only: without a seed the seed IS the group hash) do not
					if seeded && n > 1 {
						g2 := m.Group(base)
						g2.Nodes = g2.Nodes[:n-1]
						evals++
						if !bytes.Equal(chain.NewChainInfo(g2).Hash(), ref) {
							bad("membership-in-chain-hash", "%s: chain hash changed when a member was removed", tag)
						}
						g3 := m.Group(base)
						g3.Nodes[0].Identity = other.Pairs[0].Public
						evals++
						if !bytes.Equal(chain.NewChainInfo(g3).Hash(), ref) {
							bad("membership-in-chain-hash", "%s: chain hash changed when a member's key changed", tag)
						}
					}
					// ---- group hash ----
					gh := m.Group(base).Hash()
					perms := gen.Perms(n)
					for _, pm := range perms {
						o := base
						o.Order = pm
						evals++
						if h := m.Group(o).Hash(); !bytes.Equal(h, gh) {
							bad("group-hash-order", "%s: group hash depends on the node listing order (order %v)", tag, pm)
							break
						}
					}
					gp := map[string]func(g *key.Group){
						"threshold":       func(g *key.Group) { g.Threshold++ },
						"genesis-time":    func(g *key.Group) { g.GenesisTime++ },
						"transition-time": func(g *key.Group) { g.TransitionTime = 1700000000 },
						"id":              func(g *key.Group) { g.ID = g.ID + "z" },
						"member-key":      func(g *key.Group) { g.Nodes[n-1].Identity = other.Pairs[n-1].Public },
						"member-index":    func(g *key.Group) { g.Nodes[n-1].Index += 7 },
						"coefficient-0":   func(g *key.Group) { g.PublicKey.Coefficients[0] = other.Commits[0] },
						"coefficient-last": func(g *key.Group) {
							g.PublicKey.Coefficients[len(g.PublicKey.Coefficients)-1] = other.Commits[len(other.Commits)-1]
						},
					}
					for pn, f := range gp {
						g2 := m.Group(base)
						f(g2)
						evals++
						if bytes.Equal(g2.Hash(), gh) {
							bad("group-perturbation-not-reflected", "%s: group hash unchanged after changing %s", tag, pn)
						}
					}
					if id == "" {
						g2 := m.Group(base)
						g2.ID = "default"
						evals++
						if !bytes.Equal(g2.Hash(), gh) {
							bad("default-id", "%s: group hash differs between beacon id \"\" and \"default\"", tag)
						}
					}
				}
			}
		}
	}
	_ = proto.Metadata{}
	_ = strings.TrimSpace
	c.Count("evaluations", evals)
	c.Count("distinct", distinct)
	c.Exhaustive(true)
	c.Sub("c17-hash", map[string]any{"engine": "E2 exhaustive shape enumeration", "schemes": len(crypto.ListSchemes()), "max_nodes": maxN, "hash_comparisons": evals, "base_groups": distinct})
	c.Assume("key material is drawn once per run; shapes (scheme, size, optional fields, ids, perturbed field, node order, encoding path) are enumerated completely")
	c.Finish("one case = one (group shape, perturbation or encoding path or node order) hash comparison; distinct = base group shapes")
}
