// c14b — second part of the C14 check (and of C01's HTTP clause): the HTTP handler's "wait for the next round"
// machinery under the controlled scheduler.
//
// Engine E1 on the real handler/http package (instrumented: its watcher goroutine, its mutexes, its channels, its
// timers): requests for the round about to be produced park a channel in the handler's pending list; the watcher
// goroutine hands the new round to every parked channel; a client that disconnects removes and closes its channel.
// All interleavings (within the deviation bound, to saturation for the small configurations) of
//
//	{the watcher, the producer of new rounds, k waiting requests of which some are cancelled at an arbitrary moment,
//	 a later request}
//
// are enumerated. Oracle: no goroutine of the handler panics (a panic in the watcher kills the daemon), every
// request returns, a request that was not cancelled and is answered 200 carries exactly the round it asked for, and
// after the scenario a fresh request is still served (the watcher is alive, no lock is left held).
package main

import (
	"context"
	"encoding/json"
	"fmt"
	"io"
	"net/http/httptest"
	"os"
	"strings"
	"time"

	"github.com/drand/drand/v2/common"
	"github.com/drand/drand/v2/common/chain"
	"github.com/drand/drand/v2/common/client"
	dlog "github.com/drand/drand/v2/common/log"
	"github.com/drand/drand/v2/crypto"
	dhttp "github.com/drand/drand/v2/handler/http"
	"github.com/drand/drand/v2/verifharness/bnet"
	"github.com/drand/drand/v2/verifharness/fix"
	"github.com/drand/drand/v2/verifharness/vlib"
	vrt "verif.local/vrt"
	"verif.local/vrt/explore"
)

type cfg struct {
	Waiters  int   `json:"waiters"`   // requests for round L+1 issued while the head is L
	Cancel   []int `json:"cancelled"` // indices of waiters whose client disconnects
	Produce  int   `json:"produce"`   // new rounds produced during the run
	Bound    int   `json:"bound"`
	LateLook bool  `json:"late_request"`     // one more request for L+1 after it was produced
	Early    bool  `json:"early_disconnect"` // the clients disconnect long before the round is due (else: around its production)
	// DropWatch > 0: the node stores round L+DropWatch but the watch stream does not carry it (the daemon's stream proxy
	// drops a beacon when its one-slot buffer is full, e.g. during a burst of stores); the next round is delivered
	DropWatch int `json:"watch_stream_drops"`
}

func (c cfg) String() string {
	s := fmt.Sprintf("waiters=%d/cancelled=%v/produce=%d/late=%v/early=%v", c.Waiters, c.Cancel, c.Produce, c.LateLook, c.Early)
	if c.DropWatch > 0 {
		s += fmt.Sprintf("/watch-drops=L+%d", c.DropWatch)
	}
	return s
}

type res struct {
	round uint64
	sig   []byte
}

func (r *res) GetRound() uint64      { return r.round }
func (r *res) GetRandomness() []byte { return crypto.RandomnessFromSignature(r.sig) }
func (r *res) GetSignature() []byte  { return r.sig }
func (r *res) MarshalJSON() ([]byte, error) {
	return json.Marshal(map[string]any{"round": r.round, "signature": fmt.Sprintf("%x", r.sig)})
}

// mock of the node-local client the daemon hands to the HTTP handler
type mockClient struct {
	k       *bnet.Keys
	head    uint64
	watches []chan client.Result
	info    *chain.Info
}

func (m *mockClient) result(r uint64) *res { return &res{round: r, sig: m.k.RefChain(r)[r].Signature} }

func (m *mockClient) Get(_ context.Context, round uint64) (client.Result, error) {
	if round == 0 {
		round = m.head
	}
	if round > m.head {
		return nil, fmt.Errorf("round %d not produced yet", round)
	}
	return m.result(round), nil
}

func (m *mockClient) Watch(ctx context.Context) <-chan client.Result {
	ch := make(chan client.Result, 8)
	m.watches = append(m.watches, ch)
	vrt.Logf("client.Watch #%d", len(m.watches))
	return ch
}
func (m *mockClient) Info(context.Context) (*chain.Info, error) { return m.info, nil }
func (m *mockClient) RoundAt(t time.Time) uint64 {
	return common.CurrentRound(t.Unix(), m.info.Period, m.info.GenesisTime)
}
func (m *mockClient) Close() error { return nil }

type reqResult struct {
	code      int
	body      string
	done      bool
	cancelled bool
}

const L = 3 // head when the scenario starts

func runOne(k *bnet.Keys, c cfg, devs []vrt.Dev, labels bool) *explore.Exec {
	k.RefChain(L + 4)
	info := chain.NewChainInfo(k.Group())
	var results []*reqResult
	var late, after *reqResult
	start := time.Unix(common.TimeOfRound(k.Period, k.Genesis, L), 0).Add(200 * time.Millisecond)
	s := vrt.Run(vrt.Options{Devs: devs, MaxSteps: 200000, Labels: labels, Watchdog: 60 * time.Second, Start: start, Until: start.Add(4 * k.Period)}, func() {
		ctx, stop := context.WithCancel(dlog.ToContext(context.Background(), fix.Logger()))
		defer stop()
		h, err := dhttp.New(ctx, "verif")
		if err != nil {
			panic(err)
		}
		mc := &mockClient{k: k, head: L, info: info}
		bh := h.RegisterNewBeaconHandler(mc, fmt.Sprintf("%x", info.Hash()))
		h.RegisterDefaultBeaconHandler(bh)
		serve := func(ctx context.Context, path string) *reqResult {
			rr := &reqResult{}
			rec := httptest.NewRecorder()
			req := httptest.NewRequest("GET", path, nil).WithContext(ctx)
			h.GetHTTPHandler().ServeHTTP(rec, req)
			b, _ := io.ReadAll(rec.Result().Body)
			rr.code, rr.body, rr.done = rec.Code, string(b), true
			return rr
		}
		clk := &vrt.Clock{}
		// a first request starts the watcher; the node then produces round L, which tells the handler where the head is
		first := serve(ctx, fmt.Sprintf("/public/%d", L))
		if first.code != 200 {
			panic(fmt.Sprintf("set-up: request for the head answered %d", first.code))
		}
		vrt.BlockUntil(func() bool { return len(mc.watches) > 0 })
		wch := mc.watches[0]
		r0 := client.Result(mc.result(L))
		vrt.Send(wch, func() { wch <- r0 })
		vrt.WaitIdle()
		// waiters for the round about to be produced
		results = make([]*reqResult, c.Waiters)
		cancels := make([]context.CancelFunc, c.Waiters)
		for i := 0; i < c.Waiters; i++ {
			i := i
			rctx, cancel := context.WithCancel(ctx)
			cancels[i] = cancel
			results[i] = &reqResult{}
			vrt.GoNamed(fmt.Sprintf("request-%d", i), func() {
				r := serve(rctx, fmt.Sprintf("/public/%d", L+1))
				r.cancelled = results[i].cancelled
				*results[i] = *r
			})
		}
		// clients that disconnect, each at a moment of the scheduler's choosing
		for _, i := range c.Cancel {
			i := i
			vrt.GoNamed(fmt.Sprintf("disconnect-%d", i), func() {
				if !c.Early {
					// the client gives up at the moment the node produces the round: from here on the scheduler decides
					// where the disconnect falls relative to the watcher's delivery (a timer would only fire at quiescence)
					vrt.BlockUntil(func() bool { return mc.head >= L+1 })
				}
				results[i].cancelled = true
				vrt.Logf("client of request %d disconnects", i)
				cancels[i]()
			})
		}
		// the node produces new rounds on schedule
		vrt.GoNamed("producer", func() {
			for p := 1; p <= c.Produce; p++ {
				if d := time.Unix(common.TimeOfRound(k.Period, k.Genesis, uint64(L+p)), 0).Sub(clk.Now()); d > 0 {
					clk.Sleep(d)
				}
				mc.head = uint64(L + p)
				if p == c.DropWatch {
					vrt.Logf("node produces round %d (not carried by the watch stream)", L+p)
					continue
				}
				r := client.Result(mc.result(uint64(L + p)))
				ch := mc.watches[len(mc.watches)-1]
				vrt.Logf("node produces round %d", L+p)
				vrt.Send(ch, func() { ch <- r })
			}
		})
		if c.LateLook {
			vrt.GoNamed("late-request", func() {
				clk.Sleep(k.Period + 500*time.Millisecond)
				late = serve(ctx, fmt.Sprintf("/public/%d", L+1))
			})
		}
		clk.Sleep(time.Duration(c.Produce)*k.Period + time.Second)
		vrt.WaitIdle()
		// afterwards the handler still serves
		done := false
		vrt.GoNamed("after", func() { after = serve(ctx, fmt.Sprintf("/public/%d", L+1)); done = true })
		clk.Sleep(time.Second)
		_ = done
	})
	x := &explore.Exec{S: s}
	if s.NativeBlock != "" || s.ReplayDivergence != "" {
		x.Outcome = "ENGINE"
		return x
	}
	add := func(fp, f string, a ...any) {
		x.Violations = append(x.Violations, explore.Violation{Fingerprint: "c14/http/" + fp, Detail: c.String() + ": " + fmt.Sprintf(f, a...)})
	}
	if s.Panic != "" {
		add("panic", "a goroutine of the HTTP handler panicked (in the daemon this ends the process): %.600s", s.Panic)
	}
	if s.HorizonHit {
		add("horizon", "step horizon hit")
	}
	var outs []string
	want := fmt.Sprintf(`"round":%d`, L+1)
	for i, r := range results {
		switch {
		case r == nil || !r.done:
			add("request-never-returns", "request %d for round %d (cancelled=%v) never returned", i, L+1, r != nil && r.cancelled)
			outs = append(outs, "hang")
		case r.code == 200 && !strings.Contains(strings.ReplaceAll(r.body, " ", ""), want):
			add("wrong-round", "request %d for round %d was answered 200 with %q", i, L+1, r.body)
			outs = append(outs, "wrong")
		case !r.cancelled && c.Produce > 0 && r.code != 200:
			add("waiter-not-served", "request %d waited for round %d, the round was produced, the client stayed connected, and the answer is %d", i, L+1, r.code)
			outs = append(outs, fmt.Sprint(r.code))
		default:
			outs = append(outs, fmt.Sprint(r.code))
		}
	}
	if c.LateLook && s.Panic == "" && (late == nil || !late.done || late.code != 200 || !strings.Contains(strings.ReplaceAll(late.body, " ", ""), want)) {
		add("late-request", "a request for round %d after it was produced: %+v", L+1, late)
	}
	if c.Produce > 0 && s.Panic == "" && (after == nil || !after.done || after.code != 200) {
		add("not-serving-afterwards", "after the scenario a request for round %d is not served: %+v", L+1, after)
	}
	x.Outcome = strings.Join(outs, ",")
	return x
}

func main() {
	c := vlib.New("C14", "model_checking")
	k := bnet.NewKeys(crypto.DefaultSchemeID, 3, 2, 3*time.Second, vrt.Epoch.Add(2*time.Second).Unix())
	var cfgs []cfg
	if c.Quick() {
		cfgs = []cfg{
			{Waiters: 1, Cancel: []int{0}, Produce: 1, Bound: -1},
			{Waiters: 1, Cancel: []int{0}, Produce: 1, Bound: 4, Early: true},
			{Waiters: 2, Cancel: []int{0}, Produce: 1, Bound: 4},
			{Waiters: 2, Cancel: nil, Produce: 2, Bound: 3, LateLook: true},
			{Waiters: 2, Cancel: []int{0, 1}, Produce: 1, Bound: 3},
			{Waiters: 2, Cancel: nil, Produce: 2, Bound: 2, LateLook: true, DropWatch: 1},
		}
	} else {
		cfgs = []cfg{
			{Waiters: 1, Cancel: []int{0}, Produce: 1, Bound: -1},
			{Waiters: 1, Cancel: []int{0}, Produce: 1, Bound: 6, Early: true},
			{Waiters: 1, Cancel: []int{0}, Produce: 2, Bound: 8},
			{Waiters: 2, Cancel: []int{0}, Produce: 1, Bound: 5},
			{Waiters: 2, Cancel: []int{1}, Produce: 1, Bound: 5},
			{Waiters: 2, Cancel: nil, Produce: 2, Bound: 4, LateLook: true},
			{Waiters: 2, Cancel: []int{0, 1}, Produce: 1, Bound: 4},
			{Waiters: 3, Cancel: []int{1}, Produce: 2, Bound: 3, LateLook: true},
			{Waiters: 2, Cancel: nil, Produce: 2, Bound: 4, LateLook: true, DropWatch: 1},
			{Waiters: 2, Cancel: []int{0}, Produce: 3, Bound: 3, DropWatch: 1},
			{Waiters: 1, Cancel: nil, Produce: 3, Bound: 3, LateLook: true, DropWatch: 2},
		}
	}
	if c.Replay != "" {
		var jobs []vlib.E1Job
		for _, cf := range cfgs {
			cf := cf
			jobs = append(jobs, vlib.E1Job{Name: "c14-http/" + cf.String(), Bound: cf.Bound, Run: func(d []vrt.Dev) *explore.Exec { return runOne(k, cf, d, false) }, Labeled: func(d []vrt.Dev) *explore.Exec { return runOne(k, cf, d, true) }})
		}
		os.Exit(c.ReplayE1(jobs))
	}
	var jobs []vlib.E1Job
	for _, cf := range cfgs {
		cf := cf
		jobs = append(jobs, vlib.E1Job{Name: "c14-http/" + cf.String(), Bound: cf.Bound, Run: func(d []vrt.Dev) *explore.Exec { return runOne(k, cf, d, false) }, Labeled: func(d []vrt.Dev) *explore.Exec { return runOne(k, cf, d, true) }})
	}
	c.E1Batch(jobs, time.Until(c.DeadlineIn(60*time.Second, 20*time.Minute)))
	c.Assume("scheduling points: channel, select, mutex, once, spawn and timer operations of the instrumented handler/http package; the node-local client (Get/Watch/Info) is a harness mock fed by a producer thread; a client disconnect is the cancellation of the request context at a scheduler-chosen moment")
	c.Finish("one case = one execution of {watcher, producer, waiting requests, disconnects, later requests} on the real handler/http under one schedule; distinct = distinct tuples of status codes")
}
