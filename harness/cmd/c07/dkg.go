package main

import (
	"fmt"
	"time"

	"github.com/drand/drand/v2/common/key"
	"github.com/drand/drand/v2/crypto"
	"github.com/drand/drand/v2/verifharness/dkgrun"
	"github.com/drand/drand/v2/verifharness/dnet"
	"github.com/drand/drand/v2/verifharness/vlib"
	vrt "verif.local/vrt"
	"verif.local/vrt/explore"
)

// dkgCheck is c07-dkg: real resharings between real dkg.Process instances (same set, add, remove, threshold up and
// down) — chain info before = after on every node that completes, all completing nodes agree on the new group
// INCLUDING its transition time; c07-ttime: the same with one node's clock skewed and the resharing completing at
// different positions relative to the beacon round boundaries.
func dkgCheck(c *vlib.Check) {
	type jobc struct {
		name    string
		scheme  string
		n, t    int
		reshare string
		offsets []time.Duration
		aligns  []time.Duration
		bound   int
	}
	var js []jobc
	shapes := []string{"same", "add", "remove", "remove-first", "thr+", "thr-"}
	if c.Quick() {
		for _, sh := range shapes {
			js = append(js, jobc{"c07-dkg", crypto.DefaultSchemeID, 4, 3, sh, nil, nil, 0})
		}
		js = append(js, jobc{"c07-ttime", crypto.DefaultSchemeID, 3, 2, "same", []time.Duration{0, 2 * time.Second, 0}, []time.Duration{0, time.Second, 2 * time.Second}, 0})
	} else {
		for _, sc := range crypto.ListSchemes() {
			for _, sh := range shapes {
				js = append(js, jobc{"c07-dkg", sc, 4, 3, sh, nil, nil, 1})
			}
		}
		js = append(js, jobc{"c07-dkg", crypto.DefaultSchemeID, 5, 3, "thr+", nil, nil, 0}, jobc{"c07-dkg", crypto.DefaultSchemeID, 5, 4, "thr-", nil, nil, 0})
		for _, off := range []time.Duration{500 * time.Millisecond, time.Second, 2 * time.Second} {
			js = append(js, jobc{"c07-ttime", crypto.DefaultSchemeID, 3, 2, "same", []time.Duration{0, off, 0}, []time.Duration{0, 500 * time.Millisecond, time.Second, 1500 * time.Millisecond, 2 * time.Second, 2500 * time.Millisecond}, 0})
		}
	}
	var jobs []vlib.E1Job
	for _, j := range js {
		sch, _ := crypto.SchemeFromName(j.scheme)
		var pairs []*key.Pair
		for i := 0; i < j.n; i++ {
			kp, _ := dnet.NewPair(sch, fmt.Sprintf("10.0.1.%d:7000", i+1))
			pairs = append(pairs, kp)
		}
		var id []int
		for i := 0; i < j.n; i++ {
			id = append(id, i)
		}
		k := dkgrun.Cfg{Scheme: j.scheme, N: j.n, T: j.t, Reshare: j.reshare, Perms: [][]int{id}, Offsets: j.offsets, Aligns: j.aligns}
		jobs = append(jobs, vlib.E1Job{Name: fmt.Sprintf("%s/%s/n=%d/t=%d/reshare=%s/offsets=%v/aligns=%d", j.name, j.scheme, j.n, j.t, j.reshare, j.offsets, len(j.aligns)), Bound: j.bound,
			Run: func(devs []vrt.Dev) *explore.Exec {
				return dkgrun.Judge(k, dkgrun.Run(k, pairs, devs, false), "c07/dkg")
			},
			Labeled: func(devs []vrt.Dev) *explore.Exec {
				return dkgrun.Judge(k, dkgrun.Run(k, pairs, devs, true), "c07/dkg")
			}})
	}
	c.E1Batch(jobs, time.Until(c.DeadlineIn(120*time.Second, 30*time.Minute)))
}
