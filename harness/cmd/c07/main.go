// c07 — property C07: resharing keeps the chain's identity and continuity.
//
// c07-transition (engine E1, bnet): a running network of real handlers receives the output of a resharing (new
// group and shares over the SAME secret, produced by the harness) at different moments relative to the
// transition round and staggered across nodes; shapes: same set, add one, remove one, replace one, threshold up /
// down; a failed resharing (nobody learns anything). Stayers use the repository's TransitionNewGroup, joiners
// Transition (sync, then start at the transition time), leavers StopAt. Oracles: C01/C02 safety across the
// transition, every member of the live group at the current round at the end, partials made with old shares (and
// partials on the new polynomial at an index the new group dropped) refused after the transition.
// c07-dkg (engine E1, dnet): see dkg.go — real resharing runs between real dkg.Process instances: chain identity.
package main

import (
	"fmt"
	"time"

	"github.com/drand/drand/v2/crypto"
	"github.com/drand/drand/v2/verifharness/bnet"
	"github.com/drand/drand/v2/verifharness/vlib"
	vrt "verif.local/vrt"
	"verif.local/vrt/explore"
)

func run(sc *bnet.Scenario, devs []vrt.Dev, labels bool) *explore.Exec {
	r := sc.Run(devs, labels)
	x := sc.JudgeSafety(r, "c07/safety")
	sc.JudgeReshare(r, x, "c07")
	if len(sc.Reshares) > 0 && sc.Reshares[r.Reshare].Failed {
		sc.JudgeLiveness(r, x, "c07/failed-reshare")
	}
	if r.Net != nil {
		r.Net.Close()
	}
	return x
}

func specs(k *bnet.Keys, n, t int, T uint64, thorough bool) []*bnet.ReshareSpec {
	var out []*bnet.ReshareSpec
	id := func(m int) []int {
		var l []int
		for i := 0; i < m; i++ {
			l = append(l, i)
		}
		return l
	}
	type shape struct {
		name string
		n2   int
		t2   int
		keep []int
	}
	shapes := []shape{
		{"same-set", n, t, id(n)},
		{"add-one", n + 1, t + 1, append(id(n), -1)},
		{"remove-last", n - 1, t, id(n - 1)},
		{"remove-first", n - 1, t, id(n)[1:]},
		{"replace-one", n, t, append(id(n-1), -1)},
	}
	if t < n {
		shapes = append(shapes, shape{"threshold-up", n, t + 1, id(n)})
	}
	if t-1 >= (n/2)+1 {
		shapes = append(shapes, shape{"threshold-down", n, t - 1, id(n)})
	}
	for _, sh := range shapes {
		if sh.t2 > sh.n2 || sh.t2 < sh.n2/2+1 {
			continue
		}
		nk := k.Reshare(sh.n2, sh.t2, sh.keep)
		learns := []uint64{T - 3}
		if thorough {
			learns = []uint64{T - 4, T - 2, T - 1}
		}
		for _, la := range learns {
			for _, stagger := range []time.Duration{0, 700 * time.Millisecond} {
				if !thorough && stagger > 0 && sh.name != "same-set" && sh.name != "remove-first" {
					continue
				}
				if la == T-1 && stagger > 0 {
					// every member learns the result before the last round of the old group is stored (500 ms before its
					// time): the real transition time is ten rounds after the DKG's completion, a node cannot learn later
					stagger = 100 * time.Millisecond
				}
				out = append(out, &bnet.ReshareSpec{Name: fmt.Sprintf("%s/learn@r%d/stagger=%v", sh.name, la, stagger), New: nk, Keep: sh.keep,
					LearnAtRound: la, Stagger: stagger, TransitionRound: T, OldSharePartials: true})
			}
		}
	}
	out = append(out, &bnet.ReshareSpec{Name: "failed-reshare", Failed: true, TransitionRound: T})
	return out
}

func main() {
	c := vlib.New("C07", "model_checking")
	genesis := vrt.Epoch.Add(2 * time.Second).Unix()
	type job struct {
		scheme string
		n, t   int
		bound  int
	}
	var js []job
	if c.Quick() {
		js = []job{{crypto.DefaultSchemeID, 3, 2, 1}, {crypto.UnchainedSchemeID, 4, 3, 0}, {crypto.DefaultSchemeID, 4, 3, 0}}
	} else {
		for _, sc := range crypto.ListSchemes() {
			js = append(js, job{sc, 3, 2, 1}, job{sc, 4, 3, 1})
		}
		js = append(js, job{crypto.DefaultSchemeID, 5, 3, 0}, job{crypto.DefaultSchemeID, 5, 4, 0})
	}
	var jobs []vlib.E1Job
	const T = 6
	for _, j := range js {
		k := bnet.NewKeys(j.scheme, j.n, j.t, 3*time.Second, genesis)
		be := make([]string, j.n)
		for i := range be {
			be[i] = "memdb"
		}
		sc := &bnet.Scenario{Keys: k, Backends: be, Rounds: 10, Reshares: specs(k, j.n, j.t, T, !c.Quick())}
		jobs = append(jobs, vlib.E1Job{Name: fmt.Sprintf("c07-transition/%s/n=%d/t=%d/specs=%d", j.scheme, j.n, j.t, len(sc.Reshares)), Bound: j.bound,
			Run: func(devs []vrt.Dev) *explore.Exec { return run(sc, devs, false) }, Labeled: func(devs []vrt.Dev) *explore.Exec { return run(sc, devs, true) }})
	}
	// c07-thr-down: a resharing that lowers the threshold (4 of 3 -> 3 of 2, 5 of 4 -> 5 of 3); after the transition
	// members stop until exactly the NEW threshold of the live group is up (fewer than the old threshold): the chain
	// must carry on with them
	type down struct {
		scheme       string
		n, t, n2, t2 int
		stop         []int
	}
	downs := []down{{crypto.DefaultSchemeID, 4, 3, 3, 2, []int{2}}}
	if !c.Quick() {
		downs = append(downs, down{crypto.UnchainedSchemeID, 4, 3, 3, 2, []int{0}}, down{crypto.DefaultSchemeID, 5, 4, 5, 3, []int{1, 4}},
			down{crypto.SigsOnG1ID, 4, 3, 3, 2, []int{1}})
	}
	for _, d := range downs {
		k := bnet.NewKeys(d.scheme, d.n, d.t, 3*time.Second, genesis)
		be := make([]string, d.n)
		for i := range be {
			be[i] = "memdb"
		}
		var keep []int
		for i := 0; i < d.n2; i++ {
			keep = append(keep, i)
		}
		nk := k.Reshare(d.n2, d.t2, keep)
		var rs []*bnet.ReshareSpec
		for _, la := range []uint64{T - 3, T - 1} {
			rs = append(rs, &bnet.ReshareSpec{Name: fmt.Sprintf("threshold-down-%d/%d->%d/%d/learn@r%d", d.t, d.n, d.t2, d.n2, la), New: nk, Keep: keep,
				LearnAtRound: la, TransitionRound: T})
		}
		var script []bnet.Fault
		for _, nd := range d.stop {
			script = append(script, bnet.Fault{Kind: "stop", Node: nd, AtRound: T + 2})
		}
		sc := &bnet.Scenario{Keys: k, Backends: be, Rounds: 11, Reshares: rs, Scripts: [][]bnet.Fault{script}}
		jobs = append(jobs, vlib.E1Job{Name: fmt.Sprintf("c07-thr-down/%s/n=%d/t=%d->n=%d/t=%d/stopped-after-transition=%v", d.scheme, d.n, d.t, d.n2, d.t2, d.stop), Bound: 0,
			Run: func(devs []vrt.Dev) *explore.Exec { return run(sc, devs, false) }, Labeled: func(devs []vrt.Dev) *explore.Exec { return run(sc, devs, true) }})
	}
	c.E1Batch(jobs, time.Until(c.DeadlineIn(120*time.Second, 30*time.Minute)))
	dkgCheck(c)
	c.Assume("c07-transition: the new group and shares are produced by the harness as a fresh polynomial over the same secret (what a resharing computes); the hand-over to the handlers uses the repository's TransitionNewGroup / Transition / StopAt exactly as internal/core does",
		"BeaconProcess.validateGroupTransition (daemon level) is exercised by the daemon-bench checks, not here")
	c.Finish("one case = one execution of a network of real handlers through a resharing specification under one schedule; distinct = distinct (specification, final heads) outcomes")
}
