// c06 — property C06: a completed DKG leaves all nodes with one group and matching key shares.
//
// Engine E1: n real dkg.Process instances with real bolt DKG stores and the real (instrumented) kyber protocol under
// the controlled scheduler and virtual time (package dkgrun); the operator commands (Initial, Join, Execute; for a
// second epoch Resharing, Accept, Join, Execute) are issued by the harness. Configuration choices (free): the order
// in which the participants are listed, the delivery policy of the network (in order / every message duplicated /
// one slow node whose inbound bundles are held past a phase boundary / first gossip to every node lost); schedules
// within the deviation bound.
package main

import (
	"fmt"
	"time"

	"github.com/drand/drand/v2/common/key"
	"github.com/drand/drand/v2/crypto"
	"github.com/drand/drand/v2/verifharness/dkgrun"
	"github.com/drand/drand/v2/verifharness/dnet"
	"github.com/drand/drand/v2/verifharness/gen"
	"github.com/drand/drand/v2/verifharness/vlib"
	vrt "verif.local/vrt"
	"verif.local/vrt/explore"
)

func main() {
	c := vlib.New("C06", "model_checking")
	type jobc struct {
		scheme  string
		n, t    int
		reshare string
		bound   int
		allPerm bool
	}
	var js []jobc
	if c.Quick() {
		js = []jobc{
			{crypto.DefaultSchemeID, 2, 2, "", 0, true},
			{crypto.DefaultSchemeID, 3, 2, "", 1, true}, {crypto.UnchainedSchemeID, 3, 3, "", 0, true},
			{crypto.SigsOnG1ID, 4, 3, "", 0, false}, {crypto.DefaultSchemeID, 3, 2, "same", 0, false},
			{crypto.UnchainedSchemeID, 4, 3, "add", 0, false}, {crypto.DefaultSchemeID, 4, 3, "remove", 0, false},
			{crypto.DefaultSchemeID, 4, 3, "remove-first", 0, false}, {crypto.UnchainedSchemeID, 5, 3, "replace", 0, false},
		}
	} else {
		for _, sc := range crypto.ListSchemes() {
			for n := 2; n <= 7; n++ {
				for t := key.MinimumT(n); t <= n; t++ {
					b := 0
					if n <= 3 && sc == crypto.DefaultSchemeID {
						b = 2
					} else if n <= 4 {
						b = 1
					}
					js = append(js, jobc{sc, n, t, "", b, n <= 4})
				}
			}
			for _, rs := range []string{"same", "add", "remove", "remove-first", "thr+", "thr-"} {
				js = append(js, jobc{sc, 4, 3, rs, 1, false})
			}
			js = append(js, jobc{sc, 5, 3, "replace", 1, false})
		}
	}
	var jobs []vlib.E1Job
	// clock skew: one node's clock runs 2 s ahead and the resharing completes at different positions relative to the
	// beacon round boundaries (the transition time is part of the group description every node must agree on)
	{
		sch, _ := crypto.SchemeFromName(crypto.DefaultSchemeID)
		var pairs []*key.Pair
		for i := 0; i < 3; i++ {
			kp, _ := dnet.NewPair(sch, fmt.Sprintf("10.0.2.%d:7000", i+1))
			pairs = append(pairs, kp)
		}
		k := dkgrun.Cfg{Scheme: crypto.DefaultSchemeID, N: 3, T: 2, Reshare: "same", Perms: [][]int{{0, 1, 2}},
			Offsets: []time.Duration{0, 2 * time.Second, 0}, Aligns: []time.Duration{0, time.Second, 2 * time.Second}}
		jobs = append(jobs, vlib.E1Job{Name: "c06-ttime/pedersen-bls-chained/n=3/t=2/reshare=same/offsets=[0s 2s 0s]/aligns=3", Bound: 0,
			Run:     func(devs []vrt.Dev) *explore.Exec { return dkgrun.Judge(k, dkgrun.Run(k, pairs, devs, false), "c06") },
			Labeled: func(devs []vrt.Dev) *explore.Exec { return dkgrun.Judge(k, dkgrun.Run(k, pairs, devs, true), "c06") }})
	}
	// a member whose clock lags starts its protocol run after the others' deals have arrived (resharings with more old
	// dealers than new members)
	{
		sch, _ := crypto.SchemeFromName(crypto.DefaultSchemeID)
		var pairs []*key.Pair
		for i := 0; i < 4; i++ {
			kp, _ := dnet.NewPair(sch, fmt.Sprintf("10.0.3.%d:7000", i+1))
			pairs = append(pairs, kp)
		}
		for late := 0; late < 4; late++ {
			if c.Quick() && late != 0 && late != 3 {
				continue
			}
			off := make([]time.Duration, 4)
			off[late] = -2 * time.Second
			k := dkgrun.Cfg{Scheme: crypto.DefaultSchemeID, N: 4, T: 3, Reshare: "remove-first", Perms: [][]int{{0, 1, 2, 3}}, Offsets: off}
			jobs = append(jobs, vlib.E1Job{Name: fmt.Sprintf("c06-late/n=4/t=3/reshare=remove-first/offsets=%v", off), Bound: 0,
				Run:     func(devs []vrt.Dev) *explore.Exec { return dkgrun.Judge(k, dkgrun.Run(k, pairs, devs, false), "c06") },
				Labeled: func(devs []vrt.Dev) *explore.Exec { return dkgrun.Judge(k, dkgrun.Run(k, pairs, devs, true), "c06") }})
		}
	}
	for _, j := range js {
		sch, _ := crypto.SchemeFromName(j.scheme)
		var pairs []*key.Pair
		for i := 0; i < j.n; i++ {
			kp, _ := dnet.NewPair(sch, fmt.Sprintf("10.0.0.%d:7000", i+1))
			pairs = append(pairs, kp)
		}
		perms := gen.Perms(j.n)
		if !j.allPerm {
			// identity, reversal and the rotations
			perms = nil
			for r := 0; r < j.n; r++ {
				var p []int
				for i := 0; i < j.n; i++ {
					p = append(p, (i+r)%j.n)
				}
				perms = append(perms, p)
			}
			var rev []int
			for i := j.n - 1; i >= 0; i-- {
				rev = append(rev, i)
			}
			perms = append(perms, rev)
		}
		k := dkgrun.Cfg{Scheme: j.scheme, N: j.n, T: j.t, Reshare: j.reshare, Perms: perms}
		jobs = append(jobs, vlib.E1Job{Name: fmt.Sprintf("c06-dkg/%s/n=%d/t=%d/reshare=%s/orders=%d/policies=%d", j.scheme, j.n, j.t, j.reshare, len(perms), len(dkgrun.Policies)), Bound: j.bound,
			Run:     func(devs []vrt.Dev) *explore.Exec { return dkgrun.Judge(k, dkgrun.Run(k, pairs, devs, false), "c06") },
			Labeled: func(devs []vrt.Dev) *explore.Exec { return dkgrun.Judge(k, dkgrun.Run(k, pairs, devs, true), "c06") }})
	}
	c.E1Batch(jobs, time.Until(c.DeadlineIn(80*time.Second, 40*time.Minute)))
	c.Assume("RPCs between DKG processes are direct calls of the peer's real Packet / BroadcastDKG entry points in the sender's thread; the kyber protocol and its phaser run under virtual time (phases of 10 s, kick-off grace 5 s)",
		"the operator commands are issued in a fixed order by the harness; the explored nondeterminism is the participant list order, the delivery policy and the goroutine schedule")
	c.Finish("one case = one complete key generation (and resharing) among real dkg.Process instances for one (scheme, n, t, list order, delivery policy) under one schedule; distinct = distinct (order, policy, completed set, final states) outcomes")
}
