// c03 — property C03: no beacon without a threshold of valid partials from distinct members.
//
// Engine E1 on the V+adversary harness (bnet.VAdv): one real beacon.Handler V (member 0) with its real
// ticker, run loop, aggregator, partial cache and store stack under the controlled scheduler; all other
// members are played by an adversary thread that hands V packet sequences generated from the property's
// alphabet. For every (n,t), every number of honest contributors around the threshold, every arrival order
// and every single (thorough: pair of) adversarial insertions, all schedules within the deviation bound are
// explored; the delivery ledger and the reference verifier decide.
package main

import (
	"fmt"
	"os"
	"time"

	"github.com/drand/drand/v2/crypto"
	"github.com/drand/drand/v2/verifharness/bnet"
	"github.com/drand/drand/v2/verifharness/vlib"
	vrt "verif.local/vrt"
	"verif.local/vrt/explore"
)

func perms(n int) [][]int {
	if n == 0 {
		return [][]int{{}}
	}
	var out [][]int
	var rec func(cur []int, used []bool)
	rec = func(cur []int, used []bool) {
		if len(cur) == n {
			out = append(out, append([]int{}, cur...))
			return
		}
		for i := 0; i < n; i++ {
			if !used[i] {
				used[i] = true
				rec(append(cur, i), used)
				used[i] = false
			}
		}
	}
	rec(nil, make([]bool, n))
	return out
}

// sequences builds the C03 alphabet for round 1 (previous = genesis seed).
func sequences(k *bnet.Keys, quick bool) [][]bnet.Item {
	prev := k.Seed
	n, t := k.N, k.T
	valid := func(j int) bnet.Item {
		return bnet.Item{Label: fmt.Sprintf("valid(m%d,r1)", j), From: j, P: k.Partial(j, 1, prev), AtRound: 1}
	}
	// adversarial items sent by corrupted member c
	adv := func(c int, honest int) []bnet.Item {
		garbage := append([]byte{}, k.Partial(honest, 1, prev).PartialSig...)
		garbage[len(garbage)-1] ^= 0x01
		otherPrev := []byte("another-previous-signature-00000")
		nonMember := append([]byte{}, k.Partial(c, 1, prev).PartialSig...)
		nonMember[0], nonMember[1] = 0, byte(50) // index 50 is not in the group
		p1 := prev
		if k.SchemeID != crypto.DefaultSchemeID {
			p1 = nil
		}
		// every share index nobody in the group holds, up to one past the largest: partials that lie ON the
		// group's polynomial there (computable by a coalition) — only the membership check can refuse them
		var onPoly []bnet.Item
		maxIdx := 0
		for _, ix := range k.Indices {
			if ix > maxIdx {
				maxIdx = ix
			}
		}
		for ix := 0; ix <= maxIdx+1; ix++ {
			if !k.IsMemberIndex(ix) {
				onPoly = append(onPoly, bnet.Item{Label: fmt.Sprintf("valid-on-polynomial-at-non-member-index(%d)", ix), From: c, P: k.PartialRaw(1, prev, k.SignAtIndex(ix, 1, p1)), AtRound: 1})
			}
		}
		items := []bnet.Item{
			{Label: fmt.Sprintf("invalid-sig-under-index(m%d)", honest), From: c, P: k.PartialRaw(1, prev, garbage), AtRound: 1},
			{Label: fmt.Sprintf("valid-for-round-2(m%d)", c), From: c, P: k.Partial(c, 2, prev), AtRound: 1},
			{Label: fmt.Sprintf("round-2-sig-relabelled-round-1(m%d)", c), From: c, P: k.PartialRaw(1, prev, k.Partial(c, 2, prev).PartialSig), AtRound: 1},
			{Label: "garbage-at-non-member-index(50)", From: c, P: k.PartialRaw(1, prev, nonMember), AtRound: 1},
			{Label: "own-partial-of-V-echoed", From: c, P: k.Partial(0, 1, prev), AtRound: 1},
		}
		items = append(items, onPoly...)
		if k.SchemeID == crypto.DefaultSchemeID {
			items = append(items,
				bnet.Item{Label: fmt.Sprintf("valid-for-other-previous(m%d)", c), From: c, P: k.Partial(c, 1, otherPrev), AtRound: 1},
				bnet.Item{Label: fmt.Sprintf("other-previous-sig-relabelled(m%d)", c), From: c, P: k.PartialRaw(1, prev, k.Partial(c, 1, otherPrev).PartialSig), AtRound: 1})
		}
		return items
	}
	var seqs [][]bnet.Item
	others := n - 1
	for kk := t - 2; kk <= t && kk <= others; kk++ {
		if kk < 0 {
			continue
		}
		// contributors: members 1..kk (by symmetry) — all arrival orders
		for _, pm := range perms(kk) {
			var base []bnet.Item
			for _, i := range pm {
				base = append(base, valid(1+i))
			}
			seqs = append(seqs, base)
			// duplicates of a contributor's partial
			if kk > 0 {
				d := valid(1 + pm[0])
				d.Label = "duplicate-" + d.Label
				seqs = append(seqs, append(append([]bnet.Item{}, base...), d))
				seqs = append(seqs, append([]bnet.Item{base[0], d}, base[1:]...))
			}
			// one corrupted member (the last one; if everybody contributes it is the last contributor)
			c := n - 1
			honest := 1
			if c == honest && n > 2 {
				honest = 2
			}
			if n-t < 1 {
				continue
			}
			for _, a := range adv(c, honest) {
				for pos := 0; pos <= len(base); pos++ {
					if quick && pos != 0 && pos != len(base) {
						continue
					}
					s := append([]bnet.Item{}, base[:pos]...)
					s = append(s, a)
					s = append(s, base[pos:]...)
					seqs = append(seqs, s)
				}
			}
		}
	}
	return seqs
}

type job struct {
	scheme string
	n, t   int
	be     string
	bound  int
	idx    []int // share indices (nil: 0..n-1)
}

func main() {
	c := vlib.New("C03", "model_checking")
	genesis := vrt.Epoch.Add(2 * time.Second).Unix()
	var js []job
	if c.Quick() {
		js = []job{{crypto.DefaultSchemeID, 3, 2, "memdb", 1, nil}, {crypto.DefaultSchemeID, 4, 3, "memdb", 1, nil}, {crypto.UnchainedSchemeID, 5, 3, "memdb", 1, nil}, {crypto.ShortSigSchemeID, 3, 2, "bolt-trimmed", 0, nil},
			{crypto.DefaultSchemeID, 4, 3, "memdb", 1, []int{0, 1, 2, 4}}, {crypto.UnchainedSchemeID, 4, 3, "memdb", 0, []int{1, 2, 4, 5}}}
	} else {
		for _, sc := range crypto.ListSchemes() {
			for _, nt := range [][2]int{{3, 2}, {4, 3}, {5, 3}, {5, 4}, {6, 4}, {7, 4}} {
				js = append(js, job{sc, nt[0], nt[1], "memdb", 2, nil})
			}
			js = append(js, job{sc, 4, 3, "bolt-trimmed", 1, nil}, job{sc, 4, 3, "memdb", 2, []int{0, 1, 2, 4}}, job{sc, 5, 3, "memdb", 1, []int{1, 2, 4, 5, 7}})
		}
	}
	var jobs []vlib.E1Job
	total := 0
	for _, j := range js {
		j := j
		k := bnet.NewKeys(j.scheme, j.n, j.t, 3*time.Second, genesis)
		if j.idx != nil {
			k = bnet.NewKeysIdx(j.scheme, j.idx, j.t, 3*time.Second, genesis)
		}
		h := &bnet.VAdv{Keys: k, Backend: j.be, Seqs: sequences(k, c.Quick()), Rounds: 2}
		total += len(h.Seqs)
		jobs = append(jobs, vlib.E1Job{Name: fmt.Sprintf("c03-thr/%s/n=%d/t=%d/idx=%v/%s/seqs=%d", j.scheme, j.n, j.t, k.Indices, j.be, len(h.Seqs)), Bound: j.bound,
			Run: func(devs []vrt.Dev) *explore.Exec {
				r := h.Run(devs, false)
				x := h.Judge(r, "c03")
				if r.Net != nil {
					r.Net.Close()
				}
				return x
			}})
	}
	// live-group clause: after a resharing only members of the new group count. A network of real handlers goes
	// through a transition to a smaller group; afterwards every member is handed partials made with shares of the
	// previous group and partials that lie on the NEW polynomial at the index the new group dropped.
	{
		k := bnet.NewKeys(crypto.DefaultSchemeID, 4, 3, 3*time.Second, genesis)
		var rs []*bnet.ReshareSpec
		for _, keep := range [][]int{{0, 1, 2}, {1, 2, 3}, {0, 1, 2, 3}} {
			t2 := 3
			if len(keep) == 3 {
				t2 = 2
			}
			rs = append(rs, &bnet.ReshareSpec{Name: fmt.Sprintf("keep=%v", keep), New: k.Reshare(len(keep), t2, keep), Keep: keep, LearnAtRound: 3, TransitionRound: 5, OldSharePartials: true})
		}
		sc := &bnet.Scenario{Keys: k, Backends: []string{"memdb", "memdb", "memdb", "memdb"}, Rounds: 9, Reshares: rs}
		runR := func(devs []vrt.Dev, labels bool) *explore.Exec {
			r := sc.Run(devs, labels)
			x := sc.JudgeSafety(r, "c03/live-group/safety")
			sc.JudgeReshare(r, x, "c03/live-group")
			if r.Net != nil {
				r.Net.Close()
			}
			return x
		}
		jobs = append(jobs, vlib.E1Job{Name: "c03-live-group/pedersen-bls-chained/n=4/t=3/reshare-to-smaller-groups", Bound: 0,
			Run: func(devs []vrt.Dev) *explore.Exec { return runR(devs, false) }, Labeled: func(devs []vrt.Dev) *explore.Exec { return runR(devs, true) }})
	}
	c.Count("packet_sequences", int64(total))
	// c03-transition: the threshold that counts is the live group's. V (n=5) learns a resharing that raises the threshold
	// from 3 to 4 at round 2; it cannot produce round 1 itself (the others stay silent) and gets it by sync at its tick
	// of round 2, which is when it switches to the new group. An old-share partial for round 2 reaches V before the
	// switch (while its clock is in round 1); after the switch, kNew new-share partials for round 2 arrive.
	// With kNew+1 < 4 contributors no beacon of round 2 may appear; with 4 it must be a valid one.
	for _, scID := range []string{crypto.DefaultSchemeID, crypto.UnchainedSchemeID} {
		k := bnet.NewKeys(scID, 5, 3, 3*time.Second, genesis)
		nk := k.Reshare(5, 4, []int{0, 1, 2, 3, 4})
		chain := k.RefChain(2)
		var seqs [][]bnet.Item
		oldAt := func(m int, at uint64) bnet.Item {
			return bnet.Item{Label: fmt.Sprintf("old-share-partial(m%d,r2)@round%d", m, at), From: m, P: k.Partial(m, 2, chain[1].Signature), AtRound: at}
		}
		newLate := func(m int) bnet.Item {
			return bnet.Item{Label: fmt.Sprintf("new-share-partial(m%d,r2)-after-head-1", m), From: m, P: nk.Partial(m, 2, chain[1].Signature), AfterHead: 1}
		}
		// the old-share partial arrives during round 1, or at the very moment of V's tick of round 2 (the scheduler decides
		// whether before or after V's own partial, the sync and the switch)
		// ... or right after V's own (re-signed) partial of round 1 at that tick, with a sync peer that answers only after
		// it (the old-share partial of round 2 is then the last packet the aggregator sees before the switch)
		oldAfterOwn := func(m int) bnet.Item {
			it := oldAt(m, 2)
			it.Label = fmt.Sprintf("old-share-partial(m%d,r2)-after-own-partial-2-before-sync-answer", m)
			it.AfterSigned, it.ReleaseSync = 2, true
			return it
		}
		for _, early := range [][]bnet.Item{nil, {oldAt(1, 1)}, {oldAt(1, 2)}, {oldAt(1, 1), oldAt(2, 2)}, {oldAfterOwn(4)}} {
			for kNew := 1; kNew <= 3; kNew++ {
				sq := append([]bnet.Item{}, early...)
				for m := 1; m <= kNew; m++ {
					sq = append(sq, newLate(m))
				}
				seqs = append(seqs, sq)
			}
		}
		h := &bnet.VAdv{Keys: k, Backend: "memdb", Seqs: seqs, Rounds: 3, SyncHeight: 1, Transition: nk, TransitionRound: 2, SyncGated: true}
		runT := func(devs []vrt.Dev, labels bool) *explore.Exec {
			r := h.Run(devs, labels)
			x := h.Judge(r, "c03")
			if r.Net != nil {
				r.Net.Close()
			}
			return x
		}
		b := 1
		if !c.Quick() {
			b = 2
		}
		jobs = append(jobs, vlib.E1Job{Name: fmt.Sprintf("c03-transition/%s/n=5/t=3->4/seqs=%d", scID, len(seqs)), Bound: b,
			Run: func(devs []vrt.Dev) *explore.Exec { return runT(devs, false) }, Labeled: func(devs []vrt.Dev) *explore.Exec { return runT(devs, true) }})
	}
	if c.Replay != "" {
		os.Exit(c.ReplayE1(jobs))
	}
	c.E1Batch(jobs, time.Until(c.DeadlineIn(100*time.Second, 25*time.Minute)))
	c.Assume("V is member 0; the other members are scripted (their addresses are used as packet sources); sync is unavailable to V in these runs, so every stored beacon comes from aggregation",
		"'valid partial' is decided by the harness' reference verifier (digest computed from the scheme's specification, kyber tbls), never by the code under test",
		"threshold BLS operations are memoised as pure functions of their byte inputs; key material is drawn once per process")
	c.Finish("one case = one execution of V under one schedule for one packet sequence; distinct = distinct (sequence, stored rounds) outcomes")
}
