//go:build conn_insecure

// c15 — property C15: private keys and shares never leave the node.
//
// Three exhaustive enumerations, all on real code, all judged by the same byte scanner (every secret scalar of every
// node in raw / hex / base64 (3 alignments) / decimal form, both byte orders):
//
//	c15-files   every secret-writing operation of the key store and the DKG database x every pre-existing state of
//	            the target file (absent, empty or stale with loose modes, tight) x umask {022, 000, 077} x scheme:
//	            afterwards every file under the folder that contains a secret must be readable by its owner only.
//	c15-api     a real daemon process (the daemon world of C14: chains in every node state, debug-level log captured)
//	            receives every base request and every signature / absent-field variant of the C14 alphabet on every
//	            remote endpoint, every HTTP path, and every control-API query; every answer (payload and error text),
//	            the complete log, stderr, the backup file and the modes of all files holding secrets are scanned.
//	c15-cluster three real daemons run a first DKG, produce beacons, reshare and transition, talking to each other
//	            through recording TCP proxies: every byte that crossed the network in either direction, every
//	            control/status answer, every log line at debug level and every file is scanned for the long-term key
//	            and the shares (of both epochs) of every node. All 5 schemes in the thorough tier.
package main

import (
	"context"
	"encoding/hex"
	"fmt"
	"os"
	"path/filepath"
	"regexp"
	"sort"
	"strings"
	"sync"
	"syscall"
	"time"

	"google.golang.org/protobuf/proto"

	"github.com/drand/drand/v2/common/key"
	"github.com/drand/drand/v2/crypto"
	"github.com/drand/drand/v2/internal/dkg"
	pdkg "github.com/drand/drand/v2/protobuf/dkg"
	pb "github.com/drand/drand/v2/protobuf/drand"
	"github.com/drand/drand/v2/verifharness/bench"
	"github.com/drand/drand/v2/verifharness/dw"
	"github.com/drand/drand/v2/verifharness/fix"
	"github.com/drand/drand/v2/verifharness/secscan"
	"github.com/drand/drand/v2/verifharness/vlib"
	"github.com/drand/kyber"
)

func scalarBytes(s kyber.Scalar) []byte {
	b, _ := s.MarshalBinary()
	return b
}

type hay struct {
	name string
	b    []byte
}

type scanStats struct {
	mu       sync.Mutex
	haystack int64
	bytes    int64
}

// scanAll reports every secret found in the haystacks.
func scanAll(c *vlib.Check, part string, sc *secscan.Scanner, hs []hay, st *scanStats, ctxInfo string) {
	for _, h := range hs {
		st.mu.Lock()
		st.haystack++
		st.bytes += int64(len(h.b))
		st.mu.Unlock()
		for _, hit := range sc.Scan(h.b) {
			lo, hi := hit.Offset-80, hit.Offset+40
			if lo < 0 {
				lo = 0
			}
			if hi > len(h.b) {
				hi = len(h.b)
			}
			around := strings.Map(func(r rune) rune {
				if r < 32 || r > 126 {
					return '.'
				}
				return r
			}, string(h.b[lo:hit.Offset]))
			kind := strings.SplitN(h.name, ":", 2)[0]
			c.Report(fmt.Sprintf("c15/%s/leak/%s/%s", part, kind, secretClass(hit.Secret)),
				fmt.Sprintf("%s: %s contains %s (%s) at offset %d, preceded by %q", ctxInfo, h.name, hit.Secret, hit.Encoding, hit.Offset, around),
				map[string]any{"part": part, "where": h.name, "secret": hit.Secret, "encoding": hit.Encoding, "offset": hit.Offset, "context_before": around})
		}
	}
}

func secretClass(name string) string {
	if strings.Contains(name, "share") {
		return "share"
	}
	return "long-term-key"
}

// modesOf walks dir: every regular file that contains a secret must have no group/other permission bits.
func modesOf(c *vlib.Check, part string, sc *secscan.Scanner, dir string, ctxInfo string, st *scanStats) (files, holding int) {
	_ = filepath.Walk(dir, func(p string, info os.FileInfo, err error) error {
		if err != nil || !info.Mode().IsRegular() {
			return nil
		}
		base := filepath.Base(p)
		if base == "daemon.log" || base == "stderr.log" {
			return nil // scanned as output, not as a secret-holding file
		}
		b, err := os.ReadFile(p)
		if err != nil {
			return nil
		}
		files++
		st.mu.Lock()
		st.haystack++
		st.bytes += int64(len(b))
		st.mu.Unlock()
		hits := sc.Scan(b)
		if len(hits) == 0 {
			return nil
		}
		holding++
		if perm := info.Mode().Perm(); perm&0o077 != 0 {
			c.Report(fmt.Sprintf("c15/%s/file-mode/%s", part, base),
				fmt.Sprintf("%s: %s holds %s and has mode %04o (readable beyond its owner)", ctxInfo, p, hits[0].Secret, perm),
				map[string]any{"part": part, "file": base, "mode": fmt.Sprintf("%04o", perm), "secret": hits[0].Secret, "context": ctxInfo})
		}
		return nil
	})
	return
}

// ---------------------------------------------------------------- c15-files

type fileOp struct {
	name string
	run  func(base string, sch *crypto.Scheme) ([]secscan.Secret, error)
}

func fileOps() []fileOp {
	share := func(sch *crypto.Scheme) *key.Share {
		g := &bench.Chain{}
		_ = g
		c := bench.ChainOf(bench.ChainSpec{ID: "files", Scheme: sch.Name, Kind: "running"}, bench.Spec{Addr: "127.0.0.1:1", PeriodS: 1, Genesis: 1700000000})
		return c.Share
	}
	return []fileOp{
		{"SaveKeyPair", func(base string, sch *crypto.Scheme) ([]secscan.Secret, error) {
			kp := fix.DetKeyPair("c15/files", "127.0.0.1:1", sch)
			return []secscan.Secret{{Name: "long-term key", Raw: scalarBytes(kp.Key)}}, key.NewFileStore(base, "default").SaveKeyPair(kp)
		}},
		{"SaveShare", func(base string, sch *crypto.Scheme) ([]secscan.Secret, error) {
			sh := share(sch)
			return []secscan.Secret{{Name: "share", Raw: scalarBytes(sh.PrivateShare().V)}}, key.NewFileStore(base, "default").SaveShare(sh)
		}},
		{"DKGStore.SaveFinished", func(base string, sch *crypto.Scheme) ([]secscan.Secret, error) {
			c := bench.ChainOf(bench.ChainSpec{ID: "files", Scheme: sch.Name, Kind: "running"}, bench.Spec{Addr: "127.0.0.1:1", PeriodS: 1, Genesis: 1700000000})
			st, err := dkg.NewDKGStore(base)
			if err != nil {
				return nil, err
			}
			defer st.Close()
			state := dkg.NewFreshState("files")
			state.State, state.Epoch, state.FinalGroup, state.KeyShare = dkg.Complete, 1, c.Group, c.Share
			state.SchemeID, state.Threshold = sch.Name, 1
			return []secscan.Secret{{Name: "share", Raw: scalarBytes(c.Share.PrivateShare().V)}}, st.SaveFinished("files", state)
		}},
		{"DKGStore.MigrateFromGroupfile", func(base string, sch *crypto.Scheme) ([]secscan.Secret, error) {
			c := bench.ChainOf(bench.ChainSpec{ID: "files", Scheme: sch.Name, Kind: "running"}, bench.Spec{Addr: "127.0.0.1:1", PeriodS: 1, Genesis: 1700000000})
			st, err := dkg.NewDKGStore(base)
			if err != nil {
				return nil, err
			}
			defer st.Close()
			return []secscan.Secret{{Name: "share", Raw: scalarBytes(c.Share.PrivateShare().V)}}, st.MigrateFromGroupfile("files", c.Group, c.Share)
		}},
	}
}

type preState struct {
	name    string
	present bool
	content string
	mode    os.FileMode
}

var preStates = []preState{
	{"absent", false, "", 0},
	{"empty-0644", true, "", 0o644},
	{"stale-0644", true, "stale = \"content of an earlier file\"\n", 0o644},
	{"stale-0666", true, "stale = \"content of an earlier file\"\n", 0o666},
	{"empty-0600", true, "", 0o600},
}

func partFiles(c *vlib.Check, schemes []string, st *scanStats) {
	// the key store prints where it saves things: keep that out of the check's output
	if null, err := os.OpenFile(os.DevNull, os.O_WRONLY, 0); err == nil {
		stdout, stderr := os.Stdout, os.Stderr
		os.Stdout, os.Stderr = null, null
		defer func() { os.Stdout, os.Stderr = stdout, stderr; null.Close() }()
	}
	var cases, holding int64
	for _, scID := range schemes {
		sch, _ := crypto.SchemeFromName(scID)
		for _, op := range fileOps() {
			// which files does the operation put secrets into? (learnt from a run on an empty folder)
			probeDir, rm := fix.ScratchDir()
			secrets, err := op.run(probeDir, sch)
			if err != nil {
				if strings.Contains(op.name, "DKGStore") && strings.Contains(err.Error(), "bolt") {
					rm()
					continue
				}
				c.EngineError("c15-files: %s on an empty folder: %v", op.name, err)
				rm()
				continue
			}
			sc := secscan.New(secrets)
			var targets []string
			_ = filepath.Walk(probeDir, func(p string, info os.FileInfo, err error) error {
				if err == nil && info.Mode().IsRegular() {
					if b, e := os.ReadFile(p); e == nil && len(sc.Scan(b)) > 0 {
						rel, _ := filepath.Rel(probeDir, p)
						targets = append(targets, rel)
					}
				}
				return nil
			})
			rm()
			if len(targets) == 0 {
				c.EngineError("c15-files: %s wrote its secret nowhere (%s)", op.name, scID)
				continue
			}
			for _, umask := range []int{0o022, 0o000, 0o077} {
				for _, pre := range preStates {
					if pre.present && strings.Contains(op.name, "DKGStore") && pre.content != "" {
						continue // a stale non-database file under the database's name cannot be opened at all
					}
					dir, rm := fix.ScratchDir()
					old := syscall.Umask(0)
					for _, t := range targets {
						if pre.present {
							_ = os.MkdirAll(filepath.Dir(filepath.Join(dir, t)), 0o755)
							_ = os.WriteFile(filepath.Join(dir, t), []byte(pre.content), pre.mode)
							_ = os.Chmod(filepath.Join(dir, t), pre.mode)
						}
					}
					syscall.Umask(umask)
					_, err := op.run(dir, sch)
					syscall.Umask(old)
					cases++
					info := fmt.Sprintf("%s, %s, target file %s beforehand, umask %03o", scID, op.name, pre.name, umask)
					if err != nil {
						// refusing to write is a safe answer; nothing to judge except that nothing leaked into loose files
						_ = err
					}
					_, h := modesOf(c, "files/"+op.name+"/"+pre.name, sc, dir, info, st)
					holding += int64(h)
					rm()
				}
			}
		}
	}
	c.Count("file_cases", cases)
	c.Sub("c15-files", map[string]any{"engine": "exhaustive matrix on the real key store / DKG store", "schemes": len(schemes), "operations": len(fileOps()), "pre_states": len(preStates),
		"umasks": 3, "cases": cases, "secret_holding_files_checked": holding})
}

// ---------------------------------------------------------------- c15-api

func partAPI(c *vlib.Check, st *scanStats) {
	dir, rm := fix.ScratchDir()
	defer rm()
	logFile := dir + "/api-daemon.log"
	w, err := dw.NewWorld(logFile)
	if err != nil {
		c.EngineError("c15-api: cannot start the daemon bench: %v", err)
		return
	}
	defer w.Close()
	var secrets []secscan.Secret
	ids := make([]string, 0, len(w.Chains))
	for id := range w.Chains {
		ids = append(ids, id)
	}
	sort.Strings(ids)
	for _, id := range ids {
		ch := w.Chains[id]
		secrets = append(secrets, secscan.Secret{Name: "long-term key of chain " + id, Raw: scalarBytes(ch.Pair.Key)})
		if ch.Share != nil {
			secrets = append(secrets, secscan.Secret{Name: "share of chain " + id, Raw: scalarBytes(ch.Share.PrivateShare().V)})
		}
	}
	sc := secscan.New(secrets)
	cfg := dw.MutCfg{IDs: dw.AllIDs(), Big: 1 << 16, Many: 20, Hashes: w.ChainHashes()}
	var items []dw.Item
	for _, it := range append(dw.Alphabet(w, cfg, dw.AllIDs()), dw.HTTPAlphabet(w)...) {
		if it.Kind == "http" || it.Desc == "base" || strings.Contains(it.Desc, "ignature") || strings.HasSuffix(it.Desc, "=absent") || strings.Contains(it.Desc, "beaconID=id:") {
			items = append(items, it)
		}
	}
	var n int64
	for _, it := range items {
		o := w.Do(it, dw.CallDeadline)
		n++
		scanAll(c, "api", sc, []hay{{"response:" + it.Method, o.Body}}, st, it.ID()+" -> "+o.Class)
		if !w.Alive() {
			c.EngineError("c15-api: the daemon died on %s (see C14)", it.ID())
			return
		}
	}
	// the control API (operator side, but its answers are printed and shipped around)
	ctl := 0
	ctrlScan := func(name string, m proto.Message, err error) {
		ctl++
		var b []byte
		if m != nil {
			b, _ = proto.Marshal(m)
		}
		if err != nil {
			b = append(b, []byte(err.Error())...)
		}
		scanAll(c, "api", sc, []hay{{"control-response:" + name, b}}, st, name)
	}
	for _, id := range append(ids, "nope") {
		r1, err := w.Ctrl.PublicKey(id)
		ctrlScan("PublicKey/"+id, r1, err)
		r2, err := w.Ctrl.ChainInfo(id)
		ctrlScan("ChainInfo/"+id, r2, err)
		r3, err := w.Ctrl.GroupFile(id)
		ctrlScan("GroupFile/"+id, r3, err)
		r4, err := w.Ctrl.Status(id)
		ctrlScan("Status/"+id, r4, err)
		ctx, cancel := context.WithTimeout(context.Background(), 20*time.Second)
		r5, err := w.DKGCtl().DKGStatus(ctx, &pdkg.DKGStatusRequest{BeaconID: id})
		cancel()
		ctrlScan("DKGStatus/"+id, r5, err)
		ctx, cancel = context.WithTimeout(context.Background(), 20*time.Second)
		r6, err := w.Ctrl.RemoteStatus(ctx, []*pb.Address{{Address: w.Addr}}, id)
		cancel()
		var b []byte
		for k, v := range r6 {
			vb, _ := proto.Marshal(v)
			b = append(append(b, []byte(k)...), vb...)
		}
		if err != nil {
			b = append(b, []byte(err.Error())...)
		}
		ctl++
		scanAll(c, "api", sc, []hay{{"control-response:RemoteStatus/" + id, b}}, st, "RemoteStatus")
		out := dir + "/backup-" + id + ".db"
		if err := w.Ctrl.BackupDB(out, id); err == nil {
			if bb, e := os.ReadFile(out); e == nil {
				scanAll(c, "api", sc, []hay{{"backup-file:" + id, bb}}, st, "BackupDatabase")
			}
		}
		ctl++
	}
	r7, err := w.Ctrl.ListSchemes()
	ctrlScan("ListSchemes", r7, err)
	w.Child.Kill(true)
	logs := []hay{}
	for _, f := range []string{logFile, w.Spec.Dir + "/stderr.log"} {
		if b, err := os.ReadFile(f); err == nil {
			logs = append(logs, hay{"log:" + filepath.Base(f), b})
		}
	}
	if len(logs) == 0 || len(logs[0].b) == 0 {
		c.EngineError("c15-api: the daemon's log was not captured")
	}
	scanAll(c, "api", sc, logs, st, "daemon log (debug level) over the whole run")
	files, holding := modesOf(c, "api", sc, w.Spec.Dir, "daemon folder after the run", st)
	c.Count("api_requests", n)
	c.Count("control_queries", int64(ctl))
	c.Sub("c15-api", map[string]any{"engine": "request enumeration on the daemon world (child process)", "requests": n, "control_queries": ctl, "secrets": sc.Secrets, "patterns": sc.Patterns(),
		"log_bytes": len(logs[0].b), "files_scanned": files, "secret_holding_files": holding})
}

// ---------------------------------------------------------------- c15-cluster

func loadSecrets(dir, id string, node int, epoch int) ([]secscan.Secret, error) {
	ks := key.NewFileStore(dir+"/multibeacon", id)
	var out []secscan.Secret
	kp, err := ks.LoadKeyPair()
	if err != nil {
		return nil, err
	}
	out = append(out, secscan.Secret{Name: fmt.Sprintf("long-term key of node %d", node), Raw: scalarBytes(kp.Key)})
	sh, err := ks.LoadShare()
	if err != nil {
		return out, err
	}
	out = append(out, secscan.Secret{Name: fmt.Sprintf("epoch-%d share of node %d", epoch, node), Raw: scalarBytes(sh.PrivateShare().V)})
	return out, nil
}

func partCluster(c *vlib.Check, scID string, replace bool, st *scanStats) {
	var last string
	for attempt := 0; attempt < 3; attempt++ {
		if last = clusterOnce(c, scID, replace, st); last == "" {
			return
		}
	}
	c.EngineError("%s", last)
}

// clusterOnce returns "" when the scenario ran through (findings are reported inside), else why it did not.
func clusterOnce(c *vlib.Check, scID string, replace bool, st *scanStats) string {
	n := 3
	if replace {
		n = 4 // node 3 joins at the resharing, node 2 leaves
	}
	var cl *bench.Cluster
	var err error
	for try := 0; try < 3; try++ { // a port handed out as free can be taken by another process in between
		if cl, err = bench.NewCluster(n, "default", scID, 1, true); err == nil {
			if err = cl.Start(); err == nil {
				break
			}
			cl.Close()
		}
	}
	if err != nil {
		return fmt.Sprintf("c15-cluster %s: start: %v", scID, err)
	}
	defer cl.Close()
	failed := ""
	fail := func(what string, err error) { failed = fmt.Sprintf("c15-cluster %s: %s: %v", scID, what, err) }
	all := []int{0, 1, 2}
	var answers []hay
	_ = all
	grab := func(tag string) {
		for i := range cl.Nodes {
			ctx, cancel := context.WithTimeout(context.Background(), 20*time.Second)
			if r, err := cl.DKGCtl[i].DKGStatus(ctx, &pdkg.DKGStatusRequest{BeaconID: cl.ID}); err == nil {
				b, _ := proto.Marshal(r)
				answers = append(answers, hay{fmt.Sprintf("control-response:DKGStatus node %d %s", i, tag), b})
			}
			cancel()
			if r, err := cl.Nodes[i].Ctrl.GroupFile(cl.ID); err == nil {
				b, _ := proto.Marshal(r)
				answers = append(answers, hay{fmt.Sprintf("control-response:GroupFile node %d %s", i, tag), b})
			}
			if r, err := cl.Nodes[i].Ctrl.Status(cl.ID); err == nil {
				b, _ := proto.Marshal(r)
				answers = append(answers, hay{fmt.Sprintf("control-response:Status node %d %s", i, tag), b})
			}
			if r, err := cl.Nodes[i].Ctrl.PublicKey(cl.ID); err == nil {
				b, _ := proto.Marshal(r)
				answers = append(answers, hay{fmt.Sprintf("control-response:PublicKey node %d %s", i, tag), b})
			}
		}
	}
	if err := cl.ProposeInitial(0, []int{0, 1, 2}, 2, 15*time.Second); err != nil {
		fail("initial proposal", err)
		return failed
	}
	for _, i := range []int{1, 2} {
		if err := cl.Join(i, nil); err != nil {
			fail("join", err)
			return failed
		}
	}
	grab("proposed")
	if err := cl.Execute(0); err != nil {
		fail("execute", err)
		return failed
	}
	if err := cl.WaitComplete(1, all, 90*time.Second); err != nil {
		fail("first DKG", err)
		return failed
	}
	var secrets []secscan.Secret
	for i := range cl.Nodes {
		s, err := loadSecrets(cl.Dirs[i], cl.ID, i, 1)
		if i == 3 && len(s) == 1 {
			err = nil // the future joiner has a key pair but no share yet
		}
		if err != nil {
			fail("reading the key material of epoch 1", err)
			return failed
		}
		secrets = append(secrets, s...)
	}
	grab("epoch1")
	if err := cl.WaitHead(0, 3, 90*time.Second); err != nil {
		fail("beacons of epoch 1", err)
		return failed
	}
	remaining, joining, leaving, acceptors := all, []int(nil), []int(nil), []int{1, 2}
	if replace {
		remaining, joining, leaving, acceptors = []int{0, 1}, []int{3}, []int{2}, []int{1}
	}
	if err := cl.ProposeReshare(0, remaining, joining, leaving, 2); err != nil {
		fail("reshare proposal", err)
		return failed
	}
	for _, i := range acceptors {
		if err := cl.Accept(i); err != nil {
			fail("accept", err)
			return failed
		}
	}
	if replace {
		gf, err := os.ReadFile(cl.Dirs[0] + "/multibeacon/" + cl.ID + "/groups/drand_group.toml")
		if err != nil {
			fail("group file for the joiner", err)
			return failed
		}
		if err := cl.Join(3, gf); err != nil {
			fail("join (reshare)", err)
			return failed
		}
	}
	if err := cl.Execute(0); err != nil {
		fail("execute (reshare)", err)
		return failed
	}
	members2 := all
	if replace {
		members2 = []int{0, 1, 3}
	}
	if err := cl.WaitComplete(2, members2, 90*time.Second); err != nil {
		fail("resharing", err)
		return failed
	}
	for _, i := range members2 {
		s, err := loadSecrets(cl.Dirs[i], cl.ID, i, 2)
		if err != nil {
			fail("reading the key material of epoch 2", err)
			return failed
		}
		secrets = append(secrets, s...)
	}
	grab("epoch2")
	h, _ := cl.Head(0)
	if err := cl.WaitHead(1, h+14, 120*time.Second); err != nil { // past the transition (10 rounds after completion)
		fail("beacons across the transition", err)
		return failed
	}
	grab("after-transition")
	// public endpoints of every node
	for i, nd := range cl.Nodes {
		for _, p := range []string{"/chains", "/info", "/public/latest", "/health"} {
			code, b, err := nd.HTTPGet(p)
			if err == nil {
				answers = append(answers, hay{fmt.Sprintf("response:http %s node %d (%d)", p, i, code), b})
			}
		}
	}
	for _, nd := range cl.Nodes {
		nd.Kill(true)
	}
	sc := secscan.New(secrets)
	var netBytes int64
	var hs []hay
	for i, px := range cl.Proxies {
		for k, s := range px.Streams() {
			netBytes += int64(len(s))
			hs = append(hs, hay{fmt.Sprintf("network:tcp stream %d of node %d's listener", k, i), s})
		}
	}
	if netBytes < 10000 {
		c.EngineError("c15-cluster %s: the proxies recorded only %d bytes", scID, netBytes)
	}
	scanAll(c, "cluster", sc, hs, st, scID+" DKG + beacons + resharing + transition")
	scanAll(c, "cluster", sc, answers, st, scID)
	var logBytes int64
	for i, d := range cl.Dirs {
		for _, f := range []string{"daemon.log", "stderr.log"} {
			if b, err := os.ReadFile(d + "/" + f); err == nil {
				logBytes += int64(len(b))
				scanAll(c, "cluster", sc, []hay{{fmt.Sprintf("log:%s of node %d", f, i), b}}, st, scID)
			}
		}
		modesOf(c, "cluster", sc, d, fmt.Sprintf("%s, folder of node %d after DKG and resharing", scID, i), st)
	}
	c.Count("network_bytes_scanned", netBytes)
	c.Count("log_bytes_scanned", logBytes)
	shape := "same members"
	if replace {
		shape = "node 3 joins, node 2 leaves"
	}
	c.Sub("c15-cluster/"+scID+"/"+shape, map[string]any{"daemons": n, "engine": "real daemons behind recording proxies: DKG, beacons, resharing, transition", "secrets": sc.Secrets, "patterns": sc.Patterns(),
		"network_bytes": netBytes, "log_bytes": logBytes, "answers": len(answers)})
	return ""
}

// ---------------------------------------------------------------- c15-badfiles

// partBadFiles: a daemon started on key material that parses but is rejected (legacy / unknown scheme name, damaged
// commitments, damaged public key): whatever it says about that (start-up error, log, control answer) must not
// contain the private scalar that is still intact in the file.
func partBadFiles(c *vlib.Check, scID string, st *scanStats) {
	type corruption struct {
		name string
		file string // relative to <dir>/multibeacon/<id>/
		edit func(string) string
	}
	re := func(pat, repl string) func(string) string {
		r := regexp.MustCompile(pat)
		return func(s string) string { return r.ReplaceAllString(s, repl) }
	}
	corruptions := []corruption{
		{"share: unknown scheme name", "groups/dist_key.private", re(`SchemeName = "[^"]*"`, `SchemeName = "no-such-scheme"`)},
		{"share: scheme name missing (legacy file)", "groups/dist_key.private", re(`(?m)^SchemeName = "[^"]*"\n?`, "")},
		{"share: first commitment damaged", "groups/dist_key.private", re(`Commits = \["([0-9a-f]{6})`, `Commits = ["ffffff`)},
		{"share: first commitment truncated", "groups/dist_key.private", re(`Commits = \["([0-9a-f]{4})`, `Commits = ["`)},
		{"share: index out of range", "groups/dist_key.private", re(`Index = \d+`, `Index = 99999`)},
		{"key pair: unknown scheme name", "key/drand_id.private", re(`SchemeName = "[^"]*"`, `SchemeName = "no-such-scheme"`)},
		{"key pair: scheme name missing (legacy file)", "key/drand_id.private", re(`(?m)^SchemeName = "[^"]*"\n?`, "")},
		{"public key: damaged", "key/drand_id.public", re(`Key = "([0-9a-f]{6})`, `Key = "ffffff`)},
		{"public key: unknown scheme name", "key/drand_id.public", re(`SchemeName = "[^"]*"`, `SchemeName = "no-such-scheme"`)},
		{"group: threshold zero", "groups/drand_group.toml", re(`Threshold = \d+`, `Threshold = 0`)},
		{"group: unknown scheme", "groups/drand_group.toml", re(`SchemeID = "[^"]*"`, `SchemeID = "no-such-scheme"`)},
	}
	n := 0
	for _, co := range corruptions {
		dir, rm := fix.ScratchDir()
		sp := bench.NewSpec(dir, []bench.ChainSpec{{ID: "default", Scheme: scID, Kind: "running"}}, 1)
		sp.LogFile = dir + "/daemon.log"
		// first start: the daemon fabricates its files; stop it, damage one file, start it again
		ch, err := bench.StartChild(sp)
		for attempt := 0; err != nil && attempt < 3; attempt++ {
			// a port picked for the daemon can be taken before it is bound: start again with fresh ports
			time.Sleep(300 * time.Millisecond)
			sp = bench.NewSpec(dir, []bench.ChainSpec{{ID: "default", Scheme: scID, Kind: "running"}}, 1)
			sp.LogFile = dir + "/daemon.log"
			ch, err = bench.StartChild(sp)
		}
		if err != nil {
			c.EngineError("c15-badfiles %s: first start: %v", scID, err)
			rm()
			continue
		}
		chain := ch.Chains["default"]
		secrets := []secscan.Secret{{Name: "long-term key", Raw: scalarBytes(chain.Pair.Key)}, {Name: "share", Raw: scalarBytes(chain.Share.PrivateShare().V)}}
		sc := secscan.New(secrets)
		ch.Kill(true)
		f := dir + "/multibeacon/default/" + co.file
		b, err := os.ReadFile(f)
		if err != nil {
			c.EngineError("c15-badfiles: %v", err)
			rm()
			continue
		}
		edited := co.edit(string(b))
		if edited == string(b) {
			c.EngineError("c15-badfiles: corruption %q did not change %s", co.name, co.file)
			rm()
			continue
		}
		_ = os.WriteFile(f, []byte(edited), 0o600)
		n++
		var hs []hay
		ch2, err := bench.StartChild(sp)
		if err != nil {
			hs = append(hs, hay{"response:start-up error", []byte(err.Error())})
		} else {
			if r, err := ch2.Ctrl.Status("default"); err != nil {
				hs = append(hs, hay{"control-response:Status", []byte(err.Error())})
			} else {
				bb, _ := proto.Marshal(r)
				hs = append(hs, hay{"control-response:Status", bb})
			}
			if r, err := ch2.Ctrl.LoadBeacon("default"); err != nil {
				hs = append(hs, hay{"control-response:LoadBeacon", []byte(err.Error())})
			} else {
				bb, _ := proto.Marshal(r)
				hs = append(hs, hay{"control-response:LoadBeacon", bb})
			}
			ch2.Kill(true)
		}
		for _, lf := range []string{"daemon.log", "stderr.log"} {
			if lb, err := os.ReadFile(dir + "/" + lf); err == nil {
				hs = append(hs, hay{"log:" + lf, lb})
			}
		}
		scanAll(c, "badfiles", sc, hs, st, scID+", daemon started with "+co.name)
		rm()
	}
	c.Sub("c15-badfiles/"+scID, map[string]any{"engine": "exhaustive list of rejected-but-parsable key material files x real daemon start", "corruptions": n})
}

func main() {
	bench.MaybeChild()
	c := vlib.New("C15", "model_checking")
	if c.Replay != "" {
		b, _ := os.ReadFile(c.Replay)
		fmt.Printf("replay: the leak is described by its location (which output, which secret, which encoding, offset and preceding bytes):\n%s\n", b)
		os.Exit(0)
	}
	st := &scanStats{}
	schemes := crypto.ListSchemes()
	clusterSchemes := []string{crypto.DefaultSchemeID, crypto.SigsOnG1ID}
	if !c.Quick() {
		clusterSchemes = schemes
	}
	partFiles(c, schemes, st)
	for _, sc := range clusterSchemes {
		partBadFiles(c, sc, st)
	}
	var wg sync.WaitGroup
	wg.Add(1)
	go func() { defer wg.Done(); partAPI(c, st) }()
	for _, s := range clusterSchemes {
		wg.Add(1)
		go func(s string) { defer wg.Done(); partCluster(c, s, false, st) }(s)
		if !c.Quick() || s == crypto.DefaultSchemeID {
			wg.Add(1)
			go func(s string) { defer wg.Done(); partCluster(c, s, true, st) }(s)
		}
	}
	wg.Wait()
	c.Count("states", int64(len(clusterSchemes))*3+10)
	c.Count("transitions", st.haystack)
	c.Count("traces", st.haystack)
	c.Count("evaluations", st.haystack)
	c.Count("distinct", st.haystack)
	c.Count("bytes_scanned", st.bytes)
	c.Exhaustive(true)
	c.Assume("a secret is recognised in raw, hexadecimal (both cases), base64 (standard/URL, all alignments) and decimal form, in both byte orders; other transformations (encryption, hashing, arithmetic) are by definition not leaks",
		"the secrets searched for are the long-term private key and the distributed key shares (every epoch) of every node, read back from the node's own key store with the repository's loader",
		"network traffic is what crosses the recording TCP proxies in front of each daemon's private listener (gRPC without TLS because of the repository's conn_insecure build tag)",
		"encrypted deals of the DKG are legitimate traffic and contain no secret in any of the recognised encodings")
	_ = hex.EncodeToString
	c.Finish("one evaluation = one output (response, error text, TCP stream, log file, backup file, stored file) scanned for every secret pattern; a file holding a secret must have no group/other permission bit")
}
