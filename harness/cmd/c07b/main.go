// c07b — second part of the C07 check: the daemon-side hand-over of a resharing result.
//
// Engine E2 (exhaustive matrix) on the real core.BeaconProcess: a node that is a member of a running 2-of-3 group
// (key pair, group file and share loaded from a real key store, a real beacon.Handler attached) is handed the output
// of a resharing (what the DKG layer delivers on completion) for every reshare shape x every perturbation of the new
// group's chain parameters (period, genesis time, genesis seed, beacon id, scheme, transition time in the past /
// far future; a transition time equal to the current second is left out: the property does not say which side it is on) including the unperturbed one. Oracle: the unperturbed output is accepted and the chain keeps
// its identity (chain hash, period, genesis, public key as served by ChainInfo); every output that would change the
// identity of the chain, or whose transition time has passed, is refused AND leaves the node exactly as it was: group
// and share in memory, chain hash and ChainInfo served, group file and share file on disk.
package main

import (
	"bytes"
	"context"
	"fmt"
	"os"
	"time"

	clock "github.com/jonboulle/clockwork"
	"google.golang.org/grpc"

	"github.com/drand/drand/v2/common"
	pubchain "github.com/drand/drand/v2/common/chain"
	"github.com/drand/drand/v2/common/key"
	"github.com/drand/drand/v2/crypto"
	"github.com/drand/drand/v2/internal/chain/beacon"
	"github.com/drand/drand/v2/internal/chain/memdb"
	"github.com/drand/drand/v2/internal/core"
	"github.com/drand/drand/v2/internal/dkg"
	"github.com/drand/drand/v2/internal/net"
	"github.com/drand/drand/v2/internal/util"
	proto "github.com/drand/drand/v2/protobuf/drand"
	"github.com/drand/drand/v2/verifharness/fix"
	"github.com/drand/drand/v2/verifharness/vlib"
	"github.com/drand/kyber"
	"github.com/drand/kyber/share"
	kdkg "github.com/drand/kyber/share/dkg"
)

type noNetwork struct{}

func (noNetwork) GetIdentity(context.Context, net.Peer, *proto.IdentityRequest, ...net.CallOption) (*proto.IdentityResponse, error) {
	return nil, fmt.Errorf("no network")
}
func (noNetwork) SyncChain(context.Context, net.Peer, *proto.SyncRequest, ...net.CallOption) (chan *proto.BeaconPacket, error) {
	return nil, fmt.Errorf("no network")
}
func (noNetwork) PartialBeacon(context.Context, net.Peer, *proto.PartialBeaconPacket, ...net.CallOption) error {
	return fmt.Errorf("no network")
}
func (noNetwork) Status(context.Context, net.Peer, *proto.StatusRequest, ...grpc.CallOption) (*proto.StatusResponse, error) {
	return nil, fmt.Errorf("no network")
}
func (noNetwork) Check(context.Context, net.Peer) error { return fmt.Errorf("no network") }

func sharesFor(sch *crypto.Scheme, secret kyber.Scalar, n, thr int, label string) ([]*key.Share, *key.DistPublic) {
	pri := share.NewPriPoly(sch.KeyGroup, thr, secret, fix.DetStream("c07b/"+label))
	_, commits := pri.Commit(sch.KeyGroup.Point().Base()).Info()
	out := make([]*key.Share, n)
	for i, s := range pri.Shares(n) {
		out[i] = &key.Share{DistKeyShare: kdkg.DistKeyShare{Share: s, Commits: commits}, Scheme: sch}
	}
	return out, &key.DistPublic{Coefficients: commits}
}

type tcase struct {
	Scheme   string `json:"scheme"`
	Shape    string `json:"shape"`
	Mutation string `json:"mutation"`
	Legit    bool   `json:"legitimate"`
}

func (t tcase) String() string { return fmt.Sprintf("%s/%s/%s", t.Scheme, t.Shape, t.Mutation) }

var mutations = []string{"none", "period-doubled", "period-halved", "genesis-time+1", "genesis-time-1", "genesis-seed", "beacon-id", "scheme", "transition-past", "transition-far"}
var shapes = []string{"same-members", "one-added", "one-removed", "threshold-up"}

type env struct {
	ctx      context.Context
	sch      *crypto.Scheme
	folder   string
	clk      *clock.FakeClock
	old      *key.Group
	shares   []*key.Share
	secret   kyber.Scalar
	bp       *core.BeaconProcess
	pairs    []*key.Pair
	beaconID string
	stop     func()
}

func setup(sch *crypto.Scheme) (*env, error) {
	e := &env{ctx: context.Background(), sch: sch, beaconID: "default"}
	const n, thr = 3, 2
	period := 2 * time.Second
	e.clk = clock.NewFakeClockAt(time.Unix(1700001000, 0))
	genesis := e.clk.Now().Unix() - 100
	e.secret = sch.KeyGroup.Scalar().Pick(fix.DetStream("c07b/secret/" + sch.Name))
	var pub *key.DistPublic
	e.shares, pub = sharesFor(sch, e.secret, n, thr, "epoch1/"+sch.Name)
	var nodes []*key.Node
	for i := 0; i < 5; i++ {
		kp := fix.DetKeyPair(fmt.Sprintf("c07b/node%d", i), fmt.Sprintf("127.0.0.1:%d", 7000+i), sch)
		e.pairs = append(e.pairs, kp)
		if i < n {
			nodes = append(nodes, &key.Node{Identity: kp.Public, Index: uint32(i)})
		}
	}
	e.old = &key.Group{Threshold: thr, Period: period, CatchupPeriod: period / 2, Scheme: sch, ID: e.beaconID, GenesisTime: genesis, Nodes: nodes, PublicKey: pub}
	e.old.GenesisSeed = e.old.Hash()
	dir, rm := fix.ScratchDir()
	e.folder = dir
	store := key.NewFileStore(dir, e.beaconID)
	if err := store.SaveKeyPair(e.pairs[0]); err != nil {
		return nil, err
	}
	if err := store.SaveGroup(e.old); err != nil {
		return nil, err
	}
	if err := store.SaveShare(e.shares[0]); err != nil {
		return nil, err
	}
	l := fix.Logger()
	cfg := core.NewConfig(l, core.WithConfigFolder(dir))
	core.VerifSetClock(cfg, e.clk)
	bp, err := core.NewBeaconProcess(e.ctx, l, store, util.NewFanOutChan[dkg.SharingOutput](), e.beaconID, cfg, nil)
	if err != nil {
		return nil, err
	}
	if err := bp.Load(e.ctx); err != nil {
		return nil, err
	}
	h, err := beacon.NewHandler(e.ctx, noNetwork{}, memdb.NewStore(100), &beacon.Config{Public: e.old.Find(e.pairs[0].Public), Group: e.old, Share: e.shares[0], Clock: e.clk}, l, common.GetAppVersion())
	if err != nil {
		return nil, err
	}
	bp.VerifSetHandler(h)
	e.bp = bp
	e.stop = func() { h.Stop(e.ctx); beacon.VerifStopMonitor(h); rm() }
	return e, nil
}

// output builds the DKG layer's completion message for a reshare shape and mutation.
func (e *env) output(t tcase) *dkg.SharingOutput {
	members := []int{0, 1, 2}
	thr := e.old.Threshold
	switch t.Shape {
	case "one-added":
		members = []int{0, 1, 2, 3}
		thr = 3
	case "one-removed":
		members = []int{0, 1}
		thr = 2
	case "threshold-up":
		thr = 3
	}
	newShares, newPub := sharesFor(e.sch, e.secret, len(members), thr, "epoch2/"+t.String())
	g := *e.old
	g.Threshold = thr
	g.Nodes = nil
	for i, m := range members {
		g.Nodes = append(g.Nodes, &key.Node{Identity: e.pairs[m].Public, Index: uint32(i)})
	}
	g.PublicKey = newPub
	g.TransitionTime = e.old.GenesisTime + 160 // one minute ahead of the clock, on a round boundary
	switch t.Mutation {
	case "period-doubled":
		g.Period = 2 * e.old.Period
	case "period-halved":
		g.Period = e.old.Period / 2
	case "genesis-time+1":
		g.GenesisTime++
	case "genesis-time-1":
		g.GenesisTime--
	case "genesis-seed":
		g.GenesisSeed = append([]byte{}, e.old.GenesisSeed...)
		g.GenesisSeed[0] ^= 1
	case "beacon-id":
		g.ID = "another"
	case "scheme":
		other := crypto.UnchainedSchemeID
		if e.sch.Name == other {
			other = crypto.DefaultSchemeID
		}
		g.Scheme, _ = crypto.SchemeFromName(other)
	case "transition-past":
		g.TransitionTime = e.old.GenesisTime + 80
	case "transition-far":
		g.TransitionTime = e.old.GenesisTime + 100000
	}
	return &dkg.SharingOutput{BeaconID: e.beaconID,
		Old: &dkg.DBState{BeaconID: e.beaconID, Epoch: 1, State: dkg.Complete, FinalGroup: e.old, KeyShare: e.shares[0]},
		New: dkg.DBState{BeaconID: e.beaconID, Epoch: 2, State: dkg.Complete, FinalGroup: &g, KeyShare: newShares[0]}}
}

func main() {
	c := vlib.New("C07", "model_checking")
	if c.Replay != "" {
		b, _ := os.ReadFile(c.Replay)
		fmt.Printf("replay: the case is described by (scheme, reshare shape, mutation of the new group):\n%s\n", b)
		os.Exit(0)
	}
	// the key store prints what it saves: keep that out of the check's output
	null, _ := os.OpenFile(os.DevNull, os.O_WRONLY, 0)
	quiet := func(f func()) {
		stdout := os.Stdout
		if null != nil {
			os.Stdout = null
		}
		defer func() { os.Stdout = stdout }()
		f()
	}
	schemes := []string{crypto.DefaultSchemeID, crypto.SigsOnG1ID}
	if !c.Quick() {
		schemes = crypto.ListSchemes()
	}
	var n, accepted int64
	for _, scID := range schemes {
		sch, _ := crypto.SchemeFromName(scID)
		for _, shape := range shapes {
			for _, mut := range mutations {
				t := tcase{Scheme: scID, Shape: shape, Mutation: mut, Legit: mut == "none" || mut == "transition-far"}
				var e *env
				var err error
				quiet(func() { e, err = setup(sch) })
				if err != nil {
					c.EngineError("c07-handover set-up: %v", err)
					continue
				}
				n++
				oldHash := pubchain.NewChainInfo(e.old).Hash()
				oldShare := e.shares[0].PrivateShare().V
				infoBefore, _ := e.bp.ChainInfo(e.ctx, &proto.ChainInfoRequest{})
				out := e.output(t)
				quiet(func() { err = e.bp.VerifOnDKGCompleted(e.ctx, out) })
				infoAfter, ierr := e.bp.ChainInfo(e.ctx, &proto.ChainInfoRequest{})
				diskGroup, gerr := key.NewFileStore(e.folder, e.beaconID).LoadGroup()
				diskShare, serr := key.NewFileStore(e.folder, e.beaconID).LoadShare()
				rep := func(fp, f string, a ...any) {
					c.Report(fmt.Sprintf("c07/handover/%s/%s/%s", fp, shape, mut), fmt.Sprintf("%s: ", t)+fmt.Sprintf(f, a...), t)
				}
				identityKept := ierr == nil && bytes.Equal(infoAfter.GetHash(), infoBefore.GetHash()) && infoAfter.GetPeriod() == infoBefore.GetPeriod() &&
					infoAfter.GetGenesisTime() == infoBefore.GetGenesisTime() && bytes.Equal(infoAfter.GetPublicKey(), infoBefore.GetPublicKey()) &&
					bytes.Equal(e.bp.VerifChainHash(), oldHash)
				if !identityKept {
					rep("chain-identity-changed", "after the hand-over (err=%v) the chain the node serves is no longer the pinned one: hash %x -> %x, period %d -> %d", err,
						infoBefore.GetHash()[:4], infoAfter.GetHash()[:min(4, len(infoAfter.GetHash()))], infoBefore.GetPeriod(), infoAfter.GetPeriod())
				}
				if t.Legit {
					if err != nil {
						rep("legitimate-output-refused", "a resharing result that keeps every chain parameter was refused: %v", err)
					} else {
						accepted++
						if gerr != nil || serr != nil || diskGroup == nil || !bytes.Equal(diskGroup.Hash(), out.New.FinalGroup.Hash()) || !diskShare.PrivateShare().V.Equal(out.New.KeyShare.PrivateShare().V) {
							rep("accepted-output-not-persisted", "the accepted group/share are not what is on disk (%v %v)", gerr, serr)
						}
					}
				} else {
					if err == nil {
						rep("identity-changing-output-accepted", "a resharing result that changes %s was accepted", mut)
					}
					untouched := e.bp.VerifGroup() != nil && bytes.Equal(e.bp.VerifGroup().Hash(), e.old.Hash()) && e.bp.VerifShare() != nil && e.bp.VerifShare().PrivateShare().V.Equal(oldShare)
					if !untouched {
						rep("refused-output-changed-node", "the output was refused (%v) but the node's group/share in memory are no longer the old ones", err)
					}
					if gerr != nil || serr != nil || diskGroup == nil || !bytes.Equal(diskGroup.Hash(), e.old.Hash()) || !diskShare.PrivateShare().V.Equal(oldShare) {
						rep("refused-output-changed-disk", "the output was refused (%v) but the group/share files are no longer the old ones: after a restart the node runs with key material of a group that never took over (%v %v)", err, gerr, serr)
					}
				}
				if n <= 3 {
					c.Sample(map[string]any{"case": t, "error": fmt.Sprint(err), "identity_kept": identityKept})
				}
				e.stop()
			}
		}
	}
	c.Count("states", int64(len(schemes)))
	c.Count("transitions", n)
	c.Count("traces", n)
	c.Count("evaluations", n)
	c.Count("distinct", n)
	c.Exhaustive(true)
	c.Sub("c07-handover", map[string]any{"engine": "E2 exhaustive matrix on the real core.BeaconProcess", "schemes": len(schemes), "shapes": len(shapes), "mutations": len(mutations), "cases": n, "accepted": accepted})
	c.Assume("the DKG layer's output is fabricated by the harness (new shares of the same secret): the hand-over is the last line of defence against a leader whose terms change a chain parameter, and against an output that arrives after its transition time")
	c.Finish("one case = one resharing result handed to BeaconProcess.onDKGCompleted on a freshly loaded node; oracle as in the header")
}
