package dkgrun

import (
	"io"

	"github.com/BurntSushi/toml"

	"github.com/drand/drand/v2/common/key"
	pdkg "github.com/drand/drand/v2/protobuf/dkg"
)

func encodeGroup(w io.Writer, g *key.Group) error {
	return toml.NewEncoder(w).Encode(g.TOML())
}

func nodeParticipant(nd *key.Node) *pdkg.Participant {
	k, _ := nd.Key.MarshalBinary()
	return &pdkg.Participant{Address: nd.Address(), Key: k, Signature: nd.Signature}
}
