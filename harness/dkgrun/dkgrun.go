// Package dkgrun runs complete key generations / resharings between real dkg.Process instances (dnet) under the vrt
// scheduler and judges their outcome; shared by C06 and C07.
package dkgrun

import (
	"bytes"
	"context"
	"fmt"
	"sort"
	"strings"
	"time"

	"github.com/drand/drand/v2/common"
	pubchain "github.com/drand/drand/v2/common/chain"
	"github.com/drand/drand/v2/common/key"
	"github.com/drand/drand/v2/crypto"
	"github.com/drand/drand/v2/internal/dkg"
	pdkg "github.com/drand/drand/v2/protobuf/dkg"
	"github.com/drand/drand/v2/verifharness/dnet"
	"github.com/drand/kyber/share"
	vrt "verif.local/vrt"
	"verif.local/vrt/explore"
)

type Cfg struct {
	Scheme  string
	N, T    int
	Reshare string // "" | same | add | remove | thr+ | thr-
	Perms   [][]int
	// Offsets: per-node clock skew; Aligns: alternative delays before the resharing is executed (free choice), so
	// that its completion falls at different positions relative to the beacon round boundaries
	Offsets []time.Duration
	Aligns  []time.Duration
}

var Policies = []string{"in-order", "duplicate-everything", "one-slow-node", "drop-first-gossip", "node1-absent-from-execution", "last-node-absent-from-execution"}

type Result struct {
	S       *vrt.Sched
	Net     *dnet.Net
	Err     string
	Perm    int
	Policy  string
	Epochs  int
	Final   []*dkg.DBState // per node, finished record at the end
	Current []*dkg.DBState
	First   []*key.Group // per node, the group of the first epoch (resharing runs)
	Align   time.Duration
	N1, T1  int // size and threshold of the first epoch
	// Members: addresses the final group of the last epoch must consist of (nil: not recorded)
	Members []string
}

func Run(c Cfg, pairs []*key.Pair, devs []vrt.Dev, labels bool) *Result {
	sch, _ := crypto.SchemeFromName(c.Scheme)
	res := &Result{}
	res.S = vrt.Run(vrt.Options{Devs: devs, MaxSteps: 3000000, Labels: labels, Watchdog: 60 * time.Second,
		Until: vrt.Epoch.Add(20 * time.Minute)}, func() {
		ctx := context.Background()
		res.Perm = vrt.ChooseFree(len(c.Perms), "participant list order")
		pol := vrt.ChooseFree(len(Policies), "delivery policy")
		res.Policy = Policies[pol]
		nt := dnet.New(sch)
		res.Net = nt
		for i, kp := range pairs {
			nd, err := nt.AddNode(kp)
			if err != nil {
				res.Err = err.Error()
				return
			}
			if i < len(c.Offsets) {
				nd.Offset = c.Offsets[i]
			}
		}
		if len(c.Aligns) > 0 {
			res.Align = c.Aligns[vrt.ChooseFree(len(c.Aligns), "alignment of the resharing")]
		}
		clk := &vrt.Clock{}
		dropped := map[string]bool{}
		switch res.Policy {
		case "duplicate-everything":
			nt.Deliver = func(s *dnet.Sent) int { return 2 }
		case "one-slow-node":
			// the last node receives every bundle of the execution one and a half phases late
			nt.HoldTo = nt.Nodes[len(nt.Nodes)-1].Part.Address
		case "drop-first-gossip":
			nt.Deliver = func(s *dnet.Sent) int {
				if s.Gossip != nil && !dropped[s.To] {
					dropped[s.To] = true
					return 1 // the sender retries
				}
				return 0
			}
		}
		n1 := c.N
		if c.Reshare == "add" || c.Reshare == "replace" {
			n1 = c.N - 1
		}
		var parts []*pdkg.Participant
		for _, i := range c.Perms[res.Perm] {
			if i < n1 {
				parts = append(parts, nt.Nodes[i].Part)
			}
		}
		leader := nt.Nodes[0]
		t1 := c.T
		if t1 > n1 {
			t1 = n1
		}
		if t1 < key.MinimumT(n1) {
			t1 = key.MinimumT(n1)
		}
		res.N1, res.T1 = n1, t1
		genesis := clk.Now().Add(5 * time.Minute)
		if err := nt.Initial(ctx, leader, parts, t1, genesis, clk.Now().Add(time.Hour)); err != nil {
			res.Err = "initial: " + err.Error()
			return
		}
		for i := 1; i < n1; i++ {
			if err := nt.Join(ctx, nt.Nodes[i], nil); err != nil {
				res.Err = fmt.Sprintf("join %d: %v", i, err)
				return
			}
		}
		if res.Policy == "one-slow-node" {
			nt.HoldUntil = clk.Now().Add(nt.Cfg.KickoffGracePeriod + nt.Cfg.TimeBetweenDKGPhases*3/2)
		}
		switch res.Policy {
		case "node1-absent-from-execution":
			if n1 > 2 {
				nt.Nodes[1].Down = true
			}
		case "last-node-absent-from-execution":
			if n1 > 2 {
				nt.Nodes[n1-1].Down = true
			}
		}
		if err := nt.Execute(ctx, leader); err != nil {
			res.Err = "execute: " + err.Error()
			return
		}
		// wait for the execution to end everywhere (3 phases + grace), in virtual time
		clk.Sleep(nt.Cfg.KickoffGracePeriod + 4*nt.Cfg.TimeBetweenDKGPhases)
		res.Epochs = 1
		if c.Reshare != "" && !strings.Contains(res.Policy, "absent") {
			fin := leader.Finished(nt.BeaconID)
			if fin == nil || fin.FinalGroup == nil {
				return // first epoch did not complete: judged below
			}
			for _, nd := range nt.Nodes {
				var g *key.Group
				if f := nd.Finished(nt.BeaconID); f != nil {
					g = f.FinalGroup
				}
				res.First = append(res.First, g)
			}
			// the chain starts (genesis) and runs for a while before the resharing
			if d := genesis.Add(30*time.Second + res.Align).Sub(clk.Now()); d > 0 {
				clk.Sleep(d)
			}
			var gf bytes.Buffer
			if err := encodeGroup(&gf, fin.FinalGroup); err != nil {
				res.Err = "group file: " + err.Error()
				return
			}
			var remaining, joining, leaving []*pdkg.Participant
			for _, nd := range fin.FinalGroup.Nodes {
				remaining = append(remaining, nodeParticipant(nd))
			}
			t2 := t1
			switch c.Reshare {
			case "add":
				joining = append(joining, nt.Nodes[c.N-1].Part)
				t2 = key.MinimumT(c.N)
			case "remove":
				leaving = append(leaving, remaining[len(remaining)-1])
				remaining = remaining[:len(remaining)-1]
				if leaving[0].Address == leader.Part.Address {
					leaving[0], remaining[0] = remaining[0], leaving[0]
				}
				t2 = key.MinimumT(len(remaining))
				if t2 < t1 {
					// the new node count cannot be lower than the prior threshold
					if len(remaining) < t1 {
						return
					}
				}
			case "remove-first", "replace":
				// the member with the smallest public key leaves (the indices of all others shift); with "replace" a new
				// node joins at the same time
				li := 0
				if remaining[0].Address == leader.Part.Address {
					li = 1
				}
				leaving = append(leaving, remaining[li])
				remaining = append(append([]*pdkg.Participant{}, remaining[:li]...), remaining[li+1:]...)
				if c.Reshare == "replace" {
					joining = append(joining, nt.Nodes[c.N-1].Part)
				}
				t2 = key.MinimumT(len(remaining) + len(joining))
				if len(remaining)+len(joining) < t1 || len(remaining) < t1 {
					return // fewer old dealers than the old threshold cannot reshare
				}
			case "thr+":
				if t1 < len(remaining) {
					t2 = t1 + 1
				}
			case "thr-":
				if t1-1 >= key.MinimumT(len(remaining)) {
					t2 = t1 - 1
				}
			}
			for _, p := range append(append([]*pdkg.Participant{}, remaining...), joining...) {
				res.Members = append(res.Members, p.Address)
			}
			if err := nt.Reshare(ctx, leader, remaining, joining, leaving, t2, clk.Now().Add(time.Hour)); err != nil {
				res.Err = "reshare: " + err.Error()
				return
			}
			for _, nd := range nt.Nodes {
				if nd == leader {
					continue
				}
				isJoiner := false
				for _, j := range joining {
					isJoiner = isJoiner || j.Address == nd.Part.Address
				}
				isLeaver := false
				for _, j := range leaving {
					isLeaver = isLeaver || j.Address == nd.Part.Address
				}
				var err error
				switch {
				case isJoiner:
					err = nt.Join(ctx, nd, gf.Bytes())
				case isLeaver:
				default:
					inGroup := false
					for _, r := range remaining {
						inGroup = inGroup || r.Address == nd.Part.Address
					}
					if inGroup {
						err = nt.Accept(ctx, nd)
					}
				}
				if err != nil {
					res.Err = fmt.Sprintf("reshare step of node %d: %v", nd.Idx, err)
					return
				}
			}
			if res.Policy == "one-slow-node" {
				nt.HoldUntil = clk.Now().Add(nt.Cfg.KickoffGracePeriod + nt.Cfg.TimeBetweenDKGPhases*3/2)
			}
			if err := nt.Execute(ctx, leader); err != nil {
				res.Err = "execute (reshare): " + err.Error()
				return
			}
			clk.Sleep(nt.Cfg.KickoffGracePeriod + 4*nt.Cfg.TimeBetweenDKGPhases)
			res.Epochs = 2
		}
	})
	if res.Net != nil {
		for _, nd := range res.Net.Nodes {
			res.Final = append(res.Final, nd.Finished(res.Net.BeaconID))
			res.Current = append(res.Current, nd.Current(res.Net.BeaconID))
		}
		res.Net.Close()
	}
	return res
}

func Judge(c Cfg, r *Result, prefix string) *explore.Exec {
	x := &explore.Exec{S: r.S}
	if r.S.NativeBlock != "" || r.S.ReplayDivergence != "" {
		x.Outcome = "ENGINE"
		return x
	}
	tag := fmt.Sprintf("%s n=%d t=%d reshare=%q order=%v policy=%s offsets=%v align=%v", c.Scheme, c.N, c.T, c.Reshare, c.Perms[r.Perm], r.Policy, c.Offsets, r.Align)
	add := func(fp, f string, a ...any) {
		x.Violations = append(x.Violations, explore.Violation{Fingerprint: prefix + "/" + fp, Detail: tag + ": " + fmt.Sprintf(f, a...)})
	}
	if r.S.Panic != "" {
		add("panic", "%.800s", r.S.Panic)
	}
	if r.S.HorizonHit {
		add("horizon", "step horizon hit")
	}
	if r.Err != "" {
		add("command-failed", "a valid operator command failed: %s", r.Err)
		x.Outcome = "ERR " + r.Err
		return x
	}
	sch, _ := crypto.SchemeFromName(c.Scheme)
	// nodes that completed the last epoch
	var done []int
	var states []string
	lastEpoch := uint32(r.Epochs)
	for i, f := range r.Final {
		st := "-"
		if r.Current[i] != nil {
			st = r.Current[i].State.String()
		}
		states = append(states, st)
		if f != nil && f.Epoch == lastEpoch && f.State == dkg.Complete && f.FinalGroup != nil && f.KeyShare != nil {
			done = append(done, i)
		}
	}
	x.Outcome = fmt.Sprintf("perm#%d %s align=%v epochs=%d completed=%v states=%v", r.Perm, r.Policy, r.Align, r.Epochs, done, states)
	if len(done) == 0 {
		if r.Policy != "one-slow-node" && !(strings.Contains(r.Policy, "absent") && r.T1 > r.N1-1) {
			add("nobody-completed", "no node completed epoch %d (states %v)", lastEpoch, states)
		}
		return x
	}
	g0 := r.Final[done[0]].FinalGroup
	for _, i := range done[1:] {
		g := r.Final[i].FinalGroup
		if d := GroupDiff(g0, g); d != "" {
			fp := "groups-differ"
			if strings.HasPrefix(d, "transition time ") && !strings.Contains(d, ",") && skewed(c.Offsets) {
				// the only difference is the transition time and the nodes' clocks are skewed
				fp = "transition-time-differs-under-clock-skew"
			}
			add(fp, "nodes %d and %d completed epoch %d with different group descriptions: %s", done[0], i, lastEpoch, d)
		}
	}
	// the new group consists of exactly the remaining and the joining participants of the proposal
	if r.Epochs == 2 && len(r.Members) > 0 {
		want := map[string]bool{}
		for _, a := range r.Members {
			want[a] = true
		}
		for _, nd := range g0.Nodes {
			if !want[nd.Address()] {
				add("group-membership", "the final group lists %s, which is neither a remaining nor a joining participant of the resharing", nd.Address())
			}
			delete(want, nd.Address())
		}
		if len(want) > 0 && len(done) == len(r.Members) {
			add("group-membership", "the final group misses %d participant(s) although everybody completed", len(want))
		}
	}
	// shares lie on the group's public polynomial, at the index the group gives the node
	pub := share.NewPubPoly(sch.KeyGroup, sch.KeyGroup.Point().Base(), g0.PublicKey.Coefficients)
	var shares []*share.PriShare
	for _, i := range done {
		f := r.Final[i]
		me := f.FinalGroup.Find(r.Net.Nodes[i].Pair.Public)
		if me == nil {
			add("not-in-own-group", "node %d completed but is not a member of its own final group", i)
			continue
		}
		ps := f.KeyShare.PrivateShare()
		if uint32(ps.I) != me.Index {
			add("share-index", "node %d holds share index %d, its group lists it at index %d", i, ps.I, me.Index)
		}
		want := pub.Eval(ps.I).V
		got := sch.KeyGroup.Point().Mul(ps.V, nil)
		if !want.Equal(got) {
			add("share-off-polynomial", "node %d's share (index %d) does not lie on the group's public polynomial", i, ps.I)
		}
		shares = append(shares, ps)
	}
	// every threshold subset of the completed nodes' shares signs a message that verifies under the group key
	if len(x.Violations) == 0 && len(shares) >= g0.Threshold {
		msg := []byte("c06 probe message")
		var partials [][]byte
		for _, s := range shares {
			p, err := sch.ThresholdScheme.Sign(s, msg)
			if err != nil {
				add("sign", "signing with a share failed: %v", err)
				return x
			}
			partials = append(partials, p)
		}
		for _, sub := range subsets(len(shares), g0.Threshold) {
			var ps [][]byte
			for _, i := range sub {
				ps = append(ps, partials[i])
			}
			sig, err := sch.ThresholdScheme.Recover(pub, msg, ps, g0.Threshold, len(g0.Nodes))
			if err != nil || sch.ThresholdScheme.VerifyRecovered(pub.Commit(), msg, sig) != nil {
				add("threshold-subset", "the shares of nodes %v (a threshold subset) do not produce a signature that verifies under the group key: %v", sub, err)
				break
			}
		}
	}
	// resharing: the chain's identity is unchanged
	if r.Epochs == 2 {
		for _, i := range done {
			if i >= len(r.First) || r.First[i] == nil {
				continue
			}
			a, b := pubchain.NewChainInfo(r.First[i]), pubchain.NewChainInfo(r.Final[i].FinalGroup)
			if !a.Equal(b) || !bytes.Equal(a.Hash(), b.Hash()) {
				add("chain-identity-changed", "node %d: chain info before the resharing (hash %x) and after it (hash %x) differ", i, a.Hash()[:6], b.Hash()[:6])
			}
		}
		if g0.TransitionTime <= g0.GenesisTime {
			add("transition-time", "the reshared group's transition time %d is not after genesis %d", g0.TransitionTime, g0.GenesisTime)
		}
	}
	// epoch 1: genesis seed = hash of the first group
	if r.Epochs == 1 {
		cp := *g0
		cp.GenesisSeed = nil
		if !bytes.Equal(g0.GenesisSeed, cp.Hash()) {
			add("genesis-seed", "the genesis seed of the first epoch is not the hash of the first group")
		}
	}
	return x
}

func GroupDiff(a, b *key.Group) string {
	var d []string
	if a.Threshold != b.Threshold {
		d = append(d, fmt.Sprintf("threshold %d/%d", a.Threshold, b.Threshold))
	}
	if a.Period != b.Period || a.CatchupPeriod != b.CatchupPeriod {
		d = append(d, "period")
	}
	if a.GenesisTime != b.GenesisTime {
		d = append(d, fmt.Sprintf("genesis time %d/%d", a.GenesisTime, b.GenesisTime))
	}
	if a.TransitionTime != b.TransitionTime {
		d = append(d, fmt.Sprintf("transition time %d/%d", a.TransitionTime, b.TransitionTime))
	}
	if !bytes.Equal(a.GenesisSeed, b.GenesisSeed) {
		d = append(d, "genesis seed")
	}
	if a.Scheme.Name != b.Scheme.Name || common.GetCanonicalBeaconID(a.ID) != common.GetCanonicalBeaconID(b.ID) {
		d = append(d, "scheme/id")
	}
	if (a.PublicKey == nil) != (b.PublicKey == nil) || (a.PublicKey != nil && !a.PublicKey.Equal(b.PublicKey)) {
		d = append(d, "distributed public key")
	}
	if len(a.Nodes) != len(b.Nodes) {
		d = append(d, fmt.Sprintf("size %d/%d", len(a.Nodes), len(b.Nodes)))
	} else {
		an, bn := append([]*key.Node{}, a.Nodes...), append([]*key.Node{}, b.Nodes...)
		sort.Slice(an, func(i, j int) bool { return an[i].Index < an[j].Index })
		sort.Slice(bn, func(i, j int) bool { return bn[i].Index < bn[j].Index })
		for i := range an {
			if an[i].Index != bn[i].Index || !an[i].Identity.Equal(bn[i].Identity) {
				d = append(d, fmt.Sprintf("member at position %d (index %d/%d)", i, an[i].Index, bn[i].Index))
				break
			}
		}
	}
	if !bytes.Equal(a.Hash(), b.Hash()) && len(d) == 0 {
		d = append(d, "group hash")
	}
	return strings.Join(d, ", ")
}

func skewed(o []time.Duration) bool {
	for _, d := range o {
		if d != 0 {
			return true
		}
	}
	return false
}

func subsets(n, k int) [][]int {
	var out [][]int
	var rec func(start int, cur []int)
	rec = func(start int, cur []int) {
		if len(cur) == k {
			out = append(out, append([]int{}, cur...))
			return
		}
		for i := start; i < n; i++ {
			rec(i+1, append(cur, i))
		}
	}
	rec(0, nil)
	return out
}
