// Package repairchk is the exhaustive check / repair enumeration shared by C10 (c10-check) and C01 (c01-resync).
package repairchk

import (
	"context"
	"fmt"
	"sort"
	"sync"
	"time"

	"github.com/drand/drand/v2/common"
	pubchain "github.com/drand/drand/v2/common/chain"
	"github.com/drand/drand/v2/crypto"
	"github.com/drand/drand/v2/internal/chain/beacon"
	dnet "github.com/drand/drand/v2/internal/net"
	"github.com/drand/drand/v2/verifharness/bnet"
	"github.com/drand/drand/v2/verifharness/fix"
	"github.com/drand/drand/v2/verifharness/vlib"
	vrt "verif.local/vrt"
)

type peerAddr string

func (p peerAddr) Address() string { return string(p) }

// checkCheck is c10-check (engine E2, exhaustive enumeration of corruption patterns): a store of 5 rounds in
// which every round is independently {intact, deleted, signature altered, (chained) previous link broken};
// the real CheckPastBeacons must report exactly the rounds that cannot be read back or do not reference-verify,
// and the real CorrectPastBeacons (one honest peer, bad peers before it) must leave a store that checks clean
// and whose other rounds are byte-identical.
// Run enumerates every corruption pattern; fingerprints and the sub-check name carry the given prefix ("c10/check", "c01/resync").
func Run(c *vlib.Check, prefix, subName string) {
	genesis := vrt.Epoch.Add(2 * time.Second).Unix()
	const R = 5
	type combo struct {
		scheme, be string
	}
	var combos []combo
	for _, sc := range []string{crypto.DefaultSchemeID, crypto.UnchainedSchemeID} {
		for _, be := range fix.Backends {
			combos = append(combos, combo{sc, be})
		}
	}
	deadline := c.DeadlineIn(60*time.Second, 10*time.Minute)
	for _, cb := range combos {
		k := bnet.NewKeys(cb.scheme, 3, 2, 3*time.Second, genesis)
		foreign := bnet.NewKeys(cb.scheme, 3, 2, 3*time.Second, genesis)
		chained := cb.scheme == crypto.DefaultSchemeID
		ref := k.RefChain(R)
		foreign.RefChain(R)
		states := []string{"ok", "deleted", "altered"}
		if chained && cb.be != "bolt-trimmed" {
			states = append(states, "badprev")
		}
		if cb.be == "memdb" {
			states = []string{"ok", "deleted"} // the ring ignores a re-put of a stored round, so only deletions are repairable
		}
		nst := len(states)
		total := 1
		for i := 0; i < R; i++ {
			total *= nst
		}
		var mu sync.Mutex
		var wg sync.WaitGroup
		sem := make(chan struct{}, c.Workers)
		done, capped := 0, false
		for code := 0; code < total; code++ {
			if time.Now().After(deadline) {
				capped = true
				break
			}
			wg.Add(1)
			sem <- struct{}{}
			go func(code int) {
				defer wg.Done()
				defer func() { <-sem }()
				pattern := make([]string, R+1)
				x := code
				for r := 1; r <= R; r++ {
					pattern[r] = states[x%nst]
					x /= nst
				}
				viol := oneCheckCase(k, foreign, cb.be, chained, ref, pattern)
				mu.Lock()
				done++
				if done <= 2 {
					c.Sample(map[string]any{"harness": subName, "scheme": cb.scheme, "backend": cb.be, "pattern(rounds 1..5)": pattern[1:]})
				}
				mu.Unlock()
				for fp, d := range viol {
					c.Report(prefix+"/"+fp+"/"+cb.be, fmt.Sprintf("%s %s %s pattern(rounds 1..5)=%v: %s", subName, cb.scheme, cb.be, pattern[1:], d), map[string]any{"harness": subName, "scheme": cb.scheme, "backend": cb.be, "pattern": pattern[1:]})
				}
			}(code)
		}
		wg.Wait()
		c.Count("states", int64(done))
		c.Count("transitions", int64(done)*2)
		c.Count("traces", int64(done))
		c.Count("evaluations", int64(done))
		c.Count("distinct", int64(done))
		c.Exhaustive(!capped)
		c.Sub(fmt.Sprintf("%s/%s/%s", subName, cb.scheme, cb.be), map[string]any{"engine": "E2 exhaustive enumeration on the real store + SyncManager", "corruption_patterns": done, "of": total, "capped": capped})
	}
	fix.RemoveTemplates()
}

func oneCheckCase(k, foreign *bnet.Keys, be string, chained bool, ref []*common.Beacon, pattern []string) map[string]string {
	viol := map[string]string{}
	ctx, cancel := context.WithTimeout(context.Background(), 60*time.Second)
	defer cancel()
	R := uint64(len(pattern) - 1)
	base, cleanup, err := fix.NewBackendSize(ctx, be, chained, 64)
	if err != nil {
		viol["harness-setup"] = err.Error()
		return viol
	}
	defer cleanup()
	stored := map[uint64]*common.Beacon{}
	for r := uint64(0); r <= R; r++ {
		b := fix.CopyBeacon(ref[r])
		switch pattern[r] {
		case "deleted":
			continue
		case "altered":
			b.Signature[len(b.Signature)/3] ^= 0x20
		case "badprev":
			b.PreviousSig = append([]byte{}, b.PreviousSig...)
			b.PreviousSig[0] ^= 0x01
		}
		if err := base.Put(ctx, b); err != nil {
			viol["harness-setup"] = err.Error()
			return viol
		}
		stored[r] = b
	}
	// reference: which rounds cannot be read back or do not verify
	trimmed := be == "bolt-trimmed"
	var want []uint64
	sigAt := func(r uint64) ([]byte, bool) {
		b, ok := stored[r]
		if !ok {
			return nil, false
		}
		return b.Signature, true
	}
	for r := uint64(1); r <= R; r++ {
		b, ok := stored[r]
		bad := !ok
		if ok {
			cand := fix.CopyBeacon(b)
			if trimmed {
				cand.PreviousSig = nil
				if chained {
					p, pok := sigAt(r - 1)
					if !pok {
						bad = true
					}
					cand.PreviousSig = p
				}
			}
			if !bad && k.RefVerify(cand) != nil {
				bad = true
			}
		}
		if bad {
			want = append(want, r)
		}
	}
	// the highest stored round bounds the check (CheckPastBeacons clamps to Last)
	var last uint64
	for r := range stored {
		if r > last {
			last = r
		}
	}
	var w2 []uint64
	for _, r := range want {
		if r <= last {
			w2 = append(w2, r)
		}
	}
	want = w2
	cl := bnet.NewRepairClient(k, foreign, R)
	syncm, err := beacon.NewSyncManager(ctx, &beacon.SyncConfig{Log: fix.Logger(), Client: cl, Clock: &vrt.Clock{Offset: time.Hour}, Store: base, BoltdbStore: base,
		Info: pubchain.NewChainInfo(k.Group()), NodeAddr: "self"})
	if err != nil {
		viol["harness-setup"] = err.Error()
		return viol
	}
	beacon.VerifSetSyncManagerThresholdScheme(syncm, k.Scheme.ThresholdScheme)
	defer syncm.Stop()
	go syncm.Run() // as newChainStore does: the loop drains the manager's progress channel
	got, err := syncm.CheckPastBeacons(ctx, R, nil)
	if err != nil {
		if len(stored) == 0 || (trimmed && chained) {
			return viol // nothing readable at all (Last fails): refusing is fine
		}
		viol["check-error"] = fmt.Sprintf("CheckPastBeacons failed: %v", err)
		return viol
	}
	sort.Slice(got, func(i, j int) bool { return got[i] < got[j] })
	if fmt.Sprint(got) != fmt.Sprint(want) {
		viol["wrong-report"] = fmt.Sprintf("CheckPastBeacons reported %v, the rounds that cannot be read back or do not verify are %v", got, want)
		return viol
	}
	if len(got) == 0 {
		return viol
	}
	// repair: bad peers first, the honest one last
	peers := []dnet.Peer{peerAddr("peer-badsig"), peerAddr("peer-wrongchain"), peerAddr("peer-honest")}
	if err := syncm.CorrectPastBeacons(ctx, got, peers, func(r, u uint64) {}); err != nil {
		viol["repair-failed"] = fmt.Sprintf("CorrectPastBeacons(%v) with an honest peer available failed: %v", got, err)
		return viol
	}
	again, err := syncm.CheckPastBeacons(ctx, R, nil)
	if err != nil || len(again) != 0 {
		viol["not-repaired"] = fmt.Sprintf("after CorrectPastBeacons(%v) the check still reports %v (%v)", got, again, err)
	}
	for r := uint64(1); r <= last; r++ {
		b, err := base.Get(ctx, r)
		if err != nil {
			viol["not-repaired"] = fmt.Sprintf("round %d unreadable after repair: %v", r, err)
			continue
		}
		if string(b.Signature) != string(ref[r].Signature) {
			viol["wrong-content-after-repair"] = fmt.Sprintf("round %d holds a signature that is not the chain's after repair", r)
		}
	}
	return viol
}
