// Package fix holds the fixtures shared by the harnesses: quiet logger, store back-ends on /dev/shm,
// placeholder beacons, schemes.
package fix

import (
	"context"
	"crypto/cipher"
	"crypto/sha256"
	"encoding/binary"
	"fmt"
	"os"
	"path/filepath"
	"sync"
	"sync/atomic"

	"go.uber.org/zap/zapcore"

	"github.com/drand/drand/v2/common"
	"github.com/drand/drand/v2/common/key"
	"github.com/drand/drand/v2/common/log"
	"github.com/drand/drand/v2/crypto"
	"github.com/drand/drand/v2/internal/chain"
	"github.com/drand/drand/v2/internal/chain/boltdb"
	"github.com/drand/drand/v2/internal/chain/memdb"
)

type devnull struct{}

func (devnull) Write(p []byte) (int, error) { return len(p), nil }
func (devnull) Sync() error                 { return nil }

var (
	logOnce sync.Once
	logger  log.Logger
)

// Logger returns a logger that discards everything below Fatal-worthy (shared, safe for concurrent use).
func Logger() log.Logger {
	logOnce.Do(func() { logger = log.New(zapcore.AddSync(devnull{}), log.ErrorLevel, true) })
	return logger
}

var dirCtr atomic.Int64
var janitor sync.Once

// sweepDead removes the scratch directories of processes that no longer exist (killed runs cannot clean up).
func sweepDead(base string) {
	es, err := os.ReadDir(base)
	if err != nil {
		return
	}
	for _, e := range es {
		var pid int
		if _, err := fmt.Sscanf(e.Name(), "verif-%d", &pid); err != nil || pid <= 0 {
			continue
		}
		if _, err := os.Stat(fmt.Sprintf("/proc/%d", pid)); os.IsNotExist(err) {
			_ = os.RemoveAll(base + "/" + e.Name())
		}
	}
}

// ScratchDir returns a fresh directory on /dev/shm and its removal function.
func ScratchDir() (string, func()) {
	base := "/dev/shm"
	if _, err := os.Stat(base); err != nil {
		base = os.TempDir()
	}
	janitor.Do(func() { sweepDead(base) })
	d := fmt.Sprintf("%s/verif-%d/%d", base, os.Getpid(), dirCtr.Add(1))
	if err := os.MkdirAll(d+"/db", 0o755); err != nil {
		panic(err)
	}
	return d, func() { _ = os.RemoveAll(d) }
}

// Backends lists the chain.Store back-ends that can be built offline.
var Backends = []string{"memdb", "bolt-trimmed", "bolt-untrimmed"}

// NewBackend builds a fresh real store. chained selects whether previous signatures are required
// (trimmed bolt reconstructs them).
func NewBackend(ctx context.Context, name string, chained bool) (chain.Store, func(), error) {
	return NewBackendSize(ctx, name, chained, 10)
}

func NewBackendSize(ctx context.Context, name string, chained bool, memSize int) (chain.Store, func(), error) {
	if chained {
		ctx = chain.SetPreviousRequiredOnContext(ctx)
	}
	switch name {
	case "memdb":
		return memdb.NewStore(memSize), func() {}, nil
	case "bolt-trimmed", "bolt-untrimmed":
		d, rm := ScratchDir()
		if name == "bolt-untrimmed" {
			ctx = boltdb.IsATest(ctx)
		}
		if PreGrownBolt {
			if err := copyFile(boltTemplate(ctx, name), d+"/db/"+boltdb.BoltFileName); err != nil {
				rm()
				return nil, nil, err
			}
		}
		s, err := boltdb.NewBoltStore(ctx, Logger(), d+"/db")
		if err != nil {
			rm()
			return nil, nil, err
		}
		return s, func() { _ = s.Close(); rm() }, nil
	}
	return nil, nil, fmt.Errorf("unknown backend %q", name)
}

// Scheme returns the chained default scheme or the unchained one.
func Scheme(chained bool) *crypto.Scheme {
	id := crypto.UnchainedSchemeID
	if chained {
		id = crypto.DefaultSchemeID
	}
	s, err := crypto.SchemeFromName(id)
	if err != nil {
		panic(err)
	}
	return s
}

// FakeSig is the placeholder signature of round r (variant v distinguishes two values for one round).
func FakeSig(r uint64, v byte) []byte {
	if r == 0 {
		return []byte("genesis-seed")
	}
	return []byte{0xb0 + v, byte(r >> 8), byte(r), 0x5a, byte(r) ^ 0xff}
}

// FakeBeacon is a placeholder beacon of round r whose previous signature links to FakeBeacon(r-1).
func FakeBeacon(r uint64, chained bool) *common.Beacon {
	b := &common.Beacon{Round: r, Signature: FakeSig(r, 0)}
	if chained && r > 0 {
		b.PreviousSig = FakeSig(r-1, 0)
	}
	return b
}

// PreGrownBolt makes NewBackend start bolt stores from an empty database file that already has free pages
// (a template grown once by real Puts and Dels). bbolt needs its mmap lock exclusively to grow the file and
// waits for open read transactions to do so; under the cooperative scheduler a reader parked inside a
// cursor scan would block the writer natively. Pre-grown files never remap in the small runs explored.
// (The writer-waits-for-reader behaviour itself is examined by C12, outside the scheduler.)
var PreGrownBolt = true

var (
	tmplMu sync.Mutex
	tmpl   = map[string]string{}
)

func boltTemplate(ctx context.Context, name string) string {
	tmplMu.Lock()
	defer tmplMu.Unlock()
	if p, ok := tmpl[name]; ok {
		return p
	}
	d, _ := ScratchDir()
	s, err := boltdb.NewBoltStore(ctx, Logger(), d+"/db")
	if err != nil {
		panic(err)
	}
	big := make([]byte, 96)
	for r := uint64(100000); r < 100400; r++ {
		if err := s.Put(ctx, &common.Beacon{Round: r, Signature: big, PreviousSig: big}); err != nil {
			panic(err)
		}
	}
	for r := uint64(100000); r < 100400; r++ {
		if err := s.Del(ctx, r); err != nil {
			panic(err)
		}
	}
	if err := s.Close(); err != nil {
		panic(err)
	}
	p := d + "/db/" + boltdb.BoltFileName
	tmpl[name] = p
	return p
}

// RemoveTemplates deletes the template directories (call at the end of a check).
func RemoveTemplates() {
	tmplMu.Lock()
	defer tmplMu.Unlock()
	for _, p := range tmpl {
		_ = os.RemoveAll(filepath.Dir(filepath.Dir(p)))
	}
	tmpl = map[string]string{}
	_ = os.Remove(fmt.Sprintf("/dev/shm/verif-%d", os.Getpid()))
}

func copyFile(from, to string) error {
	b, err := os.ReadFile(from)
	if err != nil {
		return err
	}
	return os.WriteFile(to, b, 0o660)
}

// detStream is a deterministic cipher.Stream (SHA-256 in counter mode over a label): key material derived from it is
// the same in every process of a check (parent and worker processes must agree on it to replay each other's findings).
type detStream struct {
	seed [32]byte
	ctr  uint64
	buf  []byte
}

func (d *detStream) XORKeyStream(dst, src []byte) {
	for i := range src {
		if len(d.buf) == 0 {
			var c [8]byte
			binary.BigEndian.PutUint64(c[:], d.ctr)
			d.ctr++
			h := sha256.Sum256(append(d.seed[:], c[:]...))
			d.buf = h[:]
		}
		dst[i] = src[i] ^ d.buf[0]
		d.buf = d.buf[1:]
	}
}

// DetStream returns a deterministic random stream for the label.
func DetStream(label string) cipher.Stream {
	return &detStream{seed: sha256.Sum256([]byte(label))}
}

// DetKeyPair builds a validly self-signed key pair whose private scalar is derived from the label.
func DetKeyPair(label, address string, sch *crypto.Scheme) *key.Pair {
	k := sch.KeyGroup.Scalar().Pick(DetStream("keypair/" + sch.Name + "/" + label))
	p := &key.Pair{Key: k, Public: &key.Identity{Key: sch.KeyGroup.Point().Mul(k, nil), Addr: address, Scheme: sch}}
	if err := p.SelfSign(); err != nil {
		panic(err)
	}
	return p
}
