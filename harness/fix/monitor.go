package fix

import (
	"context"

	"github.com/drand/drand/v2/common"
	"github.com/drand/drand/v2/internal/chain"
)

// Monitor wraps the base chain.Store handed to the code under test and records every Put that reaches it.
type Monitor struct {
	chain.Store
	Puts  []*common.Beacon // in call order, deep copies, only successful writes
	OnPut func(b *common.Beacon)
	// Fail, when set, is asked before every write; a non-nil answer is returned instead of writing
	// (injected back-end failure: I/O error, cancelled context, closed database).
	Fail   func(b *common.Beacon) error
	Failed []*common.Beacon
}

func NewMonitor(s chain.Store) *Monitor { return &Monitor{Store: s} }

func CopyBeacon(b *common.Beacon) *common.Beacon {
	return &common.Beacon{Round: b.Round, Signature: append([]byte{}, b.Signature...), PreviousSig: append([]byte(nil), b.PreviousSig...)}
}

func (m *Monitor) Put(ctx context.Context, b *common.Beacon) error {
	if m.Fail != nil {
		if err := m.Fail(b); err != nil {
			m.Failed = append(m.Failed, CopyBeacon(b))
			return err
		}
	}
	if err := m.Store.Put(ctx, b); err != nil {
		return err
	}
	cp := CopyBeacon(b)
	m.Puts = append(m.Puts, cp)
	if m.OnPut != nil {
		m.OnPut(cp)
	}
	return nil
}

// Close is a no-op: the monitor's owner closes the base store (a handler Stop must not end the harness' view).
func (m *Monitor) Close() error { return nil }
