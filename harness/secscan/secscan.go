// Package secscan searches byte strings for secret scalars in every encoding the code base could emit them in:
// raw (both byte orders), hexadecimal (both cases), base64 (standard and URL alphabets, all three alignments, so
// that a secret embedded in a larger encoded structure is found), and decimal.
package secscan

import (
	"bytes"
	"encoding/base64"
	"encoding/hex"
	"math/big"
	"strings"
)

type Secret struct {
	Name string
	Raw  []byte
}

type pat struct {
	secret string
	enc    string
	b      []byte
}

type Hit struct {
	Secret   string `json:"secret"`
	Encoding string `json:"encoding"`
	Offset   int    `json:"offset"`
}

type Scanner struct {
	pats    []pat
	Secrets int
}

func New(secrets []Secret) *Scanner {
	s := &Scanner{}
	seen := map[string]bool{}
	for _, sec := range secrets {
		if len(sec.Raw) < 16 || seen[string(sec.Raw)] {
			continue
		}
		seen[string(sec.Raw)] = true
		s.Secrets++
		rev := make([]byte, len(sec.Raw))
		for i, b := range sec.Raw {
			rev[len(rev)-1-i] = b
		}
		for _, v := range []struct {
			n string
			b []byte
		}{{"be", sec.Raw}, {"le", rev}} {
			add := func(enc string, b []byte) { s.pats = append(s.pats, pat{sec.Name, enc + "/" + v.n, b}) }
			add("raw", v.b)
			h := hex.EncodeToString(v.b)
			add("hex", []byte(h))
			add("HEX", []byte(strings.ToUpper(h)))
			add("decimal", []byte(new(big.Int).SetBytes(v.b).String()))
			for k := 0; k < 3; k++ {
				padded := append(make([]byte, k), v.b...)
				for name, e := range map[string]*base64.Encoding{"base64": base64.RawStdEncoding, "base64url": base64.RawURLEncoding} {
					enc := e.EncodeToString(padded)
					skip := (8*k + 5) / 6
					full := 8 * len(padded) / 6
					if full-skip >= 24 {
						add(name, []byte(enc[skip:full]))
					}
				}
			}
		}
	}
	return s
}

// Scan returns every occurrence class (first offset per secret and encoding) found in hay.
func (s *Scanner) Scan(hay []byte) []Hit {
	var out []Hit
	for _, p := range s.pats {
		if i := bytes.Index(hay, p.b); i >= 0 {
			out = append(out, Hit{p.secret, p.enc, i})
		}
	}
	return out
}

func (s *Scanner) Patterns() int { return len(s.pats) }
