// Package dnet is the in-memory DKG network: n real dkg.Process instances (real bolt DKG stores, real kyber
// protocol) wired by a mock net.DKGClient whose RPCs call the peer's real entry points in the caller's thread,
// under the vrt scheduler and virtual time. Gossip and broadcast packets are recorded; a hook decides delivery.
package dnet

import (
	"context"
	"fmt"
	"time"

	"google.golang.org/grpc"
	"google.golang.org/protobuf/types/known/timestamppb"

	"github.com/drand/drand/v2/common/key"
	"github.com/drand/drand/v2/crypto"
	"github.com/drand/drand/v2/internal/dkg"
	dnetpkg "github.com/drand/drand/v2/internal/net"
	"github.com/drand/drand/v2/internal/util"
	pdkg "github.com/drand/drand/v2/protobuf/dkg"
	"github.com/drand/drand/v2/verifharness/fix"
	vrt "verif.local/vrt"
)

type ident struct{ kp *key.Pair }

func (i ident) KeypairFor(string) (*key.Pair, error) { return i.kp, nil }

type Node struct {
	Idx   int
	Pair  *key.Pair
	Part  *pdkg.Participant
	Store *dkg.BoltStore
	Proc  *dkg.Process
	Out   chan dkg.SharingOutput
	Outs  []dkg.SharingOutput
	Down  bool
	// Dir is the folder of the node's DKG database
	Dir string
	// Offset is this node's clock skew (seen by its code through package time)
	Offset time.Duration
	rm     func()
}

// as runs f with the calling thread's clock set to the node's (threads spawned inside inherit it).
func (nd *Node) as(f func()) {
	old := vrt.SetThreadOffset(nd.Offset)
	defer vrt.SetThreadOffset(old)
	f()
}

type Sent struct {
	From, To string
	Gossip   *pdkg.GossipPacket
	Bundle   *pdkg.DKGPacket
	Err      error
}

type Net struct {
	Scheme *crypto.Scheme
	Nodes  []*Node
	byAddr map[string]*Node
	Sent   []*Sent
	// Deliver, when set, decides per message: 0 deliver, 1 drop (error to the sender), 2 duplicate, 3 hold
	Deliver func(s *Sent) int
	// HoldUntil: bundles addressed to this node are held until the virtual time given (one slow node)
	HoldTo    string
	HoldUntil time.Time
	BeaconID  string
	Cfg       dkg.Config
}

func New(sch *crypto.Scheme) *Net {
	return &Net{Scheme: sch, byAddr: map[string]*Node{}, BeaconID: "default",
		Cfg: dkg.Config{TimeBetweenDKGPhases: 10 * time.Second, KickoffGracePeriod: 5 * time.Second, Timeout: 24 * time.Hour}}
}

// NewPair makes a key pair for an address (outside or inside a run).
func NewPair(sch *crypto.Scheme, addr string) (*key.Pair, *pdkg.Participant) {
	kp := fix.DetKeyPair(addr, addr, sch)
	p, err := util.PublicKeyAsParticipant(kp.Public)
	if err != nil {
		panic(err)
	}
	return kp, p
}

// AddNode builds a real Process for the key pair. Must be called inside a run (the fan-out channel starts a goroutine).
func (n *Net) AddNode(kp *key.Pair) (*Node, error) {
	dir, rm := fix.ScratchDir()
	st, err := dkg.NewDKGStore(dir)
	if err != nil {
		rm()
		return nil, err
	}
	p, _ := util.PublicKeyAsParticipant(kp.Public)
	nd := &Node{Idx: len(n.Nodes), Pair: kp, Part: p, Store: st, rm: rm, Dir: dir}
	fo := util.NewFanOutChan[dkg.SharingOutput]()
	nd.Out = fo.Listen()
	nd.Proc = dkg.NewDKGProcess(st, ident{kp}, fo, &client{n: n, self: nd}, nil, n.Cfg, fix.Logger())
	n.Nodes = append(n.Nodes, nd)
	n.byAddr[p.Address] = nd
	// collector thread for this node's completed DKGs
	vrt.GoNamed(fmt.Sprintf("collector-%d", nd.Idx), func() {
		for {
			o, ok := vrt.Recv2(nd.Out)
			if !ok {
				return
			}
			nd.Outs = append(nd.Outs, o)
			vrt.Logf("node %d: DKG output epoch %d", nd.Idx, o.New.Epoch)
		}
	})
	return nd, nil
}

// Client returns a DKG client of this network that belongs to no node (its gossip to unknown addresses is swallowed).
func (n *Net) Client() dnetpkg.DKGClient {
	return &client{n: n, self: &Node{Part: &pdkg.Participant{Address: "harness"}}}
}

// Close releases stores (after the run).
func (n *Net) Close() {
	for _, nd := range n.Nodes {
		_ = nd.Store.Close()
		nd.rm()
	}
}

type client struct {
	n    *Net
	self *Node
}

var _ dnetpkg.DKGClient = (*client)(nil)

func (c *client) Packet(ctx context.Context, p dnetpkg.Peer, packet *pdkg.GossipPacket, _ ...grpc.CallOption) (*pdkg.EmptyDKGResponse, error) {
	s := &Sent{From: c.self.Part.Address, To: p.Address(), Gossip: packet}
	c.n.Sent = append(c.n.Sent, s)
	t := c.n.byAddr[p.Address()]
	if t == nil || t.Down {
		// participants that are not real processes in this run swallow gossip (no retry storm)
		return &pdkg.EmptyDKGResponse{}, nil
	}
	act := 0
	if c.n.Deliver != nil {
		act = c.n.Deliver(s)
	}
	switch act {
	case 1:
		s.Err = fmt.Errorf("dnet: dropped")
		return nil, s.Err
	case 2:
		t.as(func() { _, _ = t.Proc.Packet(ctx, packet) })
	}
	var r *pdkg.EmptyDKGResponse
	var err error
	t.as(func() { r, err = t.Proc.Packet(ctx, packet) })
	s.Err = err
	return r, err
}

func (c *client) BroadcastDKG(ctx context.Context, p dnetpkg.Peer, in *pdkg.DKGPacket, _ ...grpc.CallOption) (*pdkg.EmptyDKGResponse, error) {
	s := &Sent{From: c.self.Part.Address, To: p.Address(), Bundle: in}
	c.n.Sent = append(c.n.Sent, s)
	t := c.n.byAddr[p.Address()]
	if t == nil || t.Down {
		return nil, fmt.Errorf("dnet: %s unreachable", p.Address())
	}
	if c.n.HoldTo == p.Address() {
		clk := &vrt.Clock{}
		if d := c.n.HoldUntil.Sub(clk.Now()); d > 0 {
			clk.Sleep(d)
		}
	}
	act := 0
	if c.n.Deliver != nil {
		act = c.n.Deliver(s)
	}
	switch act {
	case 1:
		s.Err = fmt.Errorf("dnet: dropped")
		return nil, s.Err
	case 2:
		t.as(func() { _, _ = t.Proc.BroadcastDKG(ctx, in) })
	}
	var r *pdkg.EmptyDKGResponse
	var err error
	t.as(func() { r, err = t.Proc.BroadcastDKG(ctx, in) })
	s.Err = err
	return r, err
}

// ---- command helpers ----

func (n *Net) md() *pdkg.CommandMetadata { return &pdkg.CommandMetadata{BeaconID: n.BeaconID} }

func (n *Net) Initial(ctx context.Context, leader *Node, joining []*pdkg.Participant, thr int, genesis time.Time, timeout time.Time) error {
	var err error
	leader.as(func() {
		_, err = leader.Proc.Command(ctx, &pdkg.DKGCommand{Metadata: n.md(), Command: &pdkg.DKGCommand_Initial{Initial: &pdkg.FirstProposalOptions{
			Timeout: timestamppb.New(timeout), Threshold: uint32(thr), PeriodSeconds: 3, Scheme: n.Scheme.Name, CatchupPeriodSeconds: 1,
			GenesisTime: timestamppb.New(genesis), Joining: joining}}})
	})
	return err
}

func (n *Net) Reshare(ctx context.Context, leader *Node, remaining, joining, leaving []*pdkg.Participant, thr int, timeout time.Time) error {
	var err error
	leader.as(func() {
		_, err = leader.Proc.Command(ctx, &pdkg.DKGCommand{Metadata: n.md(), Command: &pdkg.DKGCommand_Resharing{Resharing: &pdkg.ProposalOptions{
			Timeout: timestamppb.New(timeout), Threshold: uint32(thr), CatchupPeriodSeconds: 1, Remaining: remaining, Joining: joining, Leaving: leaving}}})
	})
	return err
}

func (n *Net) Join(ctx context.Context, nd *Node, groupFile []byte) error {
	var err error
	nd.as(func() {
		_, err = nd.Proc.Command(ctx, &pdkg.DKGCommand{Metadata: n.md(), Command: &pdkg.DKGCommand_Join{Join: &pdkg.JoinOptions{GroupFile: groupFile}}})
	})
	return err
}
func (n *Net) Accept(ctx context.Context, nd *Node) error {
	var err error
	nd.as(func() {
		_, err = nd.Proc.Command(ctx, &pdkg.DKGCommand{Metadata: n.md(), Command: &pdkg.DKGCommand_Accept{Accept: &pdkg.AcceptOptions{}}})
	})
	return err
}
func (n *Net) Reject(ctx context.Context, nd *Node) error {
	var err error
	nd.as(func() {
		_, err = nd.Proc.Command(ctx, &pdkg.DKGCommand{Metadata: n.md(), Command: &pdkg.DKGCommand_Reject{Reject: &pdkg.RejectOptions{}}})
	})
	return err
}
func (n *Net) Execute(ctx context.Context, nd *Node) error {
	var err error
	nd.as(func() {
		_, err = nd.Proc.Command(ctx, &pdkg.DKGCommand{Metadata: n.md(), Command: &pdkg.DKGCommand_Execute{Execute: &pdkg.ExecutionOptions{}}})
	})
	return err
}
func (n *Net) Abort(ctx context.Context, nd *Node) error {
	var err error
	nd.as(func() {
		_, err = nd.Proc.Command(ctx, &pdkg.DKGCommand{Metadata: n.md(), Command: &pdkg.DKGCommand_Abort{Abort: &pdkg.AbortOptions{}}})
	})
	return err
}

// Current / Finished read a node's DKG database.
func (nd *Node) Current(beaconID string) *dkg.DBState {
	s, err := nd.Store.GetCurrent(beaconID)
	if err != nil {
		return nil
	}
	return s
}
func (nd *Node) Finished(beaconID string) *dkg.DBState {
	s, err := nd.Store.GetFinished(beaconID)
	if err != nil {
		return nil
	}
	return s
}
