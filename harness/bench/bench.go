//go:build conn_insecure

// Package bench is the daemon bench: a real core.DrandDaemon on loopback (gRPC private gateway, control port, HTTP
// public gateway) running one or more fabricated single-node chains (threshold 1 of 1: key pair, group file and
// share written with the real key store; the daemon loads them through its documented migration path and produces
// beacons alone), used by the checks whose properties are stated about endpoints of a whole daemon.
package bench

import (
	"context"
	"fmt"
	"io"
	"net/http"
	"time"

	"google.golang.org/grpc"
	"google.golang.org/grpc/credentials/insecure"

	"github.com/drand/drand/v2/common"
	pubchain "github.com/drand/drand/v2/common/chain"
	"github.com/drand/drand/v2/common/key"
	"github.com/drand/drand/v2/common/log"
	"github.com/drand/drand/v2/crypto"
	"github.com/drand/drand/v2/internal/chain"
	"github.com/drand/drand/v2/internal/core"
	dnet "github.com/drand/drand/v2/internal/net"
	pdkg "github.com/drand/drand/v2/protobuf/dkg"
	proto "github.com/drand/drand/v2/protobuf/drand"
	"github.com/drand/drand/v2/verifharness/fix"
	"github.com/drand/kyber"
	"github.com/drand/kyber/share"
	kdkg "github.com/drand/kyber/share/dkg"
)

type Chain struct {
	ID     string
	Scheme *crypto.Scheme
	Pair   *key.Pair
	Group  *key.Group
	Share  *key.Share
	Shares []*key.Share // of every member (index order); the harness acts for the others
	Info   *pubchain.Info
	Hash   []byte
	PubKey kyber.Point
}

type Bench struct {
	Dir      string
	Addr     string // private gRPC gateway
	PubAddr  string // HTTP
	CtrlPort string
	DD       *core.DrandDaemon
	Chains   map[string]*Chain
	Order    []string
	Conn     *grpc.ClientConn
	Public   proto.PublicClient
	Protocol proto.ProtocolClient
	DKG      pdkg.DKGPublicClient
	Ctrl     *dnet.ControlClient
	Log      log.Logger
	Period   time.Duration
}

// Member is another member of a fabricated group (its key pair is derived from the label, so that the harness can
// act for it).
type Member struct {
	Label string `json:"label"`
	Addr  string `json:"addr"`
}

func (m Member) Pair(sch *crypto.Scheme) *key.Pair { return fix.DetKeyPair(m.Label, m.Addr, sch) }

// material derives the deterministic key material of a chain: the daemon's pair, the group (the daemon is index 0, the
// other members follow; threshold = majority) and the private polynomial.
func material(id, schemeID, addr string, period time.Duration, genesis int64, others []Member) (*Chain, *share.PriPoly, error) {
	sch, err := crypto.SchemeFromName(schemeID)
	if err != nil {
		return nil, nil, err
	}
	kp := fix.DetKeyPair("bench/"+id+"/"+schemeID, addr, sch)
	n := 1 + len(others)
	thr := n/2 + 1
	pri := share.NewPriPoly(sch.KeyGroup, thr, nil, fix.DetStream("bench-poly/"+id+"/"+schemeID))
	_, commits := pri.Commit(sch.KeyGroup.Point().Base()).Info()
	nodes := []*key.Node{{Identity: kp.Public, Index: 0}}
	for i, m := range others {
		nodes = append(nodes, &key.Node{Identity: m.Pair(sch).Public, Index: uint32(i + 1)})
	}
	g := &key.Group{Threshold: thr, Period: period, Scheme: sch, ID: id, CatchupPeriod: 0, GenesisTime: genesis,
		Nodes: nodes, PublicKey: &key.DistPublic{Coefficients: commits}}
	g.GenesisSeed = g.Hash()
	c := &Chain{ID: id, Scheme: sch, Pair: kp, Group: g}
	for _, s := range pri.Shares(n) {
		c.Shares = append(c.Shares, &key.Share{DistKeyShare: kdkg.DistKeyShare{Share: s, Commits: commits}, Scheme: sch})
	}
	c.Share = c.Shares[0]
	c.Info = pubchain.NewChainInfo(g)
	c.Hash = c.Info.Hash()
	c.PubKey = g.PublicKey.Key()
	return c, pri, nil
}

// Fabricate writes the files of a 1-of-1 chain into the daemon folder.
func Fabricate(folderMB, id, schemeID, addr string, period time.Duration, genesis int64) (*Chain, error) {
	return FabricateGroup(folderMB, id, schemeID, addr, period, genesis, nil)
}

// FabricateGroup writes the files of a chain whose group is the daemon plus the given other members.
func FabricateGroup(folderMB, id, schemeID, addr string, period time.Duration, genesis int64, others []Member) (*Chain, error) {
	c, _, err := material(id, schemeID, addr, period, genesis, others)
	if err != nil {
		return nil, err
	}
	ks := key.NewFileStore(folderMB, id)
	if err := ks.SaveKeyPair(c.Pair); err != nil {
		return nil, err
	}
	if err := ks.SaveGroup(c.Group); err != nil {
		return nil, err
	}
	if err := ks.SaveShare(c.Share); err != nil {
		return nil, err
	}
	return c, nil
}

// ChainOf recomputes (deterministically) the material of a chain of a child daemon without touching the disk.
func ChainOf(cs ChainSpec, sp Spec) *Chain {
	sch, err := crypto.SchemeFromName(cs.Scheme)
	if err != nil {
		panic(err)
	}
	if cs.Kind == "fresh" {
		return &Chain{ID: cs.ID, Scheme: sch, Pair: fix.DetKeyPair("bench/"+sp.Label+cs.ID+"/"+cs.Scheme, sp.identity(), sch)}
	}
	var others []Member
	if cs.Kind == "group" {
		others = sp.Members
	}
	c, _, err := material(cs.ID, cs.Scheme, sp.identity(), time.Duration(sp.PeriodS)*time.Second, sp.Genesis, others)
	if err != nil {
		panic(err)
	}
	return c
}

// Start fabricates the chains, starts a real daemon on them and connects clients.
func Start(ctx context.Context, dir string, ids []string, schemes []string, period time.Duration, l log.Logger) (*Bench, error) {
	b := &Bench{Dir: dir, Chains: map[string]*Chain{}, Order: ids, Log: l, Period: period}
	b.Addr = "127.0.0.1:" + FreePort()
	b.PubAddr = "127.0.0.1:" + FreePort()
	b.CtrlPort = FreePort()
	conf := core.NewConfig(l, core.WithConfigFolder(dir), core.WithPrivateListenAddress(b.Addr), core.WithControlPort(b.CtrlPort),
		core.WithDBStorageEngine(chain.BoltDB), core.WithPublicListenAddress(b.PubAddr),
		core.WithDkgPhaseTimeout(2*time.Second), core.WithDkgKickoffGracePeriod(time.Second))
	genesis := time.Now().Unix() - 2
	for i, id := range ids {
		c, err := Fabricate(conf.ConfigFolderMB(), id, schemes[i%len(schemes)], b.Addr, period, genesis)
		if err != nil {
			return nil, err
		}
		b.Chains[id] = c
	}
	dd, err := core.NewDrandDaemon(ctx, conf)
	if err != nil {
		return nil, err
	}
	b.DD = dd
	if err := dd.LoadBeaconsFromDisk(ctx, "", false, ""); err != nil {
		return nil, fmt.Errorf("load: %w", err)
	}
	conn, err := grpc.NewClient(b.Addr, grpc.WithTransportCredentials(insecure.NewCredentials()))
	if err != nil {
		return nil, err
	}
	b.Conn = conn
	b.Public = proto.NewPublicClient(conn)
	b.Protocol = proto.NewProtocolClient(conn)
	b.DKG = pdkg.NewDKGPublicClient(conn)
	b.Ctrl, err = dnet.NewControlClient(l, b.CtrlPort)
	if err != nil {
		return nil, err
	}
	return b, nil
}

// WaitBeacons waits (generously) until every chain has produced round >= r.
func (b *Bench) WaitBeacons(ctx context.Context, r uint64, max time.Duration) error {
	deadline := time.Now().Add(max)
	for _, id := range b.Order {
		for {
			cctx, cancel := context.WithTimeout(ctx, 5*time.Second)
			resp, err := b.Public.PublicRand(cctx, &proto.PublicRandRequest{Metadata: &proto.Metadata{BeaconID: id}})
			cancel()
			if err == nil && resp.Round >= r {
				break
			}
			if time.Now().After(deadline) {
				return fmt.Errorf("chain %s did not reach round %d within %v (last error %v)", id, r, max, err)
			}
			time.Sleep(200 * time.Millisecond)
		}
	}
	return nil
}

func (b *Bench) Stop(ctx context.Context) {
	if b.Ctrl != nil {
		_ = b.Ctrl.Close()
	}
	if b.Conn != nil {
		_ = b.Conn.Close()
	}
	if b.DD != nil {
		b.DD.Stop(ctx)
	}
}

// HTTPGet fetches a path of the public HTTP gateway.
func (b *Bench) HTTPGet(path string) (int, []byte, error) {
	cl := &http.Client{Timeout: 10 * time.Second}
	resp, err := cl.Get("http://" + b.PubAddr + path)
	if err != nil {
		return 0, nil, err
	}
	defer resp.Body.Close()
	body, err := io.ReadAll(io.LimitReader(resp.Body, 1<<20))
	return resp.StatusCode, body, err
}

// WhoseBeacon returns the id of the chain under whose key the beacon verifies ("" if none).
func (b *Bench) WhoseBeacon(round uint64, sig, prev []byte) string {
	for _, id := range b.Order {
		c := b.Chains[id]
		bc := &common.Beacon{Round: round, Signature: sig, PreviousSig: prev}
		if c.Scheme.Name != crypto.DefaultSchemeID {
			bc.PreviousSig = nil
		}
		if len(sig) > 0 && c.Scheme.VerifyBeacon(bc, c.PubKey) == nil {
			return id
		}
	}
	return ""
}

// WhoseKey returns the id of the chain with that distributed public key.
func (b *Bench) WhoseKey(pk []byte) string {
	for _, id := range b.Order {
		kb, _ := b.Chains[id].PubKey.MarshalBinary()
		if string(kb) == string(pk) {
			return id
		}
	}
	return ""
}
