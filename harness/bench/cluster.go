//go:build conn_insecure

package bench

import (
	"context"
	"fmt"
	"io"
	"net"
	"sync"
	"time"

	"google.golang.org/protobuf/types/known/timestamppb"

	"github.com/drand/drand/v2/crypto"
	"github.com/drand/drand/v2/internal/dkg"
	dnet "github.com/drand/drand/v2/internal/net"
	"github.com/drand/drand/v2/internal/util"
	pdkg "github.com/drand/drand/v2/protobuf/dkg"
	proto "github.com/drand/drand/v2/protobuf/drand"
	"github.com/drand/drand/v2/verifharness/fix"
)

// Proxy is a recording TCP forwarder: the address in a daemon's identity is the proxy's, so that everything its
// peers send to it (and its answers) passes through and is kept, byte for byte, per direction.
type Proxy struct {
	Listen string
	Target string
	l      net.Listener
	mu     sync.Mutex
	In     [][]byte // client -> daemon, one entry per connection
	Out    [][]byte // daemon -> client
	conns  []net.Conn
}

// CutAll resets every connection that currently passes through the proxy (new connections are accepted as before).
func (p *Proxy) CutAll() int {
	p.mu.Lock()
	cs := p.conns
	p.conns = nil
	p.mu.Unlock()
	for _, c := range cs {
		_ = c.Close()
	}
	return len(cs) / 2
}

func NewProxy(target string) (*Proxy, error) {
	p := &Proxy{Target: target, Listen: "127.0.0.1:" + FreePort()}
	l, err := net.Listen("tcp", p.Listen)
	if err != nil {
		return nil, err
	}
	p.l = l
	go func() {
		for {
			c, err := l.Accept()
			if err != nil {
				return
			}
			go p.serve(c)
		}
	}()
	return p, nil
}

func (p *Proxy) serve(c net.Conn) {
	defer c.Close()
	t, err := net.DialTimeout("tcp", p.Target, 5*time.Second)
	if err != nil {
		return
	}
	defer t.Close()
	p.mu.Lock()
	idx := len(p.In)
	p.In = append(p.In, nil)
	p.Out = append(p.Out, nil)
	p.conns = append(p.conns, c, t)
	p.mu.Unlock()
	cp := func(dst, src net.Conn, rec *[][]byte) {
		buf := make([]byte, 32<<10)
		for {
			n, err := src.Read(buf)
			if n > 0 {
				p.mu.Lock()
				(*rec)[idx] = append((*rec)[idx], buf[:n]...)
				p.mu.Unlock()
				if _, werr := dst.Write(buf[:n]); werr != nil {
					return
				}
			}
			if err != nil {
				if err != io.EOF {
					_ = err
				}
				if tc, ok := dst.(*net.TCPConn); ok {
					_ = tc.CloseWrite()
				}
				return
			}
		}
	}
	done := make(chan struct{})
	go func() { cp(t, c, &p.In); close(done) }()
	cp(c, t, &p.Out)
	<-done
}

func (p *Proxy) Close() { _ = p.l.Close() }

// Streams returns copies of all recorded byte streams.
func (p *Proxy) Streams() [][]byte {
	p.mu.Lock()
	defer p.mu.Unlock()
	var out [][]byte
	for _, b := range p.In {
		out = append(out, append([]byte{}, b...))
	}
	for _, b := range p.Out {
		out = append(out, append([]byte{}, b...))
	}
	return out
}

// Cluster is n real daemons (child processes) that reach each other through recording proxies.
type Cluster struct {
	ID      string
	Scheme  *crypto.Scheme
	Nodes   []*Child
	Proxies []*Proxy
	DKGCtl  []pdkg.DKGControlClient
	Parts   []*pdkg.Participant
	Dirs    []string
	rms     []func()
	Period  int
}

// NewClusterSpecs prepares (without starting) the n daemons: directories, ports, proxies.
func NewCluster(n int, id, schemeID string, periodS int, logs bool) (*Cluster, error) {
	sch, err := crypto.SchemeFromName(schemeID)
	if err != nil {
		return nil, err
	}
	c := &Cluster{ID: id, Scheme: sch, Period: periodS}
	for i := 0; i < n; i++ {
		dir, rm := fix.ScratchDir()
		c.Dirs = append(c.Dirs, dir)
		c.rms = append(c.rms, rm)
		sp := NewSpec(dir, []ChainSpec{{ID: id, Scheme: schemeID, Kind: "fresh"}}, periodS)
		sp.Label = fmt.Sprintf("node%d/", i)
		sp.DkgPhaseS = 10
		if logs {
			sp.LogFile = dir + "/daemon.log"
		}
		px, err := NewProxy(sp.Addr)
		if err != nil {
			return nil, err
		}
		sp.IdentityAddr = px.Listen
		c.Proxies = append(c.Proxies, px)
		c.Nodes = append(c.Nodes, &Child{Spec: sp})
	}
	return c, nil
}

// StartNode (re)starts daemon i, optionally under a wrapper command / with extra environment.
func (c *Cluster) StartNode(i int, env []string, wrapper ...string) error {
	sp := c.Nodes[i].Spec
	ch, err := StartChildEnv(sp, env, wrapper...)
	if err != nil {
		return err
	}
	c.Nodes[i] = ch
	ctl, err := dnet.NewDKGControlClient(fix.Logger(), sp.CtrlPort)
	if err != nil {
		return err
	}
	for len(c.DKGCtl) <= i {
		c.DKGCtl = append(c.DKGCtl, nil)
		c.Parts = append(c.Parts, nil)
	}
	c.DKGCtl[i] = ctl
	p, err := util.PublicKeyAsParticipant(ch.Chains[c.ID].Pair.Public)
	if err != nil {
		return err
	}
	c.Parts[i] = p
	return nil
}

func (c *Cluster) Start() error {
	for i := range c.Nodes {
		if err := c.StartNode(i, nil); err != nil {
			return fmt.Errorf("node %d: %w", i, err)
		}
	}
	return nil
}

func (c *Cluster) Close() {
	for _, n := range c.Nodes {
		if n != nil && n.Cmd != nil {
			n.Kill(false)
		}
	}
	for _, p := range c.Proxies {
		p.Close()
	}
	for _, rm := range c.rms {
		rm()
	}
}

func (c *Cluster) md() *pdkg.CommandMetadata { return &pdkg.CommandMetadata{BeaconID: c.ID} }

// Status returns "State/epoch" of the current and completed DKG records of node i.
func (c *Cluster) Status(i int) (cur, done string, err error) {
	ctx, cancel := context.WithTimeout(context.Background(), 20*time.Second)
	defer cancel()
	r, err := c.DKGCtl[i].DKGStatus(ctx, &pdkg.DKGStatusRequest{BeaconID: c.ID})
	if err != nil {
		return "", "", err
	}
	f := func(e *pdkg.DKGEntry) string {
		if e == nil {
			return "-"
		}
		return fmt.Sprintf("%s/%d", dkg.Status(e.State), e.Epoch)
	}
	return f(r.Current), f(r.Complete), nil
}

// WaitComplete waits until every listed node reports the epoch as completed.
func (c *Cluster) WaitComplete(epoch int, nodes []int, max time.Duration) error {
	deadline := time.Now().Add(max)
	want := fmt.Sprintf("Complete/%d", epoch)
	for {
		ok := true
		var last string
		for _, i := range nodes {
			_, done, err := c.Status(i)
			if err != nil || done != want {
				ok = false
				last = fmt.Sprintf("node %d: %s %v", i, done, err)
			}
		}
		if ok {
			return nil
		}
		if time.Now().After(deadline) {
			return fmt.Errorf("epoch %d not completed after %s (%s)", epoch, max, last)
		}
		time.Sleep(200 * time.Millisecond)
	}
}

// Propose / Join / Accept / Execute are the operator commands.
func (c *Cluster) ProposeInitial(leader int, joiners []int, thr int, genesisIn time.Duration) error {
	ctx, cancel := context.WithTimeout(context.Background(), 60*time.Second)
	defer cancel()
	var js []*pdkg.Participant
	for _, i := range joiners {
		js = append(js, c.Parts[i])
	}
	_, err := c.DKGCtl[leader].Command(ctx, &pdkg.DKGCommand{Metadata: c.md(), Command: &pdkg.DKGCommand_Initial{Initial: &pdkg.FirstProposalOptions{
		Timeout: timestamppb.New(time.Now().Add(10 * time.Minute)), Threshold: uint32(thr), PeriodSeconds: uint32(c.Period), Scheme: c.Scheme.Name,
		CatchupPeriodSeconds: 1, GenesisTime: timestamppb.New(time.Now().Add(genesisIn).Truncate(time.Second)), Joining: js}}})
	return err
}

func (c *Cluster) ProposeReshare(leader int, remaining, joining, leaving []int, thr int) error {
	ctx, cancel := context.WithTimeout(context.Background(), 60*time.Second)
	defer cancel()
	ps := func(l []int) []*pdkg.Participant {
		var out []*pdkg.Participant
		for _, i := range l {
			out = append(out, c.Parts[i])
		}
		return out
	}
	_, err := c.DKGCtl[leader].Command(ctx, &pdkg.DKGCommand{Metadata: c.md(), Command: &pdkg.DKGCommand_Resharing{Resharing: &pdkg.ProposalOptions{
		Timeout: timestamppb.New(time.Now().Add(10 * time.Minute)), Threshold: uint32(thr), CatchupPeriodSeconds: 1,
		Remaining: ps(remaining), Joining: ps(joining), Leaving: ps(leaving)}}})
	return err
}

func (c *Cluster) cmd(i int, cmd *pdkg.DKGCommand) error {
	ctx, cancel := context.WithTimeout(context.Background(), 60*time.Second)
	defer cancel()
	cmd.Metadata = c.md()
	_, err := c.DKGCtl[i].Command(ctx, cmd)
	return err
}

func (c *Cluster) Join(i int, groupFile []byte) error {
	return c.cmd(i, &pdkg.DKGCommand{Command: &pdkg.DKGCommand_Join{Join: &pdkg.JoinOptions{GroupFile: groupFile}}})
}
func (c *Cluster) Accept(i int) error {
	return c.cmd(i, &pdkg.DKGCommand{Command: &pdkg.DKGCommand_Accept{Accept: &pdkg.AcceptOptions{}}})
}
func (c *Cluster) Execute(i int) error {
	return c.cmd(i, &pdkg.DKGCommand{Command: &pdkg.DKGCommand_Execute{Execute: &pdkg.ExecutionOptions{}}})
}

// Head returns the latest round node i serves.
func (c *Cluster) Head(i int) (uint64, error) {
	ctx, cancel := context.WithTimeout(context.Background(), 10*time.Second)
	defer cancel()
	r, err := c.Nodes[i].Public.PublicRand(ctx, &proto.PublicRandRequest{Metadata: &proto.Metadata{BeaconID: c.ID}})
	if err != nil {
		return 0, err
	}
	return r.Round, nil
}

// WaitHead waits until node i serves at least round r.
func (c *Cluster) WaitHead(i int, r uint64, max time.Duration) error {
	deadline := time.Now().Add(max)
	for {
		h, err := c.Head(i)
		if err == nil && h >= r {
			return nil
		}
		if time.Now().After(deadline) {
			return fmt.Errorf("node %d: head %d (%v), wanted %d after %s", i, h, err, r, max)
		}
		time.Sleep(200 * time.Millisecond)
	}
}

var (
	portMu   sync.Mutex
	portUsed = map[string]bool{}
)

// FreePort hands out a free loopback port, never the same one twice in this process (several worlds and clusters
// are set up concurrently).
func FreePort() string {
	portMu.Lock()
	defer portMu.Unlock()
	if len(portUsed) > 4000 {
		// a long run restarts thousands of daemons: ports handed out long ago are free again (never let the set of
		// remembered ports cover the whole ephemeral range)
		portUsed = map[string]bool{}
	}
	for {
		l, err := net.Listen("tcp", "127.0.0.1:0")
		if err != nil {
			panic(err)
		}
		_, p, _ := net.SplitHostPort(l.Addr().String())
		_ = l.Close()
		if !portUsed[p] {
			portUsed[p] = true
			return p
		}
	}
}
