//go:build conn_insecure

package bench

import (
	"bufio"
	"context"
	"encoding/json"
	"fmt"
	"io"
	"os"
	"os/exec"
	"os/signal"
	"strings"
	"syscall"
	"time"

	"google.golang.org/grpc"
	"google.golang.org/grpc/credentials/insecure"

	"github.com/drand/drand/v2/common/key"
	"github.com/drand/drand/v2/common/log"
	"github.com/drand/drand/v2/crypto"
	"github.com/drand/drand/v2/internal/chain"
	"github.com/drand/drand/v2/internal/core"
	dnet "github.com/drand/drand/v2/internal/net"
	pdkg "github.com/drand/drand/v2/protobuf/dkg"
	proto "github.com/drand/drand/v2/protobuf/drand"
	"github.com/drand/drand/v2/verifharness/fix"
)

// ChainSpec describes one beacon id of a child daemon: "running" chains are fabricated 1-of-1 groups, "fresh" ones
// have only a key pair (the daemon expects a DKG).
type ChainSpec struct {
	ID     string `json:"id"`
	Scheme string `json:"scheme"`
	Kind   string `json:"kind"`
}

type Spec struct {
	Dir      string      `json:"dir"`
	Addr     string      `json:"addr"`
	PubAddr  string      `json:"pub_addr"`
	CtrlPort string      `json:"ctrl_port"`
	Chains   []ChainSpec `json:"chains"`
	PeriodS  int         `json:"period_s"`
	Genesis  int64       `json:"genesis"`
	LogFile  string      `json:"log_file"` // debug-level log of the daemon (C15 scans it)
	Storage  string      `json:"storage"`
	// IdentityAddr is the address in the daemon's identities (default: Addr). A fixed value makes the key material of
	// daemons listening on different ports identical.
	IdentityAddr string `json:"identity_addr"`
	// Label distinguishes the key material of the fresh chains of several daemons
	Label string `json:"label"`
	// Members are the other members of chains of kind "group"
	Members []Member `json:"members"`
	// DkgPhaseS is the DKG phase timeout in seconds (default 2)
	DkgPhaseS int `json:"dkg_phase_s"`
}

func (sp Spec) identity() string {
	if sp.IdentityAddr != "" {
		return sp.IdentityAddr
	}
	return sp.Addr
}

const childEnv = "VERIF_BENCH_CHILD"

// MaybeChild must be called first thing in main(): if this process was started as a bench daemon it never returns.
func MaybeChild() {
	js := os.Getenv(childEnv)
	if js == "" {
		return
	}
	var sp Spec
	if err := json.Unmarshal([]byte(js), &sp); err != nil {
		fmt.Println("CHILD-ERROR", err)
		os.Exit(3)
	}
	l := fix.Logger()
	if sp.LogFile != "" {
		f, err := os.OpenFile(sp.LogFile, os.O_CREATE|os.O_WRONLY|os.O_APPEND, 0o600)
		if err == nil {
			l = log.New(f, log.DebugLevel, true)
		}
	}
	ctx := context.Background()
	eng := chain.BoltDB
	if sp.Storage == "memdb" {
		eng = chain.MemDB
	}
	phase := 2 * time.Second
	if sp.DkgPhaseS > 0 {
		phase = time.Duration(sp.DkgPhaseS) * time.Second
	}
	conf := core.NewConfig(l, core.WithConfigFolder(sp.Dir), core.WithPrivateListenAddress(sp.Addr), core.WithControlPort(sp.CtrlPort),
		core.WithDBStorageEngine(eng), core.WithPublicListenAddress(sp.PubAddr), core.WithMemDBSize(2000),
		core.WithDkgPhaseTimeout(phase), core.WithDkgKickoffGracePeriod(time.Second))
	for _, cs := range sp.Chains {
		// a restart of the same directory must not rewrite anything
		if _, err := os.Stat(conf.ConfigFolderMB() + "/" + cs.ID); err == nil {
			continue
		}
		switch cs.Kind {
		case "running":
			if _, err := Fabricate(conf.ConfigFolderMB(), cs.ID, cs.Scheme, sp.identity(), time.Duration(sp.PeriodS)*time.Second, sp.Genesis); err != nil {
				fmt.Println("CHILD-ERROR", err)
				os.Exit(3)
			}
		case "group":
			if _, err := FabricateGroup(conf.ConfigFolderMB(), cs.ID, cs.Scheme, sp.identity(), time.Duration(sp.PeriodS)*time.Second, sp.Genesis, sp.Members); err != nil {
				fmt.Println("CHILD-ERROR", err)
				os.Exit(3)
			}
		case "fresh":
			sch, _ := crypto.SchemeFromName(cs.Scheme)
			kp := fix.DetKeyPair("bench/"+sp.Label+cs.ID+"/"+cs.Scheme, sp.identity(), sch)
			if err := key.NewFileStore(conf.ConfigFolderMB(), cs.ID).SaveKeyPair(kp); err != nil {
				fmt.Println("CHILD-ERROR", err)
				os.Exit(3)
			}
		}
	}
	dd, err := core.NewDrandDaemon(ctx, conf)
	if err != nil {
		fmt.Println("CHILD-ERROR", err)
		os.Exit(3)
	}
	if err := dd.LoadBeaconsFromDisk(ctx, "", false, ""); err != nil {
		fmt.Println("CHILD-ERROR load:", err)
		os.Exit(3)
	}
	// the daemon lives exactly as long as the harness that started it: the parent holds the other end of stdin
	go func() {
		_, _ = io.Copy(io.Discard, os.Stdin)
		os.Exit(0)
	}()
	fmt.Println("READY")
	sig := make(chan os.Signal, 1)
	signal.Notify(sig, syscall.SIGTERM, syscall.SIGINT)
	select {
	case <-sig:
		dd.Stop(ctx)
	case <-dd.WaitExit():
	}
	os.Exit(0)
}

type Child struct {
	*Bench
	Spec  Spec
	Cmd   *exec.Cmd
	exit  chan error
	stdin io.WriteCloser
}

// NewSpec picks free ports.
func NewSpec(dir string, chains []ChainSpec, periodS int) Spec {
	return Spec{Dir: dir, Addr: "127.0.0.1:" + FreePort(), PubAddr: "127.0.0.1:" + FreePort(), CtrlPort: FreePort(), Chains: chains,
		PeriodS: periodS, Genesis: time.Now().Unix() - 2, Storage: "bolt"}
}

// StartChild runs the daemon in a child process of this binary (optionally under a wrapper such as strace).
func StartChild(sp Spec, wrapper ...string) (*Child, error) {
	return StartChildEnv(sp, nil, wrapper...)
}

// StartChildEnv is StartChild with extra environment variables for the daemon process.
func StartChildEnv(sp Spec, env []string, wrapper ...string) (*Child, error) {
	js, _ := json.Marshal(sp)
	argv := append(append([]string{}, wrapper...), os.Args[0])
	cmd := exec.Command(argv[0], argv[1:]...)
	cmd.Env = append(append(os.Environ(), childEnv+"="+string(js)), env...)
	cmd.Stderr = os.Stderr
	if f, err := os.Create(sp.Dir + "/stderr.log"); err == nil {
		cmd.Stderr = f // a panic of the daemon ends up here
		defer f.Close()
	}
	stdin, err := cmd.StdinPipe()
	if err != nil {
		return nil, err
	}
	out, err := cmd.StdoutPipe()
	if err != nil {
		return nil, err
	}
	if err := cmd.Start(); err != nil {
		return nil, err
	}
	ch := &Child{Spec: sp, Cmd: cmd, exit: make(chan error, 1), stdin: stdin}
	ready := make(chan string, 1)
	go func() {
		sc := bufio.NewScanner(out)
		for sc.Scan() {
			line := sc.Text()
			if line == "READY" || strings.HasPrefix(line, "CHILD-ERROR") {
				select {
				case ready <- line:
				default:
				}
			}
		}
	}()
	go func() { ch.exit <- cmd.Wait() }()
	select {
	case line := <-ready:
		if line != "READY" {
			return nil, fmt.Errorf("bench child: %s", line)
		}
	case err := <-ch.exit:
		return nil, fmt.Errorf("bench child exited during start-up: %v", err)
	case <-time.After(90 * time.Second):
		_ = cmd.Process.Kill()
		return nil, fmt.Errorf("bench child not ready after 90 s")
	}
	b := &Bench{Dir: sp.Dir, Addr: sp.Addr, PubAddr: sp.PubAddr, CtrlPort: sp.CtrlPort, Chains: map[string]*Chain{}, Log: fix.Logger(), Period: time.Duration(sp.PeriodS) * time.Second}
	for _, cs := range sp.Chains {
		b.Order = append(b.Order, cs.ID)
		b.Chains[cs.ID] = ChainOf(cs, sp)
	}
	conn, err := grpc.NewClient(sp.Addr, grpc.WithTransportCredentials(insecure.NewCredentials()))
	if err != nil {
		return nil, err
	}
	b.Conn = conn
	b.Public = proto.NewPublicClient(conn)
	b.Protocol = proto.NewProtocolClient(conn)
	b.DKG = pdkg.NewDKGPublicClient(conn)
	b.Ctrl, err = dnet.NewControlClient(fix.Logger(), sp.CtrlPort)
	if err != nil {
		return nil, err
	}
	ch.Bench = b
	return ch, nil
}

// Alive reports whether the daemon process still runs.
func (c *Child) Alive() bool {
	select {
	case err := <-c.exit:
		c.exit <- err
		return false
	default:
		return true
	}
}

// Kill ends the child (SIGKILL: a crash) or stops it gracefully.
func (c *Child) Kill(graceful bool) {
	if c.Bench != nil {
		if c.Ctrl != nil {
			_ = c.Ctrl.Close()
		}
		if c.Conn != nil {
			_ = c.Conn.Close()
		}
	}
	if c.Cmd == nil || c.Cmd.Process == nil {
		return
	}
	if graceful {
		_ = c.Cmd.Process.Signal(syscall.SIGTERM)
		select {
		case err := <-c.exit:
			c.exit <- err
			return
		case <-time.After(10 * time.Second):
		}
	}
	_ = c.Cmd.Process.Kill()
	select {
	case err := <-c.exit:
		c.exit <- err
	case <-time.After(10 * time.Second):
	}
}
