package bnet

import (
	"bytes"
	"context"
	"fmt"
	"sort"
	"strings"
	"time"

	"github.com/drand/drand/v2/common"
	"github.com/drand/drand/v2/common/key"
	vrt "verif.local/vrt"
	"verif.local/vrt/explore"
)

// Fault is one scripted environment event of a network scenario, applied at the start of round AtRound
// (virtual time of V-independent global clock).
type Fault struct {
	Kind    string // partition | heal | stop | restart | cut | uncut | dbfail
	Node    int
	Peer    int // for cut/uncut
	AtRound uint64
}

func (f Fault) String() string {
	if f.Kind == "cut" || f.Kind == "uncut" {
		return fmt.Sprintf("%s(%d->%d)@r%d", f.Kind, f.Node, f.Peer, f.AtRound)
	}
	return fmt.Sprintf("%s(%d)@r%d", f.Kind, f.Node, f.AtRound)
}

// Scenario is a network of real handlers, one per group member, with a fault script.
type Scenario struct {
	Keys        *Keys
	Backends    []string // per node
	Offsets     []time.Duration
	Rounds      int       // rounds of virtual time covered
	Scripts     [][]Fault // alternative fault scripts (free choice)
	Drop        bool      // every partial delivery is an explorer choice deliver/drop
	EarlyTimers bool
	// SilentCuts: open sync streams crossing a partition stall instead of ending (see Net.SilentCuts)
	SilentCuts bool
	// SyncPacketLatency: see Net.SyncPacketLatency
	SyncPacketLatency time.Duration
	// Prefill gives per node the number of rounds already stored before the handlers start (the nodes then
	// start with Catchup instead of Start and the clock at the start of round StartRound).
	Prefill    []uint64
	StartRound uint64
	// Latency of every RPC in virtual time (default 10 ms; negative: none)
	Latency time.Duration
	// Reshares are the alternative resharing specifications (free choice); nil: none
	Reshares []*ReshareSpec
}

// ReshareSpec describes a resharing whose output (new group and shares over the same secret) reaches the nodes
// at a given moment.
type ReshareSpec struct {
	Name            string
	New             *Keys         // key material of the new group (Keys.Reshare)
	Keep            []int         // per new index: old node index, or -1 for a joiner
	LearnAtRound    uint64        // the output is handed to the nodes half a second before this round ...
	LearnOffset     time.Duration // ... plus this offset
	Stagger         time.Duration // node i learns i*Stagger later
	TransitionRound uint64
	Failed          bool // the resharing failed: nobody learns anything
	// OldSharePartials: after the transition, deliver to every new member partials made with OLD shares (and one
	// that lies on the NEW polynomial at an index the new group dropped); they must not be accepted
	OldSharePartials bool
}

type ScenarioResult struct {
	S       *vrt.Sched
	Net     *Net
	Script  int
	Reshare int
	Err     error
	// per node: true if it belongs to the group that is live at the end of the run
	InFinalGroup []bool
	// per node: database writes with their virtual time
	Writes  [][]*common.Beacon
	WriteAt [][]time.Time
	End     time.Time
	Signs   []SignRec
	// OldShare: partials made with shares of the previous group handed to members of the new one
	OldShare []*Delivery
}

func (sc *Scenario) Run(devs []vrt.Dev, labels bool) *ScenarioResult {
	k := sc.Keys
	res := &ScenarioResult{}
	n := len(sc.Backends)
	res.Writes = make([][]*common.Beacon, n)
	res.WriteAt = make([][]time.Time, n)
	start := vrt.Epoch
	if sc.StartRound > 0 {
		start = time.Unix(common.TimeOfRound(k.Period, k.Genesis, sc.StartRound), 0).Add(-time.Second)
	}
	until := time.Unix(k.Genesis, 0).Add(time.Duration(sc.Rounds)*k.Period - time.Second)
	if sc.StartRound > 0 {
		until = time.Unix(common.TimeOfRound(k.Period, k.Genesis, sc.StartRound+uint64(sc.Rounds)), 0).Add(-time.Second)
	}
	res.End = until
	var mx uint64
	for _, p := range sc.Prefill {
		if p > mx {
			mx = p
		}
	}
	if mx > 0 {
		k.RefChain(mx) // built outside the run so that its signing is not attributed to the nodes
	}
	ownSignHook = func(idx int, msg []byte) {
		res.Signs = append(res.Signs, SignRec{idx, append([]byte{}, msg...), vrt.VNow()})
	}
	defer func() { ownSignHook = nil }()
	res.S = vrt.Run(vrt.Options{Devs: devs, Start: start, MaxSteps: 2000000, Until: until, Labels: labels, Watchdog: 60 * time.Second}, func() {
		defer vrt.SetEarlyTimers(sc.EarlyTimers) // only once every node is built and started
		ctx := context.Background()
		var script []Fault
		if len(sc.Scripts) > 0 {
			res.Script = vrt.ChooseFree(len(sc.Scripts), "fault script")
			script = sc.Scripts[res.Script]
		}
		nt := NewNet(k)
		nt.DropChoice = sc.Drop
		nt.SilentCuts = sc.SilentCuts
		nt.SyncPacketLatency = sc.SyncPacketLatency
		nt.Latency = sc.Latency
		if nt.Latency == 0 {
			nt.Latency = 10 * time.Millisecond
		} else if nt.Latency < 0 {
			nt.Latency = 0
		}
		res.Net = nt
		var ref []*common.Beacon
		for i := 0; i < n; i++ {
			off := time.Duration(0)
			if i < len(sc.Offsets) {
				off = sc.Offsets[i]
			}
			nd, err := nt.AddNodePrefilled(ctx, k, i, sc.Backends[i], off, func() []*common.Beacon {
				if i < len(sc.Prefill) && sc.Prefill[i] > 0 {
					if ref == nil {
						var mx uint64
						for _, p := range sc.Prefill {
							if p > mx {
								mx = p
							}
						}
						ref = k.RefChain(mx)
					}
					return ref[:sc.Prefill[i]+1]
				}
				return nil
			}())
			if err != nil {
				res.Err = err
				return
			}
			i := i
			nd.Mon.OnPut = func(b *common.Beacon) {
				res.Writes[i] = append(res.Writes[i], b)
				res.WriteAt[i] = append(res.WriteAt[i], vrt.VNow())
				vrt.Logf("node %d: database write round %d", i, b.Round)
			}
		}
		for _, nd := range nt.Nodes {
			if sc.StartRound > 0 {
				nd.H.Catchup(ctx)
			} else if err := nd.H.Start(ctx); err != nil {
				res.Err = err
				return
			}
		}
		res.InFinalGroup = make([]bool, n)
		for i := range res.InFinalGroup {
			res.InFinalGroup[i] = true
		}
		if len(sc.Reshares) > 0 {
			res.Reshare = vrt.ChooseFree(len(sc.Reshares), "reshare specification")
			rs := sc.Reshares[res.Reshare]
			if !rs.Failed {
				sc.runReshare(ctx, nt, rs, res)
			}
		}
		if len(script) > 0 {
			vrt.GoNamed("environment", func() {
				clk := &vrt.Clock{}
				for _, f := range script {
					at := time.Unix(common.TimeOfRound(k.Period, k.Genesis, f.AtRound), 0).Add(-500 * time.Millisecond)
					if d := at.Sub(clk.Now()); d > 0 {
						clk.Sleep(d)
					}
					vrt.Logf("environment: %s", f)
					nd := nt.Nodes[f.Node]
					switch f.Kind {
					case "partition":
						nt.Partition(f.Node, true)
					case "heal":
						nt.Partition(f.Node, false)
					case "cut":
						nt.SetCut(f.Node, f.Peer, true)
					case "uncut":
						nt.SetCut(f.Node, f.Peer, false)
					case "dbfail":
						// the node's next database write fails once (I/O error, cancelled context): the node must neither
						// lose the round for good nor store a chain with a hole
						armed := true
						nd.Mon.Fail = func(b *common.Beacon) error {
							if armed {
								armed = false
								vrt.Logf("node %d: injected failure of the database write of round %d", nd.Idx, b.Round)
								return fmt.Errorf("injected: database write failed")
							}
							return nil
						}
					case "stop":
						nd.Down = true
						nd.H.Stop(ctx)
					case "restart":
						if err := nt.Restart(ctx, nd, k, f.Node); err != nil {
							res.Err = err
							return
						}
						nd.H.Catchup(ctx)
					}
				}
			})
		}
	})
	return res
}

// JudgeSafety evaluates C01 (validity) and C02 (gap-free, append-only, agreement) on every node's write log
// and final store.
func (sc *Scenario) JudgeSafety(r *ScenarioResult, prefix string) *explore.Exec {
	k := sc.Keys
	x := &explore.Exec{S: r.S}
	if r.S.NativeBlock != "" || r.S.ReplayDivergence != "" {
		x.Outcome = "ENGINE"
		return x
	}
	script := ""
	if len(sc.Scripts) > 0 {
		var l []string
		for _, f := range sc.Scripts[r.Script] {
			l = append(l, f.String())
		}
		script = " script#" + fmt.Sprint(r.Script) + "[" + strings.Join(l, " ") + "]"
	}
	add := func(fp, f string, a ...any) {
		x.Violations = append(x.Violations, explore.Violation{Fingerprint: prefix + "/" + fp, Detail: fmt.Sprintf("%s n=%d t=%d%s: ", k.SchemeID, k.N, k.T, script) + fmt.Sprintf(f, a...)})
	}
	if r.Err != nil {
		add("harness-setup", "%v", r.Err)
		return x
	}
	if r.S.Panic != "" {
		add("panic", "%.800s", r.S.Panic)
	}
	if r.S.HorizonHit {
		add("horizon", "step horizon hit")
	}
	chained := k.SchemeID == "pedersen-bls-chained"
	byRound := map[uint64]*common.Beacon{}
	held, heldBy := map[uint64]*common.Beacon{}, map[uint64]int{}
	var heads []string
	for i, nd := range r.Net.Nodes {
		pre := uint64(0)
		if i < len(sc.Prefill) {
			pre = sc.Prefill[i]
		}
		next := pre + 1
		for _, b := range r.Writes[i] {
			if b.Round == 0 {
				continue
			}
			if err := k.RefVerify(b); err != nil {
				add("invalid-beacon-stored", "node %d stored round %d with a signature that does not verify under the group key: %v", i, b.Round, err)
			}
			if b.Round != next {
				add("write-order", "node %d wrote round %d when its head was %d (gap, rewrite or out of order)", i, b.Round, next-1)
			}
			next = b.Round + 1
			if o, ok := byRound[b.Round]; ok {
				// byte-identical: also the previous-signature field (empty everywhere on unchained schemes)
				if !bytes.Equal(o.Signature, b.Signature) || !bytes.Equal(o.PreviousSig, b.PreviousSig) {
					add("disagreement", "two nodes hold different beacons for round %d", b.Round)
				}
			} else {
				byRound[b.Round] = b
			}
		}
		// final store content: 0..head contiguous, chained links, and byte-identical with what every other node holds
		dump := nd.Dump()
		for _, b := range dump {
			if b.Round == 0 {
				continue
			}
			if o, ok := held[b.Round]; ok {
				if !bytes.Equal(o.Signature, b.Signature) || !bytes.Equal(o.PreviousSig, b.PreviousSig) {
					add("store-disagreement", "node %d reads back round %d as (sig %x.., prev %x..) while node %d reads back (sig %x.., prev %x..)", i, b.Round,
						head4(b.Signature), head4(b.PreviousSig), heldBy[b.Round], head4(o.Signature), head4(o.PreviousSig))
				}
			} else {
				held[b.Round], heldBy[b.Round] = b, i
			}
		}
		for j, b := range dump {
			if j > 0 && b.Round != dump[j-1].Round+1 {
				add("store-gap", "node %d's store holds round %d after round %d", i, b.Round, dump[j-1].Round)
			}
			if j > 0 && chained && !bytes.Equal(b.PreviousSig, dump[j-1].Signature) {
				add("store-link", "node %d's round %d does not link to its stored round %d", i, b.Round, dump[j-1].Round)
			}
		}
		h := uint64(0)
		if len(dump) > 0 {
			h = dump[len(dump)-1].Round
		}
		heads = append(heads, fmt.Sprint(h))
	}
	x.Outcome = fmt.Sprintf("script#%d heads=[%s]", r.Script, strings.Join(heads, " "))
	return x
}

// CurrentRoundAtEnd is the round whose time has come at the end of the run.
func (sc *Scenario) CurrentRoundAtEnd(r *ScenarioResult) uint64 {
	return common.CurrentRound(r.End.Unix(), sc.Keys.Period, sc.Keys.Genesis)
}

func sortedRounds(m map[uint64]*common.Beacon) []uint64 {
	var l []uint64
	for k := range m {
		l = append(l, k)
	}
	sort.Slice(l, func(i, j int) bool { return l[i] < l[j] })
	return l
}

// JudgeTiming evaluates C04 on a scenario run: an honest node (clock offset given) never creates a partial
// for round r while its own clock is before the time of r; it refuses partials more than one round ahead of
// its clock; and with fewer than T fast-clocked/adversarial members no beacon of round r is stored by an
// honest node before r's time on that node's clock.
func (sc *Scenario) JudgeTiming(r *ScenarioResult, x *explore.Exec, prefix string, honest []bool) {
	k := sc.Keys
	if r.Err != nil || r.S.NativeBlock != "" || r.S.ReplayDivergence != "" || r.Net == nil {
		return
	}
	add := func(fp, f string, a ...any) {
		x.Violations = append(x.Violations, explore.Violation{Fingerprint: prefix + "/" + fp, Detail: fmt.Sprintf("%s n=%d t=%d offsets=%v script#%d: ", k.SchemeID, k.N, k.T, sc.Offsets, r.Script) + fmt.Sprintf(f, a...)})
	}
	chained := k.SchemeID == "pedersen-bls-chained"
	// digest -> round, from every beacon any node wrote (and the prefilled chain)
	round := map[string]uint64{}
	maxRound := sc.StartRound + uint64(sc.Rounds) + 4
	if chained {
		known := [][]byte{k.Seed}
		sigOf := map[uint64][][]byte{0: {k.Seed}}
		for _, w := range r.Writes {
			for _, b := range w {
				sigOf[b.Round] = append(sigOf[b.Round], b.Signature)
			}
		}
		var mx uint64
		for _, p := range sc.Prefill {
			if p > mx {
				mx = p
			}
		}
		if mx > 0 {
			for _, b := range k.RefChain(mx) {
				sigOf[b.Round] = append(sigOf[b.Round], b.Signature)
			}
		}
		_ = known
		for rr, sigs := range sigOf {
			for _, sg := range sigs {
				round[string(RefDigest(k.SchemeID, rr+1, sg))] = rr + 1
			}
		}
	} else {
		for rr := uint64(1); rr <= maxRound; rr++ {
			round[string(RefDigest(k.SchemeID, rr, nil))] = rr
		}
	}
	offset := func(i int) time.Duration {
		if i < len(sc.Offsets) {
			return sc.Offsets[i]
		}
		return 0
	}
	nodeOfShare := map[int]int{}
	for i := range r.Net.Nodes {
		nodeOfShare[k.Shares[i].I] = i
	}
	// release = a PartialBeacon call leaving the node (recorded with the sender's own clock)
	for _, d := range r.Net.Sent {
		if d.From < 0 || d.From >= len(honest) || !honest[d.From] {
			continue
		}
		local := d.SenderNow.Unix()
		if t := common.TimeOfRound(k.Period, k.Genesis, d.Round); local < t {
			add("early-partial", "node %d released its partial for round %d at local time %d, %d s before that round's time %d", d.From, d.Round, local, t-local, t)
		}
	}
	// creation is recorded too (sign hook); a partial created early but never released is reported in the
	// outcome only
	early := 0
	for _, sg := range r.Signs {
		i, ok := nodeOfShare[sg.ShareIdx]
		if !ok || !honest[i] {
			continue
		}
		if rr, ok := round[string(sg.Digest)]; ok && sg.At.Add(offset(i)).Unix() < common.TimeOfRound(k.Period, k.Genesis, rr) {
			early++
		}
	}
	if early > 0 {
		x.Outcome += fmt.Sprintf(" created-early-unreleased=%d", early)
	}
	for _, d := range r.Net.Ledger {
		if d.To < 0 || !honest[d.To] {
			continue
		}
		local := d.SenderNow.Add(offset(d.To)).Unix()
		cur := common.CurrentRound(local, k.Period, k.Genesis)
		if d.Round > cur+1 && d.ReceiverOK {
			add("future-partial-accepted", "node %d accepted a partial for round %d while its clock was in round %d", d.To, d.Round, cur)
		}
	}
	fast := 0
	for i := range r.Net.Nodes {
		if !honest[i] {
			fast++
		}
	}
	if fast < k.T {
		for i := range r.Net.Nodes {
			if !honest[i] {
				continue
			}
			for j, b := range r.Writes[i] {
				local := r.WriteAt[i][j].Add(offset(i)).Unix()
				if t := common.TimeOfRound(k.Period, k.Genesis, b.Round); b.Round > 0 && local < t {
					add("early-beacon", "node %d stored round %d at local time %d, before that round's time %d, with only %d fast-clocked members (threshold %d)", i, b.Round, local, t, fast, k.T)
				}
			}
		}
	}
}

// JudgeLiveness evaluates C05 at the end of a scenario run (the script's faults are healed by then): every
// running node's head is the current round of its clock, and every node that was restarted released, after its
// restart, a partial that an honest peer accepted.
func (sc *Scenario) JudgeLiveness(r *ScenarioResult, x *explore.Exec, prefix string) {
	k := sc.Keys
	if r.Err != nil || r.S.NativeBlock != "" || r.S.ReplayDivergence != "" || r.Net == nil {
		return
	}
	var script []Fault
	if len(sc.Scripts) > 0 {
		script = sc.Scripts[r.Script]
	}
	add := func(fp, f string, a ...any) {
		x.Violations = append(x.Violations, explore.Violation{Fingerprint: prefix + "/" + fp, Detail: fmt.Sprintf("%s n=%d t=%d script#%d %v: ", k.SchemeID, k.N, k.T, r.Script, script) + fmt.Sprintf(f, a...)})
	}
	want := sc.CurrentRoundAtEnd(r)
	heads := r.Net.Heads()
	for i, nd := range r.Net.Nodes {
		if nd.Down {
			continue
		}
		if heads[i] < want {
			add("not-caught-up", "at the end of the healed period (round %d has come) node %d's head is %d; heads %v", want, i, heads[i], heads)
			break
		}
	}
	for _, f := range script {
		if f.Kind != "restart" {
			continue
		}
		at := time.Unix(common.TimeOfRound(k.Period, k.Genesis, f.AtRound), 0).Add(-500 * time.Millisecond)
		ok := false
		for _, d := range r.Net.Ledger {
			if d.From == f.Node && d.ReceiverOK && d.Valid && !d.SenderNow.Before(at) {
				ok = true
				break
			}
		}
		if !ok {
			add("no-contribution-after-restart", "node %d was restarted at round %d but no partial of it was accepted by a peer afterwards", f.Node, f.AtRound)
		}
	}
}

func (sc *Scenario) runReshare(ctx context.Context, nt *Net, rs *ReshareSpec, res *ScenarioResult) {
	k := sc.Keys
	nk := rs.New
	tt := common.TimeOfRound(k.Period, k.Genesis, rs.TransitionRound)
	newGroup := func() *key.Group {
		g := nk.Group()
		g.TransitionTime = tt
		return g
	}
	oldGroup := k.Group()
	stays := map[int]int{} // old node index -> new index
	for ni, oi := range rs.Keep {
		if oi >= 0 {
			stays[oi] = ni
		}
	}
	for i := range res.InFinalGroup {
		_, ok := stays[i]
		res.InFinalGroup[i] = ok
	}
	vrt.GoNamed("dkg-output", func() {
		clk := &vrt.Clock{}
		at := time.Unix(common.TimeOfRound(k.Period, k.Genesis, rs.LearnAtRound), 0).Add(-500*time.Millisecond + rs.LearnOffset)
		if d := at.Sub(clk.Now()); d > 0 {
			clk.Sleep(d)
		}
		nOld := len(nt.Nodes)
		for i := 0; i < nOld; i++ {
			if i > 0 && rs.Stagger > 0 {
				clk.Sleep(rs.Stagger)
			}
			nd := nt.Nodes[i]
			if ni, ok := stays[i]; ok {
				vrt.Logf("reshare: node %d learns the new group (new index %d, transition at round %d)", i, ni, rs.TransitionRound)
				nd.H.TransitionNewGroup(ctx, nk.Share(ni), newGroup())
				nd.NewKeys, nd.NewIdx = nk, ni
			} else {
				vrt.Logf("reshare: node %d leaves at the transition", i)
				h := nd.H
				vrt.GoNamed("leaver-stop", func() { _ = h.StopAt(ctx, tt-1) })
			}
		}
		for ni, oi := range rs.Keep {
			if oi >= 0 {
				continue
			}
			vrt.Logf("reshare: joiner with new index %d starts", ni)
			nd, err := nt.AddNodeGroup(ctx, nk, ni, "memdb", 0, newGroup())
			if err != nil {
				res.Err = err
				return
			}
			idx := nd.Idx
			res.Writes = append(res.Writes, nil)
			res.WriteAt = append(res.WriteAt, nil)
			res.InFinalGroup = append(res.InFinalGroup, true)
			nd.Mon.OnPut = func(b *common.Beacon) {
				res.Writes[idx] = append(res.Writes[idx], b)
				res.WriteAt[idx] = append(res.WriteAt[idx], vrt.VNow())
				vrt.Logf("node %d (joiner): database write round %d", idx, b.Round)
			}
			if err := nd.H.Transition(ctx, oldGroup); err != nil {
				res.Err = err
				return
			}
		}
		if rs.OldSharePartials {
			// two rounds after the transition
			at := time.Unix(common.TimeOfRound(k.Period, k.Genesis, rs.TransitionRound+2), 0).Add(200 * time.Millisecond)
			if d := at.Sub(clk.Now()); d > 0 {
				clk.Sleep(d)
			}
			r := rs.TransitionRound + 3 // the next round: accepted one ahead if valid
			for _, nd := range nt.Nodes {
				if nd.Down || nd.NewKeys == nil && nd.Keys != nk {
					continue
				}
				last, err := nd.Base.Last(ctx)
				if err != nil {
					continue
				}
				prev := last.Signature
				if last.Round != r-1 {
					continue
				}
				for oi := 0; oi < k.N; oi++ {
					if nd.Idx == oi {
						continue
					}
					p := k.Partial(oi, r, prev) // made with the OLD share of old member oi
					d := &Delivery{From: -2, To: nd.Idx, Round: r, Sig: p.PartialSig, SenderNow: vrt.VNow(), SignerIdx: k.Indices[oi]}
					_, perr := nd.H.ProcessPartialBeacon(peerCtx(ctx, k.Addr(oi)), p)
					d.ReceiverOK = perr == nil
					res.OldShare = append(res.OldShare, d)
					vrt.Logf("reshare: old-share partial of old member %d for round %d to node %d accepted=%v", oi, r, nd.Idx, d.ReceiverOK)
				}
				// a partial ON the new polynomial at every index the new group does not contain
				for ix := 0; ix < k.N+1; ix++ {
					if nk.IsMemberIndex(ix) {
						continue
					}
					pp := prev
					if k.SchemeID != "pedersen-bls-chained" {
						pp = nil
					}
					p := nk.PartialRaw(r, prev, nk.SignAtIndex(ix, r, pp))
					d := &Delivery{From: -3, To: nd.Idx, Round: r, Sig: p.PartialSig, SenderNow: vrt.VNow(), SignerIdx: ix}
					_, perr := nd.H.ProcessPartialBeacon(peerCtx(ctx, "198.51.100.9:1"), p)
					d.ReceiverOK = perr == nil
					res.OldShare = append(res.OldShare, d)
					vrt.Logf("reshare: on-polynomial partial at dropped index %d to node %d accepted=%v", ix, nd.Idx, d.ReceiverOK)
				}
			}
		}
	})
}

// JudgeReshare evaluates C07 on a scenario run with a resharing: continuity through the transition round for the
// members of the live group, and refusal of partials made with shares of the previous group.
func (sc *Scenario) JudgeReshare(r *ScenarioResult, x *explore.Exec, prefix string) {
	if r.Err != nil || r.S.NativeBlock != "" || r.S.ReplayDivergence != "" || r.Net == nil || len(sc.Reshares) == 0 {
		return
	}
	k := sc.Keys
	rs := sc.Reshares[r.Reshare]
	add := func(fp, f string, a ...any) {
		x.Violations = append(x.Violations, explore.Violation{Fingerprint: prefix + "/" + fp, Detail: fmt.Sprintf("%s reshare %q (transition at round %d) script#%d: ", k.SchemeID, rs.Name, rs.TransitionRound, r.Script) + fmt.Sprintf(f, a...)})
	}
	want := sc.CurrentRoundAtEnd(r)
	heads := r.Net.Heads()
	for i, nd := range r.Net.Nodes {
		if nd.Down || i >= len(r.InFinalGroup) || !r.InFinalGroup[i] {
			continue
		}
		if heads[i] < want {
			add("halted", "node %d (member of the live group) has head %d at the end, round %d has come; heads %v", i, heads[i], want, heads)
			break
		}
	}
	for _, d := range r.OldShare {
		if d.ReceiverOK {
			what := "a partial made with a share of the previous group"
			if d.From == -3 {
				what = "a partial at an index that is not in the live group"
			}
			add("old-share-accepted", "after the transition node %d accepted %s (signer index %d, round %d)", d.To, what, d.SignerIdx, d.Round)
		}
	}
	x.Outcome += fmt.Sprintf(" reshare=%s old-share-probes=%d", rs.Name, len(r.OldShare))
}

func head4(b []byte) []byte {
	if len(b) > 4 {
		return b[:4]
	}
	return b
}
