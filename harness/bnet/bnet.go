// Package bnet is the in-memory beacon network used by the E1 checks: N real beacon.Handlers wired by a mock
// net.ProtocolClient whose RPCs call the peer's real handler in the caller's thread, per-node virtual clocks,
// a monitor under every node's store stack, an independent reference verifier and a delivery ledger.
package bnet

import (
	"context"
	"crypto/sha256"
	"encoding/binary"
	"fmt"
	"net"
	"sync"
	"time"

	"golang.org/x/crypto/sha3"
	"google.golang.org/grpc"
	"google.golang.org/grpc/peer"

	"github.com/drand/drand/v2/common"
	"github.com/drand/drand/v2/common/key"
	"github.com/drand/drand/v2/crypto"
	"github.com/drand/drand/v2/internal/chain"
	"github.com/drand/drand/v2/internal/chain/beacon"
	dnet "github.com/drand/drand/v2/internal/net"
	proto "github.com/drand/drand/v2/protobuf/drand"
	"github.com/drand/drand/v2/verifharness/fix"
	"github.com/drand/kyber"
	"github.com/drand/kyber/share"
	"github.com/drand/kyber/share/dkg"
	"github.com/drand/kyber/sign"
	vrt "verif.local/vrt"
)

// ---------------------------------------------------------------------------------------------------
// key material (generated once per process, read-only afterwards)

type Keys struct {
	SchemeID string
	Scheme   *crypto.Scheme // with a memoising ThresholdScheme; digest functions are the repository's
	N, T     int
	Poly     *share.PriPoly
	Shares   []*share.PriShare
	Commits  []kyber.Point
	Pub      *share.PubPoly
	Pairs    []*key.Pair
	Period   time.Duration
	Catchup  time.Duration
	Genesis  int64
	Seed     []byte
	BeaconID string
	// Indices[i] is the share index of member i (default i); groups left by a DKG in which a participant
	// did not qualify have holes.
	Indices []int
}

// polySeq numbers the key materials built by this process: every process of a check builds them in the same order,
// so the label (and with it the material) is the same in the parent and in its worker processes.
var polySeq int

// NewKeys draws a random polynomial of threshold t and n key pairs for the scheme.
func NewKeys(schemeID string, n, t int, period time.Duration, genesis int64) *Keys {
	idx := make([]int, n)
	for i := range idx {
		idx[i] = i
	}
	return NewKeysIdx(schemeID, idx, t, period, genesis)
}

// NewKeysIdx is NewKeys for a group whose members hold the given share indices.
func NewKeysIdx(schemeID string, indices []int, t int, period time.Duration, genesis int64) *Keys {
	n := len(indices)
	sch, err := crypto.SchemeFromName(schemeID)
	if err != nil {
		panic(err)
	}
	sch.ThresholdScheme = &memoTS{inner: sch.ThresholdScheme}
	k := &Keys{SchemeID: schemeID, Scheme: sch, N: n, T: t, Period: period, Catchup: time.Second, Genesis: genesis, BeaconID: "default", Indices: indices}
	polySeq++
	label := fmt.Sprintf("bnet/%s/%v/%d/#%d", schemeID, indices, t, polySeq)
	k.Poly = share.NewPriPoly(sch.KeyGroup, t, nil, fix.DetStream("poly/"+label))
	k.Pub = k.Poly.Commit(sch.KeyGroup.Point().Base())
	_, k.Commits = k.Pub.Info()
	for _, ix := range indices {
		k.Shares = append(k.Shares, k.Poly.Eval(ix))
	}
	for i := 0; i < n; i++ {
		k.Pairs = append(k.Pairs, fix.DetKeyPair(fmt.Sprintf("%s/%d", label, i), fmt.Sprintf("192.0.2.%d:8000", i+1), sch))
	}
	k.Seed = []byte("verif-genesis-seed-0123456789abcdef")
	return k
}

// Reshare derives key material of a new group (n2 members, threshold t2) that shares the same secret, i.e.
// the same distributed public key, as a resharing does. keep[i] gives for each new index the old node it
// reuses (-1: a joiner with a fresh key pair).
func (k *Keys) Reshare(n2, t2 int, keep []int) *Keys {
	secret := k.Poly.Secret()
	nk := &Keys{SchemeID: k.SchemeID, Scheme: k.Scheme, N: n2, T: t2, Period: k.Period, Catchup: k.Catchup, Genesis: k.Genesis, Seed: k.Seed, BeaconID: k.BeaconID}
	polySeq++
	nk.Poly = share.NewPriPoly(k.Scheme.KeyGroup, t2, secret, fix.DetStream(fmt.Sprintf("reshare/%s/%d/%d/%v/#%d", k.SchemeID, n2, t2, keep, polySeq)))
	nk.Pub = nk.Poly.Commit(k.Scheme.KeyGroup.Point().Base())
	_, nk.Commits = nk.Pub.Info()
	nk.Shares = nk.Poly.Shares(n2)
	for i := 0; i < n2; i++ {
		nk.Indices = append(nk.Indices, i)
	}
	for i := 0; i < n2; i++ {
		if keep[i] >= 0 {
			nk.Pairs = append(nk.Pairs, k.Pairs[keep[i]])
			continue
		}
		nk.Pairs = append(nk.Pairs, fix.DetKeyPair(fmt.Sprintf("reshare-joiner/%d/#%d", i, polySeq), fmt.Sprintf("192.0.2.%d:8000", 100+i), k.Scheme))
	}
	return nk
}

// Group builds a fresh key.Group value (handlers keep pointers to it).
func (k *Keys) Group() *key.Group {
	g := &key.Group{Threshold: k.T, Period: k.Period, Scheme: k.Scheme, ID: k.BeaconID, CatchupPeriod: k.Catchup,
		GenesisTime: k.Genesis, GenesisSeed: k.Seed, PublicKey: &key.DistPublic{Coefficients: k.Commits}}
	for i, p := range k.Pairs {
		g.Nodes = append(g.Nodes, &key.Node{Identity: p.Public, Index: uint32(k.Indices[i])})
	}
	return g
}

func (k *Keys) Share(i int) *key.Share {
	return &key.Share{DistKeyShare: dkg.DistKeyShare{Share: k.Shares[i], Commits: k.Commits}, Scheme: k.Scheme}
}

func (k *Keys) Addr(i int) string { return k.Pairs[i].Public.Address() }

// GroupKey is the distributed public key every beacon must verify under.
func (k *Keys) GroupKey() kyber.Point { return k.Pub.Commit() }

// ---------------------------------------------------------------------------------------------------
// reference verifier: digest from the scheme's specification, signature check by kyber directly

func RefDigest(schemeID string, round uint64, prev []byte) []byte {
	var rb [8]byte
	binary.BigEndian.PutUint64(rb[:], round)
	switch schemeID {
	case crypto.DefaultSchemeID:
		h := sha256.New()
		h.Write(prev)
		h.Write(rb[:])
		return h.Sum(nil)
	case crypto.BN254UnchainedOnG1SchemeID:
		h := sha3.NewLegacyKeccak256()
		h.Write(rb[:])
		return h.Sum(nil)
	default:
		h := sha256.New()
		h.Write(rb[:])
		return h.Sum(nil)
	}
}

// RefVerify decides beacon validity without calling the code under test.
func (k *Keys) RefVerify(b *common.Beacon) error {
	if len(b.Signature) == 0 {
		return fmt.Errorf("empty signature")
	}
	// memoised: a pure function of (key, digest, signature); the digest is the harness' own
	return k.Scheme.ThresholdScheme.VerifyRecovered(k.GroupKey(), RefDigest(k.SchemeID, b.Round, b.PreviousSig), b.Signature)
}

// RefVerifyPartial decides whether sig is a valid partial of some member for (round, prev); returns the index.
func (k *Keys) RefVerifyPartial(round uint64, prev, sig []byte) (int, error) {
	ts := k.Scheme.ThresholdScheme
	idx, err := ts.IndexOf(sig)
	if err != nil {
		return -1, err
	}
	if !k.IsMemberIndex(idx) {
		return idx, fmt.Errorf("index %d is not a member", idx)
	}
	return idx, ts.VerifyPartial(k.Pub, RefDigest(k.SchemeID, round, prev), sig)
}

func (k *Keys) IsMemberIndex(idx int) bool {
	for _, ix := range k.Indices {
		if ix == idx {
			return true
		}
	}
	return false
}

// SignAtIndex makes a partial that lies on the group's polynomial at an arbitrary share index (what a
// coalition of t members can compute for an index nobody holds).
func (k *Keys) SignAtIndex(idx int, round uint64, prev []byte) []byte {
	s, err := k.Scheme.ThresholdScheme.Sign(k.Poly.Eval(idx), RefDigest(k.SchemeID, round, prev))
	if err != nil {
		panic(err)
	}
	return s
}

// SignPartial makes member i's partial for (round, prev) with the repository-independent digest.
func (k *Keys) SignPartial(i int, round uint64, prev []byte) []byte {
	s, err := k.Scheme.ThresholdScheme.Sign(k.Shares[i], RefDigest(k.SchemeID, round, prev))
	if err != nil {
		panic(err)
	}
	return s
}

// RefBeacon builds the valid beacon of a round on top of prev (harness-side chain construction).
func (k *Keys) RefBeacon(round uint64, prev []byte) *common.Beacon {
	chained := k.SchemeID == crypto.DefaultSchemeID
	p := prev
	if !chained {
		p = nil
	}
	var sigs [][]byte
	for i := 0; i < k.T; i++ {
		sigs = append(sigs, k.SignPartial(i, round, p))
	}
	sig, err := k.Scheme.ThresholdScheme.Recover(k.Pub, RefDigest(k.SchemeID, round, p), sigs, k.T, k.N)
	if err != nil {
		panic(err)
	}
	return &common.Beacon{Round: round, Signature: sig, PreviousSig: p}
}

// RefChain returns valid beacons 1..upTo (cached per Keys).
func (k *Keys) RefChain(upTo uint64) []*common.Beacon {
	chainMu.Lock()
	defer chainMu.Unlock()
	c := chains[k]
	if len(c) == 0 {
		c = []*common.Beacon{chain.GenesisBeacon(k.Seed)}
	}
	for uint64(len(c)) <= upTo {
		c = append(c, k.RefBeacon(uint64(len(c)), c[len(c)-1].Signature))
	}
	chains[k] = c
	return c[:upTo+1]
}

var (
	chainMu sync.Mutex
	chains  = map[*Keys][]*common.Beacon{}
)

// ---------------------------------------------------------------------------------------------------
// memoising threshold scheme: pure functions of their byte inputs; cuts pairing cost across executions

type memoTS struct {
	inner sign.ThresholdScheme
	m     sync.Map
}

func hkey(tag string, parts ...[]byte) [32]byte {
	h := sha256.New()
	h.Write([]byte(tag))
	for _, p := range parts {
		var l [4]byte
		binary.BigEndian.PutUint32(l[:], uint32(len(p)))
		h.Write(l[:])
		h.Write(p)
	}
	var o [32]byte
	copy(o[:], h.Sum(nil))
	return o
}

type memoRes struct {
	b   []byte
	err error
}

var pubBytesCache sync.Map // *share.PubPoly -> []byte (polynomials are immutable)

func pubBytes(p *share.PubPoly) []byte {
	if b, ok := pubBytesCache.Load(p); ok {
		return b.([]byte)
	}
	b := pubBytesSlow(p)
	pubBytesCache.Store(p, b)
	return b
}

func pubBytesSlow(p *share.PubPoly) []byte {
	_, cs := p.Info()
	var out []byte
	for _, c := range cs {
		b, _ := c.MarshalBinary()
		out = append(out, b...)
	}
	return out
}

func (m *memoTS) Sign(private *share.PriShare, msg []byte) ([]byte, error) {
	if ownSignHook != nil {
		ownSignHook(private.I, msg)
	}
	vb, _ := private.V.MarshalBinary()
	k := hkey("sign", []byte{byte(private.I)}, vb, msg)
	if r, ok := m.m.Load(k); ok {
		return append([]byte{}, r.(memoRes).b...), r.(memoRes).err
	}
	b, err := m.inner.Sign(private, msg)
	m.m.Store(k, memoRes{b, err})
	return append([]byte{}, b...), err
}
func (m *memoTS) IndexOf(sig []byte) (int, error) { return m.inner.IndexOf(sig) }
func (m *memoTS) VerifyPartial(public *share.PubPoly, msg, sig []byte) error {
	k := hkey("vp", pubBytes(public), msg, sig)
	if r, ok := m.m.Load(k); ok {
		return r.(memoRes).err
	}
	err := m.inner.VerifyPartial(public, msg, sig)
	m.m.Store(k, memoRes{nil, err})
	return err
}
func (m *memoTS) Recover(public *share.PubPoly, msg []byte, sigs [][]byte, t, n int) ([]byte, error) {
	parts := [][]byte{pubBytes(public), msg, {byte(t), byte(n)}}
	parts = append(parts, sigs...)
	k := hkey("rec", parts...)
	if r, ok := m.m.Load(k); ok {
		return append([]byte{}, r.(memoRes).b...), r.(memoRes).err
	}
	b, err := m.inner.Recover(public, msg, sigs, t, n)
	m.m.Store(k, memoRes{b, err})
	return append([]byte{}, b...), err
}
func (m *memoTS) VerifyRecovered(public kyber.Point, msg, sig []byte) error {
	pb, _ := public.MarshalBinary()
	k := hkey("vr", pb, msg, sig)
	if r, ok := m.m.Load(k); ok {
		return r.(memoRes).err
	}
	err := m.inner.VerifyRecovered(public, msg, sig)
	m.m.Store(k, memoRes{nil, err})
	return err
}

// ---------------------------------------------------------------------------------------------------
// network

type Delivery struct {
	From, To   int
	Round      uint64
	Prev       []byte
	Sig        []byte
	SignerIdx  int
	Valid      bool // reference-valid partial of a member for exactly (Round, Prev)
	SenderNow  time.Time
	ReceiverOK bool // ProcessPartialBeacon returned nil
	Err        string
}

type Node struct {
	Idx    int
	Addr   string
	Keys   *Keys
	H      *beacon.Handler
	Base   chain.Store
	Mon    *fix.Monitor
	Clock  *vrt.Clock
	Down   bool
	Client *Client
	close  func()
	// after a resharing: the key material and index of the node in the new group
	NewKeys *Keys
	NewIdx  int
}

func peerCtx(ctx context.Context, addr string) context.Context {
	return peer.NewContext(ctx, &peer.Peer{Addr: taddr(addr)})
}

type Net struct {
	Keys   *Keys
	Nodes  []*Node
	byAddr map[string]*Node
	// Cut[a][b] true: messages from a to b are lost (error returned to the sender)
	Cut map[int]map[int]bool
	// SyncPacketLatency: virtual time each packet of a sync stream takes
	SyncPacketLatency time.Duration
	// SilentCuts: packets of an already open sync stream that cross a cut link are lost silently (the stream stalls)
	SilentCuts bool
	// Ledger of every partial handed to a live handler
	Ledger []*Delivery
	// Sent records every PartialBeacon call leaving a node, even to unreachable peers
	Sent []*Delivery
	// OnSend, when set, is called for every outgoing partial before delivery
	OnSend func(d *Delivery)
	// SyncServe decides how SyncChain requests to node `to` are served; nil: the real server side.
	SyncServe func(from, to int, req *proto.SyncRequest, ctx context.Context) (chan *proto.BeaconPacket, error)
	// DropChoice: when true every partial delivery asks the explorer deliver(0)/drop(1)
	DropChoice bool
	// Latency is the virtual time every RPC spends on the wire before it reaches the peer's handler (the
	// default schedule then matches reality: every node handles its tick before the partials of that tick arrive)
	Latency time.Duration
	Log     func(string, ...any)
}

func NewNet(k *Keys) *Net {
	return &Net{Keys: k, byAddr: map[string]*Node{}, Cut: map[int]map[int]bool{}}
}

func (n *Net) SetCut(a, b int, cut bool) {
	if n.Cut[a] == nil {
		n.Cut[a] = map[int]bool{}
	}
	n.Cut[a][b] = cut
}

// Partition isolates node i from everybody (both directions) or heals it.
func (n *Net) Partition(i int, on bool) {
	for j := range n.Nodes {
		if j != i {
			n.SetCut(i, j, on)
			n.SetCut(j, i, on)
		}
	}
}

type taddr string

func (a taddr) Network() string { return "tcp" }
func (a taddr) String() string  { return string(a) }

var _ net.Addr = taddr("")

// AddNode builds a real handler for member i of keys k on a fresh store. Must be called inside a run.
func (n *Net) AddNode(ctx context.Context, k *Keys, i int, backend string, offset time.Duration) (*Node, error) {
	return n.AddNodePrefilled(ctx, k, i, backend, offset, nil)
}

// AddNodePrefilled is AddNode on a store that already holds the given beacons (0..p).
func (n *Net) AddNodePrefilled(ctx context.Context, k *Keys, i int, backend string, offset time.Duration, pre []*common.Beacon) (*Node, error) {
	base, cleanup, err := fix.NewBackendSize(ctx, backend, k.SchemeID == crypto.DefaultSchemeID, 64)
	if err != nil {
		return nil, err
	}
	for _, b := range pre {
		if err := base.Put(ctx, fix.CopyBeacon(b)); err != nil {
			cleanup()
			return nil, err
		}
	}
	nd := &Node{Idx: len(n.Nodes), Addr: k.Addr(i), Keys: k, Base: base, Clock: &vrt.Clock{Offset: offset}, close: cleanup}
	nd.Mon = fix.NewMonitor(base)
	nd.Client = &Client{net: n, self: nd}
	if err := n.startHandler(ctx, nd, k, i); err != nil {
		cleanup()
		return nil, err
	}
	n.Nodes = append(n.Nodes, nd)
	n.byAddr[nd.Addr] = nd
	return nd, nil
}

// AddNodeGroup builds a handler for member i of keys k with an explicit group description (a joiner whose group
// carries a transition time).
func (n *Net) AddNodeGroup(ctx context.Context, k *Keys, i int, backend string, offset time.Duration, g *key.Group) (*Node, error) {
	base, cleanup, err := fix.NewBackendSize(ctx, backend, k.SchemeID == crypto.DefaultSchemeID, 64)
	if err != nil {
		return nil, err
	}
	nd := &Node{Idx: len(n.Nodes), Addr: k.Addr(i), Keys: k, Base: base, Clock: &vrt.Clock{Offset: offset}, close: cleanup}
	nd.Mon = fix.NewMonitor(base)
	nd.Client = &Client{net: n, self: nd}
	conf := &beacon.Config{Public: &key.Node{Identity: k.Pairs[i].Public, Index: uint32(k.Indices[i])}, Share: k.Share(i), Group: g, Clock: nd.Clock}
	h, err := beacon.NewHandler(ctx, nd.Client, nd.Mon, conf, fix.Logger(), common.Version{Major: 2})
	if err != nil {
		cleanup()
		return nil, err
	}
	nd.H = h
	beacon.VerifSetSyncThresholdScheme(h, k.Scheme.ThresholdScheme)
	n.Nodes = append(n.Nodes, nd)
	n.byAddr[nd.Addr] = nd
	return nd, nil
}

func (n *Net) startHandler(ctx context.Context, nd *Node, k *Keys, i int) error {
	conf := &beacon.Config{Public: &key.Node{Identity: k.Pairs[i].Public, Index: uint32(k.Indices[i])}, Share: k.Share(i), Group: k.Group(), Clock: nd.Clock}
	h, err := beacon.NewHandler(ctx, nd.Client, nd.Mon, conf, fix.Logger(), common.Version{Major: 2})
	if err != nil {
		return err
	}
	nd.H = h
	beacon.VerifSetSyncThresholdScheme(h, k.Scheme.ThresholdScheme)
	return nil
}

// Restart stops the node's handler and builds a new one on the same store (what a daemon restart does).
func (n *Net) Restart(ctx context.Context, nd *Node, k *Keys, i int) error {
	if nd.H != nil {
		nd.H.Stop(ctx)
		beacon.VerifStopMonitor(nd.H)
	}
	nd.Down = false
	return n.startHandler(ctx, nd, k, i)
}

// Close releases stores and the native helper goroutines of every node (call after the run).
func (n *Net) Close() {
	for _, nd := range n.Nodes {
		if nd.H != nil {
			beacon.VerifStopMonitor(nd.H)
		}
		if nd.close != nil {
			nd.close()
		}
	}
}

func (n *Net) logf(f string, a ...any) { vrt.Logf(f, a...) }

// Client implements net.ProtocolClient for one node.
type Client struct {
	net  *Net
	self *Node
}

var _ dnet.ProtocolClient = (*Client)(nil)

func (c *Client) GetIdentity(context.Context, dnet.Peer, *proto.IdentityRequest, ...dnet.CallOption) (*proto.IdentityResponse, error) {
	return nil, fmt.Errorf("bnet: not served")
}
func (c *Client) Status(context.Context, dnet.Peer, *proto.StatusRequest, ...grpc.CallOption) (*proto.StatusResponse, error) {
	return nil, fmt.Errorf("bnet: not served")
}
func (c *Client) Check(context.Context, dnet.Peer) error { return nil }

func (c *Client) reachable(to *Node) bool {
	if to == nil || to.Down || to.H == nil || c.self.Down {
		return false
	}
	return !c.net.Cut[c.self.Idx][to.Idx]
}

func (c *Client) PartialBeacon(ctx context.Context, p dnet.Peer, in *proto.PartialBeaconPacket, _ ...dnet.CallOption) error {
	to := c.net.byAddr[p.Address()]
	d := &Delivery{From: c.self.Idx, To: -1, Round: in.Round, Prev: in.PreviousSignature, Sig: in.PartialSig, SenderNow: c.self.Clock.Now()}
	if to != nil {
		d.To = to.Idx
	}
	d.SignerIdx, _ = c.net.Keys.Scheme.ThresholdScheme.IndexOf(in.PartialSig)
	c.net.Sent = append(c.net.Sent, d)
	if c.net.OnSend != nil {
		c.net.OnSend(d)
	}
	if c.net.Latency > 0 {
		c.self.Clock.Sleep(c.net.Latency)
	}
	if !c.reachable(to) {
		return fmt.Errorf("bnet: %s unreachable", p.Address())
	}
	if c.net.DropChoice && vrt.Choose(2, "drop partial") == 1 {
		c.net.logf("net: partial round %d %d->%d dropped", in.Round, c.self.Idx, to.Idx)
		return fmt.Errorf("bnet: dropped")
	}
	return c.net.Deliver(ctx, c.self.Idx, c.self.Addr, to, in)
}

// Deliver hands a partial to node `to` as coming from address fromAddr and records it in the ledger.
func (n *Net) Deliver(ctx context.Context, fromIdx int, fromAddr string, to *Node, in *proto.PartialBeaconPacket) error {
	d := &Delivery{From: fromIdx, To: to.Idx, Round: in.Round, Prev: in.PreviousSignature, Sig: in.PartialSig, SenderNow: vrt.VNow()}
	idx, err := to.Keys.RefVerifyPartial(in.Round, in.PreviousSignature, in.PartialSig)
	d.SignerIdx, d.Valid = idx, err == nil
	pctx := peer.NewContext(ctx, &peer.Peer{Addr: taddr(fromAddr)})
	_, perr := to.H.ProcessPartialBeacon(pctx, in)
	d.ReceiverOK = perr == nil
	if perr != nil {
		d.Err = perr.Error()
	}
	n.Ledger = append(n.Ledger, d)
	n.logf("net: partial round %d signer %d valid=%v %d->%d accepted=%v", in.Round, idx, d.Valid, fromIdx, to.Idx, d.ReceiverOK)
	return perr
}

type chanStream struct {
	ctx      context.Context
	ch       chan *proto.BeaconPacket
	net      *Net
	from, to *Node // the stream goes from the serving node `to` to the requesting node `from`
}

func (s *chanStream) Context() context.Context { return s.ctx }
func (s *chanStream) Send(b *proto.BeaconPacket) error {
	select {
	case <-s.ctx.Done():
		return s.ctx.Err()
	default:
	}
	if s.net != nil && s.net.SyncPacketLatency > 0 {
		s.to.Clock.Sleep(s.net.SyncPacketLatency) // a long catch-up takes time: faults can hit it in the middle
	}
	// a partition does not close an open stream, it silences it: what the server sends while the link is cut (or
	// while the server node is stopped) never arrives and the client sees neither data nor an error
	if s.net != nil && s.net.SilentCuts && (s.net.Cut[s.to.Idx][s.from.Idx] || s.to.Down) {
		s.net.logf("net: sync packet round %d %d->%d lost in the partition (stream stays open)", b.Round, s.to.Idx, s.from.Idx)
		return nil
	}
	c := s.ch
	vrt.Send(c, func() { c <- b })
	return nil
}

func (c *Client) SyncChain(ctx context.Context, p dnet.Peer, in *proto.SyncRequest, _ ...dnet.CallOption) (chan *proto.BeaconPacket, error) {
	to := c.net.byAddr[p.Address()]
	c.net.logf("net: node %d opens SyncChain to %s from round %d", c.self.Idx, p.Address(), in.FromRound)
	if c.net.SyncServe != nil {
		ti := -1
		if to != nil {
			ti = to.Idx
		}
		return c.net.SyncServe(c.self.Idx, ti, in, ctx)
	}
	if !c.reachable(to) {
		return nil, fmt.Errorf("bnet: %s unreachable", p.Address())
	}
	return c.net.ServeSync(ctx, c.self, to, in), nil
}

// ServeSync runs the real server side of SyncChain on node `to` in a new thread.
func (n *Net) ServeSync(ctx context.Context, from, to *Node, in *proto.SyncRequest) chan *proto.BeaconPacket {
	ch := make(chan *proto.BeaconPacket, 64)
	sctx, cancel := context.WithCancel(peer.NewContext(ctx, &peer.Peer{Addr: taddr(from.Addr)}))
	st := &chanStream{ctx: sctx, ch: ch, net: n, from: from, to: to}
	store := to.H.Store()
	vrt.GoNamed(fmt.Sprintf("syncserver-%d->%d", to.Idx, from.Idx), func() {
		defer cancel()
		if n.Latency > 0 {
			from.Clock.Sleep(n.Latency)
		}
		err := beacon.SyncChain(fix.Logger(), store, in, st)
		n.logf("net: SyncChain server %d for %d ended: %v", to.Idx, from.Idx, err)
		vrt.Close(ch, func() { close(ch) })
	})
	return ch
}

// Heads returns the store head of every node (reads the base stores natively; call after the run or at
// quiescence).
func (n *Net) Heads() []uint64 {
	var out []uint64
	for _, nd := range n.Nodes {
		b, err := nd.Base.Last(context.Background())
		if err != nil {
			out = append(out, 0)
			continue
		}
		out = append(out, b.Round)
	}
	return out
}

// Dump returns the whole content of a node's base store.
func (nd *Node) Dump() []*common.Beacon {
	var out []*common.Beacon
	_ = nd.Base.Cursor(context.Background(), func(ctx context.Context, cur chain.Cursor) error {
		for b, err := cur.First(ctx); b != nil && err == nil; b, err = cur.Next(ctx) {
			out = append(out, fix.CopyBeacon(b))
		}
		return nil
	})
	return out
}
