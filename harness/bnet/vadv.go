package bnet

import (
	"bytes"
	"context"
	"fmt"
	"strings"
	"time"

	"github.com/drand/drand/v2/common"
	"github.com/drand/drand/v2/internal/chain/beacon"
	proto "github.com/drand/drand/v2/protobuf/drand"
	"github.com/drand/drand/v2/verifharness/fix"
	"google.golang.org/grpc/peer"
	vrt "verif.local/vrt"
	"verif.local/vrt/explore"
)

// Item is one packet the adversary (playing every member but V) hands to V.
type Item struct {
	Label string
	From  int // index of the member whose address the packet comes from
	P     *proto.PartialBeaconPacket
	// AdvanceTo: before delivering, wait until V's clock shows at least the start of this round (0: none)
	AtRound uint64
	// AfterHead: before delivering, wait until V's store head is at least this round (0: none)
	AfterHead uint64
	// AfterSigned: before delivering, wait until V has made this many partial signatures of its own (0: none)
	AfterSigned int
	// ReleaseSync: once this packet is delivered, the scripted sync server (VAdv.SyncGated) starts answering
	ReleaseSync bool
}

// VAdv is the "one real node V (member 0) + scripted other members" harness used by C01 (c01-agg), C03 and C04.
type VAdv struct {
	Keys    *Keys
	Backend string
	// Seqs are the alternative packet sequences; which one is used is a free (configuration) choice.
	Seqs [][]Item
	// Rounds: how many rounds of virtual time the run covers
	Rounds      int
	EarlyTimers bool
	// Prefill: V's store already holds rounds 0..Prefill of the reference chain; StartRound > 0: V's clock starts
	// one second before that round and V starts with Catchup (a restart) instead of Start.
	Prefill    uint64
	StartRound uint64
	// SyncHeight > 0: member 1 also serves sync requests from a store holding the reference chain up to this
	// round (the real SyncChain server on a real store), i.e. V's peers are ahead of V's clock.
	SyncHeight uint64
	// Transition: V is handed the result of a resharing (its new share, the new group) when it starts; the new group
	// takes over at round TransitionRound
	Transition      *Keys
	TransitionRound uint64
	// SyncGated: the scripted sync server answers only after the adversary delivered the packet marked ReleaseSync
	// (a slow sync peer); sequences without such a packet are not gated
	SyncGated bool
	// ExpectBeacon[i], when set for sequence i, lists the rounds V must have stored at the end under the
	// default schedule... (not used by safety oracles)
}

type VAdvResult struct {
	S        *vrt.Sched
	Net      *Net
	V        *Node
	Seq      int
	Signed   [][]byte // digests V signed with its own share, in order
	SignedAt []time.Time
	Writes   []*common.Beacon
	WriteAt  []time.Time
	Err      error
}

// ownSignHook records Sign calls made during the current run (one run per process at a time).
var ownSignHook func(idx int, msg []byte)

// SignRec is one threshold-signature creation observed during a run.
type SignRec struct {
	ShareIdx int
	Digest   []byte
	At       time.Time // global virtual time
}

// Run executes one schedule.
func (h *VAdv) Run(devs []vrt.Dev, labels bool) *VAdvResult {
	k := h.Keys
	res := &VAdvResult{}
	ownSignHook = func(idx int, msg []byte) {
		if idx == k.Shares[0].I {
			res.Signed = append(res.Signed, append([]byte{}, msg...))
			res.SignedAt = append(res.SignedAt, vrt.VNow())
		}
	}
	defer func() { ownSignHook = nil }()
	until := time.Unix(k.Genesis, 0).Add(time.Duration(h.Rounds)*k.Period - time.Second)
	start := vrt.Epoch
	if h.StartRound > 0 {
		start = time.Unix(common.TimeOfRound(k.Period, k.Genesis, h.StartRound), 0).Add(-time.Second)
		until = time.Unix(common.TimeOfRound(k.Period, k.Genesis, h.StartRound+uint64(h.Rounds)), 0).Add(-time.Second)
	}
	mx := h.Prefill
	if h.SyncHeight > mx {
		mx = h.SyncHeight
	}
	var ref []*common.Beacon
	if mx > 0 {
		ref = k.RefChain(mx)
	}
	res.S = vrt.Run(vrt.Options{Devs: devs, Start: start, MaxSteps: 300000, Until: until, Labels: labels, Watchdog: 60 * time.Second}, func() {
		defer vrt.SetEarlyTimers(h.EarlyTimers)
		ctx := context.Background()
		res.Seq = vrt.ChooseFree(len(h.Seqs), "packet sequence")
		seq := h.Seqs[res.Seq]
		nt := NewNet(k)
		res.Net = nt
		syncOpen := !h.SyncGated
		if h.SyncGated {
			syncOpen = true
			for _, it := range seq {
				if it.ReleaseSync {
					syncOpen = false
				}
			}
		}
		var pre []*common.Beacon
		if h.Prefill > 0 {
			pre = ref[:h.Prefill+1]
		}
		v, err := nt.AddNodePrefilled(ctx, k, 0, h.Backend, 0, pre)
		if err != nil {
			res.Err = err
			return
		}
		if h.SyncHeight > 0 {
			// a peer store served by the real SyncChain routine
			ps, pclean, err := fix.NewBackendSize(ctx, "memdb", k.SchemeID == "pedersen-bls-chained", 64)
			if err != nil {
				res.Err = err
				return
			}
			defer pclean()
			for _, b := range ref[:h.SyncHeight+1] {
				_ = ps.Put(ctx, fix.CopyBeacon(b))
			}
			pcbs := beacon.NewCallbackStore(fix.Logger(), ps)
			nt.SyncServe = func(from, to int, req *proto.SyncRequest, cctx context.Context) (chan *proto.BeaconPacket, error) {
				ch := make(chan *proto.BeaconPacket, 64)
				sctx, cancel := context.WithCancel(peer.NewContext(cctx, &peer.Peer{Addr: taddr(k.Addr(0))}))
				st := &chanStream{ctx: sctx, ch: ch}
				vrt.GoNamed("scripted-sync-server", func() {
					defer cancel()
					vrt.BlockUntil(func() bool { return syncOpen })
					_ = beacon.SyncChain(fix.Logger(), pcbs, req, st)
					vrt.Close(ch, func() { close(ch) })
				})
				return ch, nil
			}
		}
		res.V = v
		v.Mon.OnPut = func(b *common.Beacon) {
			res.Writes = append(res.Writes, b)
			res.WriteAt = append(res.WriteAt, vrt.VNow())
			vrt.Logf("V: database write round %d", b.Round)
		}
		if h.StartRound > 0 {
			v.H.Catchup(ctx)
		} else if err := v.H.Start(ctx); err != nil {
			res.Err = err
			return
		}
		if h.Transition != nil {
			g := h.Transition.Group()
			g.TransitionTime = common.TimeOfRound(k.Period, k.Genesis, h.TransitionRound)
			vrt.Logf("V learns the new group (threshold %d -> %d, transition at round %d)", k.T, h.Transition.T, h.TransitionRound)
			v.H.TransitionNewGroup(ctx, h.Transition.Share(0), g)
		}
		vrt.GoNamed("adversary", func() {
			for _, it := range seq {
				if it.AtRound > 0 {
					at := time.Unix(common.TimeOfRound(k.Period, k.Genesis, it.AtRound), 0)
					if d := at.Sub(v.Clock.Now()); d > 0 {
						v.Clock.Sleep(d)
					}
				}
				if it.AfterHead > 0 {
					want := it.AfterHead
					vrt.BlockUntil(func() bool { b, err := v.Base.Last(ctx); return err == nil && b.Round >= want })
				}
				if it.AfterSigned > 0 {
					want := it.AfterSigned
					vrt.BlockUntil(func() bool { return len(res.Signed) >= want })
				}
				vrt.Logf("adversary: %s", it.Label)
				_ = nt.Deliver(ctx, it.From, k.Addr(it.From), v, it.P)
				if it.ReleaseSync {
					vrt.Logf("adversary: the sync peer starts answering")
					syncOpen = true
				}
			}
		})
	})
	return res
}

// Judge evaluates the oracles shared by C01 and C03 on one execution.
//   - validity (C01): every database write of round >= 1 reference-verifies, links to the stored previous beacon
//   - threshold (C03): at the moment of a write of (r, prev), at least T distinct members had a reference-valid
//     partial for exactly (r, prev) delivered to V (ledger) or signed by V itself (sign hook)
func (h *VAdv) Judge(r *VAdvResult, prefix string) *explore.Exec {
	k := h.Keys
	x := &explore.Exec{S: r.S}
	if r.S.NativeBlock != "" || r.S.ReplayDivergence != "" {
		x.Outcome = "ENGINE"
		return x
	}
	add := func(fp, f string, a ...any) {
		x.Violations = append(x.Violations, explore.Violation{Fingerprint: prefix + "/" + fp, Detail: fmt.Sprintf("%s n=%d t=%d %s seq#%d [%s]: ", k.SchemeID, k.N, k.T, h.Backend, r.Seq, SeqLabel(h.Seqs[r.Seq])) + fmt.Sprintf(f, a...)})
	}
	if r.Err != nil {
		add("harness-setup", "%v", r.Err)
		return x
	}
	if r.S.Panic != "" {
		add("panic", "%.600s", r.S.Panic)
	}
	if r.S.HorizonHit {
		add("horizon", "step horizon hit")
	}
	chained := k.SchemeID == "pedersen-bls-chained"
	prevSig := k.Seed // genesis beacon signature
	var ref []*common.Beacon
	if h.Prefill > 0 || h.SyncHeight > 0 {
		mx := h.Prefill
		if h.SyncHeight > mx {
			mx = h.SyncHeight
		}
		ref = k.RefChain(mx)
		prevSig = ref[h.Prefill].Signature
	}
	var wr []string
	for i, b := range r.Writes {
		if b.Round == 0 {
			continue
		}
		wr = append(wr, fmt.Sprint(b.Round))
		if err := k.RefVerify(b); err != nil {
			add("invalid-beacon-stored", "round %d stored with a signature that does not verify under the group key: %v", b.Round, err)
		}
		if chained && !bytes.Equal(b.PreviousSig, prevSig) {
			add("broken-link", "round %d stored with previous signature %x, stored signature of the round before is %x", b.Round, b.PreviousSig[:4], prevSig[:4])
		}
		prevSig = b.Signature
		// threshold accounting at the time of the write
		signers := map[int]bool{}
		// from the transition round on, the members and the threshold are those of the new group
		kk := k
		if h.Transition != nil && b.Round >= h.TransitionRound {
			kk = h.Transition
		}
		for _, d := range r.Net.Ledger {
			valid, idx := d.Valid, d.SignerIdx
			if kk != k {
				ix, err := kk.RefVerifyPartial(d.Round, d.Prev, d.Sig)
				valid, idx = err == nil, ix
			}
			if d.To == r.V.Idx && valid && d.Round == b.Round && (!chained || bytes.Equal(d.Prev, b.PreviousSig)) && !d.SenderNow.After(r.WriteAt[i]) {
				signers[idx] = true
			}
		}
		dg := RefDigest(k.SchemeID, b.Round, b.PreviousSig)
		for j, m := range r.Signed {
			if bytes.Equal(m, dg) && !r.SignedAt[j].After(r.WriteAt[i]) {
				signers[k.Shares[0].I] = true
			}
		}
		if h.SyncHeight >= b.Round && bytes.Equal(ref[b.Round].Signature, b.Signature) {
			continue // may legitimately come from the sync source
		}
		if len(signers) < kk.T {
			add("below-threshold", "round %d was stored while only %d distinct members (%v) had a valid partial for it at V (threshold %d)", b.Round, len(signers), keys(signers), kk.T)
		}
	}
	x.Outcome = fmt.Sprintf("seq#%d writes=[%s]", r.Seq, strings.Join(wr, " "))
	return x
}

func keys(m map[int]bool) []int {
	var l []int
	for k := range m {
		l = append(l, k)
	}
	return l
}

func SeqLabel(s []Item) string {
	var l []string
	for _, i := range s {
		l = append(l, i.Label)
	}
	return strings.Join(l, ", ")
}

// ---- packet builders ----

func (k *Keys) meta() *proto.Metadata {
	return &proto.Metadata{BeaconID: k.BeaconID, NodeVersion: &proto.NodeVersion{Major: 2}}
}

// Valid partial of member j for round r on top of prev.
func (k *Keys) Partial(j int, r uint64, prev []byte) *proto.PartialBeaconPacket {
	p := prev
	if k.SchemeID != "pedersen-bls-chained" {
		p = nil
	}
	return &proto.PartialBeaconPacket{Round: r, PreviousSignature: prev, PartialSig: k.SignPartial(j, r, p), Metadata: k.meta()}
}

// PartialRaw builds a packet with explicit fields.
func (k *Keys) PartialRaw(r uint64, prev, sig []byte) *proto.PartialBeaconPacket {
	return &proto.PartialBeaconPacket{Round: r, PreviousSignature: prev, PartialSig: sig, Metadata: k.meta()}
}

// JudgeFuture adds the C04 oracles of the V+adversary harness: V refuses every partial for a round more than
// one ahead of its clock, stores no beacon of a round before that round's time (the adversary controls fewer
// than T members in these runs only if the harness says so), and releases no partial early.
func (h *VAdv) JudgeFuture(r *VAdvResult, x *explore.Exec, prefix string, adversaryBelowThreshold bool) {
	k := h.Keys
	if r.Err != nil || r.Net == nil || r.S.NativeBlock != "" || r.S.ReplayDivergence != "" {
		return
	}
	add := func(fp, f string, a ...any) {
		x.Violations = append(x.Violations, explore.Violation{Fingerprint: prefix + "/" + fp, Detail: fmt.Sprintf("%s n=%d t=%d seq#%d [%s]: ", k.SchemeID, k.N, k.T, r.Seq, SeqLabel(h.Seqs[r.Seq])) + fmt.Sprintf(f, a...)})
	}
	for _, d := range r.Net.Ledger {
		// the round V's clock is in, computed here (not with the repository's CurrentRound, which answers 1 before
		// genesis): no round before genesis, then one per period
		cur := uint64(0)
		if now := d.SenderNow.Unix(); now >= k.Genesis {
			cur = uint64((now-k.Genesis)/int64(k.Period/time.Second)) + 1
		}
		if d.Round > cur+1 && d.ReceiverOK {
			add("future-partial-accepted", "V accepted a partial for round %d while its clock was in round %d", d.Round, cur)
		}
	}
	for _, d := range r.Net.Sent {
		if t := common.TimeOfRound(k.Period, k.Genesis, d.Round); d.From == r.V.Idx && d.SenderNow.Unix() < t {
			add("early-partial", "V released its partial for round %d at local time %d, before that round's time %d", d.Round, d.SenderNow.Unix(), t)
		}
	}
	if adversaryBelowThreshold {
		for i, b := range r.Writes {
			if t := common.TimeOfRound(k.Period, k.Genesis, b.Round); b.Round > 0 && r.WriteAt[i].Unix() < t {
				add("early-beacon", "V stored round %d at local time %d, before that round's time %d", b.Round, r.WriteAt[i].Unix(), t)
			}
		}
	}
}
