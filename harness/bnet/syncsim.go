package bnet

import (
	"math/big"
	"context"
	"fmt"
	"strings"
	"time"

	"google.golang.org/grpc"

	"github.com/drand/drand/v2/common"
	pubchain "github.com/drand/drand/v2/common/chain"
	"github.com/drand/drand/v2/crypto"
	"github.com/drand/drand/v2/internal/chain"
	"github.com/drand/drand/v2/internal/chain/beacon"
	chainerrors "github.com/drand/drand/v2/internal/chain/errors"
	dnet "github.com/drand/drand/v2/internal/net"
	proto "github.com/drand/drand/v2/protobuf/drand"
	"github.com/drand/drand/v2/verifharness/fix"
	vrt "verif.local/vrt"
	"verif.local/vrt/explore"
)

// SyncCase is one configuration of the sync harness: the real SyncManager of a node at height H0 asked to
// reach Target (0: follow) from scripted peers.
type SyncCase struct {
	H0     uint64
	Target uint64
	Peers  []string // behaviour per peer identity: honest | behind | refuse | stall | close@j | badsig@j | skip@j | repeat@j | regress@j | foreignid | validgap | wrongchain | emptysig@j
	Height uint64   // chain height the honest peers have
	// FailWrite: the first database write of this round fails (0: none) — a cancelled context or an I/O error
	FailWrite uint64
}

func (c SyncCase) String() string {
	f := ""
	if c.FailWrite > 0 {
		f = fmt.Sprintf(" first-write-of-round-%d-fails", c.FailWrite)
	}
	return fmt.Sprintf("h0=%d target=%d height=%d peers=[%s]%s", c.H0, c.Target, c.Height, strings.Join(c.Peers, " "), f)
}

func (c SyncCase) hasHonest() bool {
	for _, p := range c.Peers {
		if p == "honest" {
			return true
		}
	}
	return false
}
func (c SyncCase) hasStall() bool {
	for _, p := range c.Peers {
		if p == "stall" {
			return true
		}
	}
	return false
}

type SyncSim struct {
	Keys    *Keys
	Foreign *Keys // another chain (same scheme) for "wrongchain" peers
	Backend string
	Cases   []SyncCase
	Periods int // how many periods the node keeps re-requesting
	// Follow builds the store stack of a node that follows a chain (StartFollowChain: callback store over scheme store
	// over the database, no append-only layer) instead of a participant's
	Follow bool
}

type simPeer struct{ addr string }

func (p simPeer) Address() string { return p.addr }

type simClient struct {
	sim      *SyncSim
	c        SyncCase
	attempts []string
	ctx      context.Context
}

func (s *simClient) GetIdentity(context.Context, dnet.Peer, *proto.IdentityRequest, ...dnet.CallOption) (*proto.IdentityResponse, error) {
	return nil, fmt.Errorf("n/a")
}
func (s *simClient) Status(context.Context, dnet.Peer, *proto.StatusRequest, ...grpc.CallOption) (*proto.StatusResponse, error) {
	return nil, fmt.Errorf("n/a")
}
func (s *simClient) Check(context.Context, dnet.Peer) error { return nil }
func (s *simClient) PartialBeacon(context.Context, dnet.Peer, *proto.PartialBeaconPacket, ...dnet.CallOption) error {
	return fmt.Errorf("n/a")
}

func packet(b *common.Beacon, id string) *proto.BeaconPacket {
	return &proto.BeaconPacket{Round: b.Round, Signature: append([]byte{}, b.Signature...), PreviousSignature: append([]byte(nil), b.PreviousSig...), Metadata: &proto.Metadata{BeaconID: id}}
}

var bn254P, _ = new(big.Int).SetString("21888242871839275222246405745257275088696311157297823662689037894645226208583", 10)

func (s *simClient) SyncChain(ctx context.Context, p dnet.Peer, in *proto.SyncRequest, _ ...dnet.CallOption) (chan *proto.BeaconPacket, error) {
	var idx int
	fmt.Sscanf(p.Address(), "peer-%d", &idx)
	beh := s.c.Peers[idx]
	s.attempts = append(s.attempts, fmt.Sprintf("%s(from %d)", beh, in.FromRound))
	vrt.Logf("sync client: SyncChain to peer %d (%s) from round %d", idx, beh, in.FromRound)
	k := s.sim.Keys
	name, arg := beh, 0
	if i := strings.Index(beh, "@"); i > 0 {
		name = beh[:i]
		fmt.Sscan(beh[i+1:], &arg)
	}
	from := in.FromRound
	switch name {
	case "refuse":
		return nil, fmt.Errorf("connection refused")
	case "behind":
		return nil, fmt.Errorf("%w %d < %d", chainerrors.ErrNoBeaconStored, from-1, from)
	}
	if from > s.c.Height {
		return nil, fmt.Errorf("%w %d < %d", chainerrors.ErrNoBeaconStored, s.c.Height, from)
	}
	src := k.RefChain(s.c.Height)
	if name == "wrongchain" {
		src = s.sim.Foreign.RefChain(s.c.Height)
	}
	var seq []*proto.BeaconPacket
	id := k.BeaconID
	if name == "foreignid" {
		id = "some-other-beacon"
	}
	start := from
	if from == 0 {
		start = 1
	}
	if name == "validgap" {
		start++
	}
	j := 0
	for r := start; r <= s.c.Height; r++ {
		pk := packet(src[r], id)
		switch name {
		case "badsig":
			if j == arg {
				pk.Signature[len(pk.Signature)/2] ^= 0x04
			}
		case "emptysig":
			if j == arg {
				pk.Signature = nil
			}
		case "trailing":
			// the genuine signature followed by two more bytes
			if j >= arg {
				pk.Signature = append(append([]byte{}, pk.Signature...), 0x00, 0x01)
			}
		case "xplusp":
			// the genuine signature with its first 32-byte coordinate x sent as x+p (p: the BN254 base field modulus): the
			// same curve point for a decoder that reduces instead of refusing, garbage for every other scheme
			if j >= arg && len(pk.Signature) >= 32 {
				x := new(big.Int).SetBytes(pk.Signature[:32])
				x.Add(x, bn254P)
				if x.BitLen() <= 256 {
					sig := append([]byte{}, pk.Signature...)
					x.FillBytes(sig[:32])
					pk.Signature = sig
				}
			}
		case "skip":
			if j == arg {
				j++
				continue
			}
		case "repeat":
			if j == arg {
				seq = append(seq, pk)
			}
		case "regress":
			if j == arg && r > 1 {
				seq = append(seq, pk, packet(src[r-1], id))
				j++
				continue
			}
		case "close":
			if j == arg {
				r = s.c.Height + 1
				continue
			}
		}
		seq = append(seq, pk)
		j++
	}
	if (name == "forgedreplay" || name == "genuinereplay") && len(seq) > arg {
		// after its genuine stream the peer sends an old round again: forged (signature of another round, previous
		// signature = the head's, which is public) or genuine
		old := seq[arg]
		rp := &proto.BeaconPacket{Round: old.Round, Signature: append([]byte{}, old.Signature...), PreviousSignature: old.PreviousSignature, Metadata: old.Metadata}
		if name == "forgedreplay" {
			last := seq[len(seq)-1]
			rp.Signature = append([]byte{}, last.Signature...)
			if rp.PreviousSignature != nil {
				rp.PreviousSignature = append([]byte{}, last.Signature...)
			}
		}
		seq = append(seq, rp)
	}
	ch := make(chan *proto.BeaconPacket, len(seq)+1)
	// every scripted bad peer ends its stream when it has nothing more to say (fails fast); only an honest
	// server keeps the stream open for live beacons, and only "stall" never says anything
	closeAtEnd := name != "honest" && name != "stall"
	if name == "stall" {
		seq = nil
	}
	vrt.GoNamed(fmt.Sprintf("peer-%d-%s", idx, name), func() {
		for _, pk := range seq {
			if ctx.Err() != nil {
				return
			}
			c := ch
			vrt.Send(c, func() { c <- pk })
		}
		if closeAtEnd {
			vrt.Close(ch, func() { close(ch) })
		}
		// an honest server keeps the stream open (live phase without new beacons)
	})
	return ch, nil
}

type SyncResult struct {
	S        *vrt.Sched
	Case     int
	Writes   []*common.Beacon
	Head     uint64
	Attempts []string
	Err      error
	// HeadAfterFirst is the store head one period after the first request (every peer that fails fast has been
	// tried by then: Sync moves on to the next peer within the same call)
	HeadAfterFirst uint64
}

func (sm *SyncSim) Run(devs []vrt.Dev, labels bool) *SyncResult {
	k := sm.Keys
	res := &SyncResult{}
	var maxH uint64
	for _, c := range sm.Cases {
		if c.Height > maxH {
			maxH = c.Height
		}
	}
	k.RefChain(maxH)
	if sm.Foreign != nil {
		sm.Foreign.RefChain(maxH)
	}
	var cl *simClient
	var mon *fix.Monitor
	var cleanup func()
	res.S = vrt.Run(vrt.Options{Devs: devs, MaxSteps: 500000, Labels: labels, FreePerm: true, Watchdog: 60 * time.Second,
		Start: time.Unix(common.TimeOfRound(k.Period, k.Genesis, maxH), 0),
		Until: time.Unix(common.TimeOfRound(k.Period, k.Genesis, maxH), 0).Add(time.Duration(sm.Periods)*k.Period + time.Second)}, func() {
		ctx, cancel := context.WithCancel(context.Background())
		_ = cancel
		res.Case = vrt.ChooseFree(len(sm.Cases), "sync case")
		c := sm.Cases[res.Case]
		base, cl0, err := fix.NewBackendSize(ctx, sm.Backend, k.SchemeID == crypto.DefaultSchemeID, 64)
		if err != nil {
			res.Err = err
			return
		}
		cleanup = cl0
		ref := k.RefChain(maxH)
		for r := uint64(0); r <= c.H0; r++ {
			if err := base.Put(ctx, fix.CopyBeacon(ref[r])); err != nil {
				res.Err = err
				return
			}
		}
		mon = fix.NewMonitor(base)
		if c.FailWrite > 0 {
			failed := false
			mon.Fail = func(b *common.Beacon) error {
				if b.Round == c.FailWrite && !failed {
					failed = true
					vrt.Logf("injected failure of the database write of round %d", b.Round)
					return fmt.Errorf("injected: database write failed")
				}
				return nil
			}
		}
		ss, err := beacon.NewSchemeStore(ctx, mon, k.Scheme)
		if err != nil {
			res.Err = err
			return
		}
		var top chain.Store = ss
		if !sm.Follow {
			as, err := beacon.VerifNewAppendStore(ctx, ss)
			if err != nil {
				res.Err = err
				return
			}
			top = as
		}
		cbs := beacon.NewCallbackStore(fix.Logger(), top)
		cl = &simClient{sim: sm, c: c, ctx: ctx}
		clk := &vrt.Clock{}
		syncm, err := beacon.NewSyncManager(ctx, &beacon.SyncConfig{Log: fix.Logger(), Client: cl, Clock: clk, Store: cbs, BoltdbStore: mon,
			Info: pubchain.NewChainInfo(k.Group()), NodeAddr: "self"})
		if err != nil {
			res.Err = err
			return
		}
		beacon.VerifSetSyncManagerThresholdScheme(syncm, k.Scheme.ThresholdScheme)
		vrt.GoNamed("syncmanager.Run", syncm.Run)
		var peers []dnet.Peer
		for i := range c.Peers {
			peers = append(peers, simPeer{fmt.Sprintf("peer-%d", i)})
		}
		// the node re-issues its request every period, as the beacon run loop does on every tick with a gap
		for p := 0; p < sm.Periods; p++ {
			vrt.Logf("node: sync request up to %d", c.Target)
			syncm.SendSyncRequest(ctx, c.Target, peers)
			clk.Sleep(k.Period)
			if p == 0 {
				if b, err := mon.Store.Last(ctx); err == nil {
					res.HeadAfterFirst = b.Round
				}
			}
		}
	})
	if mon != nil {
		res.Writes = mon.Puts
		if b, err := mon.Store.Last(context.Background()); err == nil {
			res.Head = b.Round
		}
	}
	if cl != nil {
		res.Attempts = cl.attempts
	}
	if cleanup != nil {
		cleanup()
	}
	return res
}

func (sm *SyncSim) Judge(r *SyncResult, prefix string) *explore.Exec {
	k := sm.Keys
	x := &explore.Exec{S: r.S}
	if r.S.NativeBlock != "" || r.S.ReplayDivergence != "" {
		x.Outcome = "ENGINE"
		return x
	}
	c := sm.Cases[r.Case]
	add := func(fp, f string, a ...any) {
		x.Violations = append(x.Violations, explore.Violation{Fingerprint: prefix + "/" + fp, Detail: fmt.Sprintf("%s %s case#%d {%s}: ", k.SchemeID, sm.Backend, r.Case, c) + fmt.Sprintf(f, a...) + fmt.Sprintf(" (attempts %v)", r.Attempts)})
	}
	if r.Err != nil {
		add("harness-setup", "%v", r.Err)
		return x
	}
	if r.S.Panic != "" {
		add("panic", "%.800s", r.S.Panic)
	}
	if r.S.HorizonHit {
		add("horizon", "step horizon hit")
	}
	next := c.H0 + 1
	ref := k.RefChain(c.Height)
	for _, b := range r.Writes {
		if err := k.RefVerify(b); err != nil {
			add("invalid-beacon-stored", "round %d stored although its signature does not verify against the pinned chain: %v", b.Round, err)
		}
		if b.Round != next {
			if sm.Follow && b.Round < next && b.Round <= c.Height && string(ref[b.Round].Signature) == string(b.Signature) {
				// a follower has no append-only layer: a genuine beacon it already holds may be written again with the same bytes
				x.Tags = append(x.Tags, "identical-rewrite")
				continue
			}
			add("write-order", "round %d stored when the head was %d", b.Round, next-1)
		}
		next = b.Round + 1
		if b.Round <= c.Height && string(ref[b.Round].Signature) != string(b.Signature) {
			add("foreign-beacon-stored", "round %d stored with a signature that is not the chain's", b.Round)
		}
	}
	goal := c.Target
	if goal == 0 || goal > c.Height {
		goal = c.Height
	}
	reached := r.Head >= goal
	x.Outcome = fmt.Sprintf("case#%d head=%d reached=%v attempts=%d", r.Case, r.Head, reached, len(r.Attempts))
	if c.hasHonest() {
		x.Tags = append(x.Tags, fmt.Sprintf("case#%d:reached=%v", r.Case, reached))
		if !c.hasStall() && c.FailWrite == 0 && r.HeadAfterFirst < goal {
			add("not-converged-in-one-sync", "an honest peer ahead exists and every other peer fails fast, yet one period after the request the store is at %d (goal %d): the sync call did not move on to the honest peer with the right starting round", r.HeadAfterFirst, goal)
		}
		if !reached && !c.hasStall() {
			add("not-converged", "an honest peer ahead exists and every other peer fails fast, but the store stopped at %d (goal %d)", r.Head, goal)
		}
		if !reached && c.hasStall() && sm.Periods >= 4 && len(r.Attempts) < 2 {
			add("wedged-on-stalling-peer", "a stalling peer was contacted and no fresh attempt was made in %d periods", sm.Periods)
		}
	}
	return x
}

// Post is the existential part of the convergence oracle: for every case with an honest peer ahead, some
// explored execution (some contact order) reaches the goal.
func (sm *SyncSim) Post(prefix string) func(st *explore.Stats) []explore.Violation {
	return func(st *explore.Stats) []explore.Violation {
		var out []explore.Violation
		for i, c := range sm.Cases {
			if !c.hasHonest() {
				continue
			}
			if st.Tags[fmt.Sprintf("case#%d:reached=true", i)] == 0 && st.Tags[fmt.Sprintf("case#%d:reached=false", i)] > 0 {
				out = append(out, explore.Violation{Fingerprint: prefix + "/never-converges", Detail: fmt.Sprintf("%s case#%d {%s}: no explored contact order and schedule reaches the goal although an honest peer is ahead", sm.Keys.SchemeID, i, c)})
			}
		}
		return out
	}
}

var _ chain.Store = (*fix.Monitor)(nil)

// RepairClient serves single-round re-sync requests natively (no scheduler): peers are named by behaviour.
type RepairClient struct {
	simClient
	k, foreign *Keys
	height     uint64
}

func NewRepairClient(k, foreign *Keys, height uint64) *RepairClient {
	return &RepairClient{k: k, foreign: foreign, height: height}
}

func (r *RepairClient) SyncChain(ctx context.Context, p dnet.Peer, in *proto.SyncRequest, _ ...dnet.CallOption) (chan *proto.BeaconPacket, error) {
	src := r.k.RefChain(r.height)
	from := in.FromRound
	if from == 0 || from > r.height {
		return nil, fmt.Errorf("no beacon stored")
	}
	ch := make(chan *proto.BeaconPacket, r.height+2)
	switch p.Address() {
	case "peer-badsig":
		pk := packet(src[from], r.k.BeaconID)
		pk.Signature[3] ^= 0x80
		ch <- pk
		close(ch)
	case "peer-wrongchain":
		ch <- packet(r.foreign.RefChain(r.height)[from], r.k.BeaconID)
		close(ch)
	default:
		for x := from; x <= r.height; x++ {
			ch <- packet(src[x], r.k.BeaconID)
		}
	}
	return ch, nil
}
