// Package gen builds key material and groups for the value-shape enumerations (C17, C20).
package gen

import (
	"fmt"
	"time"

	"github.com/drand/drand/v2/common/key"
	"github.com/drand/drand/v2/crypto"
	"github.com/drand/kyber"
	"github.com/drand/kyber/share"
	"github.com/drand/kyber/share/dkg"
	"github.com/drand/kyber/util/random"
)

type Material struct {
	Scheme  *crypto.Scheme
	Pairs   []*key.Pair
	Poly    *share.PriPoly
	Commits []kyber.Point
	T       int
}

// NewMaterial draws n key pairs and a polynomial of threshold t.
func NewMaterial(schemeID string, n, t int) *Material {
	sch, err := crypto.SchemeFromName(schemeID)
	if err != nil {
		panic(err)
	}
	m := &Material{Scheme: sch, T: t}
	for i := 0; i < n; i++ {
		kp, err := key.NewKeyPair(fmt.Sprintf("node%d.example.org:%d", i, 4000+i), sch)
		if err != nil {
			panic(err)
		}
		m.Pairs = append(m.Pairs, kp)
	}
	m.Poly = share.NewPriPoly(sch.KeyGroup, t, nil, random.New())
	_, m.Commits = m.Poly.Commit(sch.KeyGroup.Point().Base()).Info()
	return m
}

type GroupOpts struct {
	ID         string
	Period     time.Duration
	Catchup    time.Duration
	Genesis    int64
	Transition int64
	Seed       []byte
	NoPubKey   bool
	Order      []int // node listing order (indices into Pairs); nil: natural
	IndexOf    func(i int) uint32
}

func (m *Material) Group(o GroupOpts) *key.Group {
	g := &key.Group{Threshold: m.T, Period: o.Period, CatchupPeriod: o.Catchup, Scheme: m.Scheme, ID: o.ID, GenesisTime: o.Genesis,
		TransitionTime: o.Transition}
	if o.Seed != nil {
		g.GenesisSeed = append([]byte{}, o.Seed...)
	}
	if !o.NoPubKey {
		g.PublicKey = &key.DistPublic{Coefficients: append([]kyber.Point{}, m.Commits...)}
	}
	order := o.Order
	if order == nil {
		for i := range m.Pairs {
			order = append(order, i)
		}
	}
	for _, i := range order {
		idx := uint32(i)
		if o.IndexOf != nil {
			idx = o.IndexOf(i)
		}
		id := *m.Pairs[i].Public
		g.Nodes = append(g.Nodes, &key.Node{Identity: &id, Index: idx})
	}
	return g
}

func (m *Material) Share(i int) *key.Share {
	return &key.Share{DistKeyShare: dkg.DistKeyShare{Share: m.Poly.Shares(len(m.Pairs))[i], Commits: m.Commits}, Scheme: m.Scheme}
}

// Perms returns all permutations of [0,n).
func Perms(n int) [][]int {
	var out [][]int
	var rec func(cur []int, used []bool)
	rec = func(cur []int, used []bool) {
		if len(cur) == n {
			out = append(out, append([]int{}, cur...))
			return
		}
		for i := 0; i < n; i++ {
			if !used[i] {
				used[i] = true
				rec(append(cur, i), used)
				used[i] = false
			}
		}
	}
	rec(nil, make([]bool, n))
	return out
}
