//go:build conn_insecure

package dw

import (
	"context"
	"crypto/sha256"
	"fmt"
	"net"
	"os"
	"sort"
	"time"

	"google.golang.org/grpc"
	"google.golang.org/protobuf/proto"
	"google.golang.org/protobuf/types/known/timestamppb"

	"github.com/drand/drand/v2/common"
	"github.com/drand/drand/v2/common/key"
	"github.com/drand/drand/v2/crypto"
	"github.com/drand/drand/v2/internal/dkg"
	dnetpkg "github.com/drand/drand/v2/internal/net"
	"github.com/drand/drand/v2/internal/util"
	pdkg "github.com/drand/drand/v2/protobuf/dkg"
	pb "github.com/drand/drand/v2/protobuf/drand"
	"github.com/drand/drand/v2/verifharness/bench"
	"github.com/drand/drand/v2/verifharness/fix"
	kdkg "github.com/drand/kyber/share/dkg"
	"github.com/drand/kyber/sign/schnorr"
)

// The node states of the property: "default"/"run2" running chains (chained / unchained scheme), "fresh1" a fresh
// install waiting for its first DKG, "mid1" leader of a proposed first DKG, "mid2" leader of a DKG in its execution
// phase (echo-broadcast board up, kyber protocol waiting for the deals of the two ghosts), "mid3" a joiner that
// received a proposal and joined, "stopped1" a chain stopped through the control API.
var chainSpecs = []bench.ChainSpec{
	{ID: "default", Scheme: crypto.DefaultSchemeID, Kind: "running"},
	{ID: "run2", Scheme: crypto.UnchainedSchemeID, Kind: "running"},
	{ID: "fresh1", Scheme: crypto.DefaultSchemeID, Kind: "fresh"},
	{ID: "mid1", Scheme: crypto.DefaultSchemeID, Kind: "fresh"},
	{ID: "mid2", Scheme: crypto.DefaultSchemeID, Kind: "fresh"},
	{ID: "mid3", Scheme: crypto.DefaultSchemeID, Kind: "fresh"},
	{ID: "stopped1", Scheme: crypto.DefaultSchemeID, Kind: "running"},
	// chains whose group is the daemon plus the two harness-owned members (threshold 2): "grp3" is idle, on "grp3p" the
	// daemon holds a resharing proposal of member 1, on "grp3a" it has accepted it
	{ID: "grp3", Scheme: crypto.DefaultSchemeID, Kind: "group"},
	{ID: "grp3p", Scheme: crypto.DefaultSchemeID, Kind: "group"},
	{ID: "grp3a", Scheme: crypto.DefaultSchemeID, Kind: "group"},
}

var dkgChains = []string{"fresh1", "mid1", "mid2", "mid3", "grp3", "grp3p", "grp3a", "default", "run2"}

const identityAddr = "127.0.0.1:7" // in the daemon's identities; the daemons of all worlds share their key material

// ghosts are the other participants of the DKGs: key pairs owned by the harness, and a gRPC endpoint that accepts
// every DKG packet (so that the daemon's gossip does not have to time out).
type ghost struct {
	pdkg.UnimplementedDKGPublicServer
	kp     *key.Pair
	part   *pdkg.Participant
	srv    *grpc.Server
	member bench.Member
}

func (g *ghost) Packet(context.Context, *pdkg.GossipPacket) (*pdkg.EmptyDKGResponse, error) {
	return &pdkg.EmptyDKGResponse{}, nil
}
func (g *ghost) BroadcastDKG(context.Context, *pdkg.DKGPacket) (*pdkg.EmptyDKGResponse, error) {
	return &pdkg.EmptyDKGResponse{}, nil
}

func newGhost(name string, sch *crypto.Scheme) (*ghost, error) {
	addr := "127.0.0.1:" + bench.FreePort()
	l, err := net.Listen("tcp", addr)
	if err != nil {
		return nil, err
	}
	kp := bench.Member{Label: "c14/ghost/" + name, Addr: addr}.Pair(sch)
	p, err := util.PublicKeyAsParticipant(kp.Public)
	if err != nil {
		return nil, err
	}
	g := &ghost{kp: kp, part: p, srv: grpc.NewServer(), member: bench.Member{Label: "c14/ghost/" + name, Addr: addr}}
	pdkg.RegisterDKGPublicServer(g.srv, g)
	go func() { _ = g.srv.Serve(l) }()
	return g, nil
}

type World struct {
	*bench.Child
	sch     *crypto.Scheme
	g1, g2  *ghost
	dkgCtl  pdkg.DKGControlClient
	me      map[string]*pdkg.Participant // the daemon's identity per chain
	terms   map[string]*pdkg.ProposalTerms
	status0 map[string]string
	started time.Time
	dir     string
	// probe state
	lastHead    map[string]uint64
	lastHeadAt  map[string]time.Time
	probeBundle *pdkg.Packet
	rm          func()
}

func (w *World) Close() {
	if w.Child != nil {
		w.Child.Kill(false)
	}
	if w.rm != nil {
		w.rm()
	}
}

func mdFor(id string) *pb.Metadata {
	return &pb.Metadata{BeaconID: id, NodeVersion: common.GetAppVersion().ToProto()}
}

func (w *World) sign(kp *key.Pair, id string, pkt *pdkg.GossipPacket, terms *pdkg.ProposalTerms, from *pdkg.Participant) (ok bool) {
	defer func() {
		if recover() != nil {
			ok = false // the pre-image routine itself does not cope with this shape: keep the packet unsigned
		}
	}()
	sig, err := kp.Scheme().AuthScheme.Sign(kp.Key, dkg.VerifMessageForSigning(id, pkt, terms))
	if err != nil {
		return false
	}
	pkt.Metadata = &pdkg.GossipMetadata{BeaconID: id, Address: from.Address, Signature: sig}
	return true
}

// firstTerms are the terms of a first DKG led by leader among the three participants.
func (w *World) firstTerms(id string, leader *pdkg.Participant, parts []*pdkg.Participant) *pdkg.ProposalTerms {
	now := t0 // the same terms in every world of this run: packets signed on one daemon are valid on the others
	return &pdkg.ProposalTerms{BeaconID: id, Epoch: 1, Leader: leader, Threshold: 2, Timeout: timestamppb.New(now.Add(6 * time.Hour)),
		CatchupPeriodSeconds: 1, BeaconPeriodSeconds: 3, SchemeID: w.sch.Name, GenesisTime: timestamppb.New(now.Add(12 * time.Hour).Truncate(time.Second)),
		Joining: parts}
}

func (w *World) DKGStatus(id string) string {
	ctx, cancel := context.WithTimeout(context.Background(), 20*time.Second)
	defer cancel()
	r, err := w.dkgCtl.DKGStatus(ctx, &pdkg.DKGStatusRequest{BeaconID: id})
	if err != nil {
		return "error: " + err.Error()
	}
	f := func(e *pdkg.DKGEntry) string {
		if e == nil {
			return "-"
		}
		return fmt.Sprintf("%s/e%d/acc%d/rej%d/j%d/r%d", dkg.Status(e.State), e.Epoch, len(e.Acceptors), len(e.Rejectors), len(e.Joining), len(e.Remaining))
	}
	return f(r.Current) + "|" + f(r.Complete)
}

var ghosts [2]*ghost
var t0 = time.Now().Truncate(time.Second)

// NewWorld starts a daemon child process and brings its chains into the seven node states.
// NewWorld starts a daemon world; a start that fails (a port handed out by FreePort can be taken by somebody else's
// outgoing connection before the daemon binds it) is tried again with fresh ports.
func NewWorld(logFile string, wrapper ...string) (*World, error) {
	var w *World
	var err error
	for attempt := 0; attempt < 4; attempt++ {
		if w, err = newWorldOnce(logFile, wrapper...); err == nil {
			return w, nil
		}
		time.Sleep(300 * time.Millisecond)
	}
	return nil, err
}

func newWorldOnce(logFile string, wrapper ...string) (*World, error) {
	sch, _ := crypto.SchemeFromName(crypto.DefaultSchemeID)
	w := &World{sch: sch, me: map[string]*pdkg.Participant{}, terms: map[string]*pdkg.ProposalTerms{}, status0: map[string]string{}, started: time.Now(),
		lastHead: map[string]uint64{}, lastHeadAt: map[string]time.Time{}}
	for i := range ghosts {
		if ghosts[i] == nil {
			g, err := newGhost(fmt.Sprint(i), sch)
			if err != nil {
				return nil, err
			}
			ghosts[i] = g
		}
	}
	w.g1, w.g2 = ghosts[0], ghosts[1]
	w.dir, w.rm = fix.ScratchDir()
	sp := bench.NewSpec(w.dir, chainSpecs, 1)
	sp.IdentityAddr = identityAddr
	sp.Genesis = t0.Unix() - 2
	sp.Members = []bench.Member{w.g1.member, w.g2.member}
	sp.LogFile = logFile
	sp.DkgPhaseS = 3600
	ch, err := bench.StartChild(sp, wrapper...)
	if err != nil {
		w.rm()
		return nil, err
	}
	w.Child = ch
	if w.dkgCtl, err = dnetpkg.NewDKGControlClient(fix.Logger(), sp.CtrlPort); err != nil {
		w.Close()
		return nil, err
	}
	for _, id := range allChainIDs() {
		p, err := util.PublicKeyAsParticipant(ch.Chains[id].Pair.Public)
		if err != nil {
			w.Close()
			return nil, err
		}
		w.me[id] = p
	}
	ctx, cancel := context.WithTimeout(context.Background(), 60*time.Second)
	defer cancel()
	fail := func(what string, err error) (*World, error) {
		w.Close()
		return nil, fmt.Errorf("world set-up: %s: %w", what, err)
	}
	// mid1, mid2: the daemon proposes a first DKG with the two ghosts
	for _, id := range []string{"mid1", "mid2"} {
		t := w.firstTerms(id, w.me[id], []*pdkg.Participant{w.me[id], w.g1.part, w.g2.part})
		w.terms[id] = t
		_, err := w.dkgCtl.Command(ctx, &pdkg.DKGCommand{Metadata: &pdkg.CommandMetadata{BeaconID: id}, Command: &pdkg.DKGCommand_Initial{Initial: &pdkg.FirstProposalOptions{
			Timeout: t.Timeout, Threshold: t.Threshold, PeriodSeconds: t.BeaconPeriodSeconds, Scheme: t.SchemeID, CatchupPeriodSeconds: t.CatchupPeriodSeconds,
			GenesisTime: t.GenesisTime, Joining: t.Joining}}})
		if err != nil {
			return fail("initial proposal of "+id, err)
		}
	}
	// mid2: the daemon executes (joiners of a first DKG do not accept; phase timeout one hour: the execution phase outlives the check)
	if _, err := w.dkgCtl.Command(ctx, &pdkg.DKGCommand{Metadata: &pdkg.CommandMetadata{BeaconID: "mid2"}, Command: &pdkg.DKGCommand_Execute{Execute: &pdkg.ExecutionOptions{}}}); err != nil {
		return fail("execute on mid2", err)
	}
	// mid3: ghost 1 proposes, the daemon joins
	t3 := w.firstTerms("mid3", w.g1.part, []*pdkg.Participant{w.g1.part, w.me["mid3"], w.g2.part})
	w.terms["mid3"] = t3
	prop := &pdkg.GossipPacket{Packet: &pdkg.GossipPacket_Proposal{Proposal: t3}}
	if !w.sign(w.g1.kp, "mid3", prop, t3, w.g1.part) {
		return fail("sign", fmt.Errorf("cannot sign proposal"))
	}
	if _, err := w.DKG.Packet(ctx, prop); err != nil {
		return fail("ghost proposal on mid3", err)
	}
	if _, err := w.dkgCtl.Command(ctx, &pdkg.DKGCommand{Metadata: &pdkg.CommandMetadata{BeaconID: "mid3"}, Command: &pdkg.DKGCommand_Join{Join: &pdkg.JoinOptions{}}}); err != nil {
		return fail("join on mid3", err)
	}
	// grp3*: member 1 proposes a resharing among the same three members; grp3 only knows the terms
	for _, id := range []string{"grp3", "grp3p", "grp3a"} {
		g := ch.Chains[id].Group
		t := &pdkg.ProposalTerms{BeaconID: id, Epoch: 2, Leader: w.g1.part, Threshold: 2, Timeout: timestamppb.New(t0.Add(6 * time.Hour)),
			CatchupPeriodSeconds: 1, BeaconPeriodSeconds: uint32(g.Period.Seconds()), SchemeID: w.sch.Name, GenesisTime: timestamppb.New(time.Unix(g.GenesisTime, 0)),
			GenesisSeed: g.GenesisSeed, Remaining: []*pdkg.Participant{w.g1.part, w.me[id], w.g2.part}}
		w.terms[id] = t
		if id == "grp3" {
			continue
		}
		prop := &pdkg.GossipPacket{Packet: &pdkg.GossipPacket_Proposal{Proposal: t}}
		if !w.sign(w.g1.kp, id, prop, t, w.g1.part) {
			return fail("sign", fmt.Errorf("cannot sign proposal"))
		}
		if _, err := w.DKG.Packet(ctx, prop); err != nil {
			return fail("member 1's resharing proposal on "+id, err)
		}
		if id == "grp3a" {
			if _, err := w.dkgCtl.Command(ctx, &pdkg.DKGCommand{Metadata: &pdkg.CommandMetadata{BeaconID: id}, Command: &pdkg.DKGCommand_Accept{Accept: &pdkg.AcceptOptions{}}}); err != nil {
				return fail("accept on "+id, err)
			}
		}
	}
	// fresh1: terms of the proposal a ghost would send
	w.terms["fresh1"] = w.firstTerms("fresh1", w.g1.part, []*pdkg.Participant{w.g1.part, w.me["fresh1"], w.g2.part})
	if _, err := w.Ctrl.Shutdown("stopped1"); err != nil {
		return fail("shutdown of stopped1", err)
	}
	time.Sleep(1200 * time.Millisecond) // kick-off grace period of mid2 (1 s): the board exists before, the protocol runs after
	for _, id := range dkgChains {
		w.status0[id] = w.DKGStatus(id)
	}
	want := map[string]string{"fresh1": "Fresh", "mid1": "Proposing", "mid2": "Executing", "mid3": "Joined", "grp3": "Complete", "grp3p": "Proposed", "grp3a": "Accepted"}
	for id, st := range want {
		if len(w.status0[id]) < len(st) || w.status0[id][:len(st)] != st {
			return fail("state of "+id, fmt.Errorf("expected %s, have %s", st, w.status0[id]))
		}
	}
	w.probeBundle = proto.Clone(w.bundles("mid2")[0]).(*pdkg.Packet)
	w.probeBundle.GetDeal().Signature = make([]byte, 96)
	return w, nil
}

// ReqType gives an empty request message of a method (replay).
func ReqType(method string) proto.Message {
	switch method {
	case "/drand.Public/PublicRand", "/drand.Public/PublicRandStream":
		return &pb.PublicRandRequest{}
	case "/drand.Public/ChainInfo":
		return &pb.ChainInfoRequest{}
	case "/drand.Public/ListBeaconIDs":
		return &pb.ListBeaconIDsRequest{}
	case "/drand.Metrics/Metrics":
		return &pb.MetricsRequest{}
	case "/drand.Protocol/GetIdentity":
		return &pb.IdentityRequest{}
	case "/drand.Protocol/SyncChain":
		return &pb.SyncRequest{}
	case "/drand.Protocol/Status":
		return &pb.StatusRequest{}
	case "/drand.Protocol/PartialBeacon":
		return &pb.PartialBeaconPacket{}
	case "/dkg.DKGPublic/Packet":
		return &pdkg.GossipPacket{}
	case "/dkg.DKGPublic/BroadcastDKG":
		return &pdkg.DKGPacket{}
	}
	return nil
}

// ---- base requests ----

type request struct {
	method   string                       // full gRPC method
	rebase   func(w *World) proto.Message // rebuilds the base message at send time (requests that depend on the chain head)
	stream   bool
	target   string // beacon id the base message addresses
	state    string
	name     string
	msg      proto.Message
	resign   func(m proto.Message) bool // re-signs a mutated message with the key of its claimed sender (nil: not signed)
	baseOnly bool                       // sent as it is, no single-field variants
}

func allChainIDs() []string {
	var ids []string
	for _, c := range chainSpecs {
		ids = append(ids, c.ID)
	}
	return ids
}

func stateOf(id string) string {
	switch id {
	case "grp3":
		return "running-group"
	case "grp3p", "grp3a":
		return "mid-reshare"
	case "default", "run2":
		return "running"
	case "fresh1":
		return "fresh"
	case "mid1", "mid2", "mid3":
		return "mid-dkg"
	case "stopped1":
		return "stopped"
	}
	return "unknown-id"
}

func (w *World) head(id string) uint64 {
	ctx, cancel := context.WithTimeout(context.Background(), 10*time.Second)
	defer cancel()
	r, err := w.Public.PublicRand(ctx, &pb.PublicRandRequest{Metadata: mdFor(id)})
	if err != nil {
		return 0
	}
	return r.Round
}

// bundleFor builds validly signed protocol bundles of ghost 1 for the DKG of chain id.
func (w *World) bundles(id string) []*pdkg.Packet {
	t := w.terms[id]
	sorted := util.SortedByPublicKey(append([]*pdkg.Participant{}, t.Joining...))
	idx := uint32(0)
	for i, p := range sorted {
		if p.Address == w.g1.part.Address {
			idx = uint32(i)
		}
	}
	nonce := dkg.VerifNonce(t.Epoch)
	pt := func(seed string) []byte {
		b, _ := w.sch.KeyGroup.Point().Pick(fix.DetStream("c14/" + seed)).MarshalBinary()
		return b
	}
	sc, _ := w.sch.KeyGroup.Scalar().Pick(fix.DetStream("c14/scalar")).MarshalBinary()
	md := mdFor(id)
	var deals []*pdkg.Deal
	for i := range sorted {
		deals = append(deals, &pdkg.Deal{ShareIndex: uint32(i), EncryptedShare: sha256.New().Sum([]byte(fmt.Sprint("share", i)))})
	}
	out := []*pdkg.Packet{
		{Metadata: md, Bundle: &pdkg.Packet_Deal{Deal: &pdkg.DealBundle{DealerIndex: idx, Commits: [][]byte{pt("c0"), pt("c1")}, Deals: deals, SessionId: nonce}}},
		{Metadata: md, Bundle: &pdkg.Packet_Response{Response: &pdkg.ResponseBundle{ShareIndex: idx, Responses: []*pdkg.Response{{DealerIndex: 0, Status: true}, {DealerIndex: 1, Status: false}}, SessionId: nonce}}},
		{Metadata: md, Bundle: &pdkg.Packet_Justification{Justification: &pdkg.JustificationBundle{DealerIndex: idx, Justifications: []*pdkg.Justification{{ShareIndex: 0, Share: sc}}, SessionId: nonce}}},
	}
	for _, p := range out {
		w.signBundle(p)
	}
	return out
}

// signBundle signs a protocol bundle with ghost 1's long-term key, the way kyber does (signature over the bundle hash).
func (w *World) signBundle(p *pdkg.Packet) (ok bool) {
	defer func() {
		if recover() != nil {
			ok = false
		}
	}()
	set := func(sig []byte) {
		switch b := p.Bundle.(type) {
		case *pdkg.Packet_Deal:
			b.Deal.Signature = sig
		case *pdkg.Packet_Response:
			b.Response.Signature = sig
		case *pdkg.Packet_Justification:
			b.Justification.Signature = sig
		}
	}
	set(nil)
	h, err := dkg.VerifBundleHash(p, w.sch)
	if err != nil {
		return false
	}
	sig, err := schnorr.NewScheme(w.sch.KeyGroup.(kdkg.Suite)).Sign(w.g1.kp.Key, h) // the DKG's authentication scheme
	if err != nil {
		return false
	}
	set(sig)
	return true
}

// gossipBases are the control packets of the DKG for chain id, validly signed by the ghost entitled to send them.
func (w *World) gossipBases(id string) []request {
	var out []request
	t := w.terms[id]
	if t == nil {
		// running / stopped / unknown chains: the packets of a first DKG nobody asked for
		t = w.firstTerms(id, w.g1.part, []*pdkg.Participant{w.g1.part, w.g2.part})
	}
	t = proto.Clone(t).(*pdkg.ProposalTerms)
	leaderKP, leader := w.g1.kp, w.g1.part
	mk := func(name string, pkt *pdkg.GossipPacket, kp *key.Pair, from *pdkg.Participant) {
		termsOf := func(p *pdkg.GossipPacket) *pdkg.ProposalTerms {
			if p.GetProposal() != nil {
				return p.GetProposal()
			}
			return t
		}
		w.sign(kp, id, pkt, termsOf(pkt), from)
		out = append(out, request{method: "/dkg.DKGPublic/Packet", target: id, state: stateOf(id), name: "gossip-" + name, msg: pkt,
			resign: func(m proto.Message) bool {
				p := m.(*pdkg.GossipPacket)
				bid := id
				if p.Metadata != nil {
					bid = p.Metadata.BeaconID
				}
				old := p.Metadata
				if !w.sign(kp, bid, p, termsOf(p), from) {
					p.Metadata = old
					return false
				}
				return true
			}})
	}
	prop := proto.Clone(t).(*pdkg.ProposalTerms)
	if id == "mid1" || id == "mid2" {
		// a competing proposal of ghost 1 for the same epoch
		prop.Leader = w.g1.part
	}
	mk("proposal", &pdkg.GossipPacket{Packet: &pdkg.GossipPacket_Proposal{Proposal: prop}}, leaderKP, leader)
	if id == "fresh1" {
		// first-epoch proposals are self-certifying: anybody can make participants (validly self-signed) with any address
		for i, addr := range []string{"h%zz.example.org:4444", "[::1]:99999", "localhost:", ":0", "256.1.1.1:1"} {
			kp := fix.DetKeyPair(fmt.Sprintf("c14/oddpart/%d", i), addr, w.sch)
			odd, err := util.PublicKeyAsParticipant(kp.Public)
			if err != nil {
				continue
			}
			p2 := proto.Clone(prop).(*pdkg.ProposalTerms)
			p2.Joining = []*pdkg.Participant{p2.Joining[0], p2.Joining[1], odd}
			mk(fmt.Sprintf("proposal-odd-participant-%d", i), &pdkg.GossipPacket{Packet: &pdkg.GossipPacket_Proposal{Proposal: p2}}, leaderKP, leader)
			out[len(out)-1].baseOnly = true
		}
	}
	mk("accept", &pdkg.GossipPacket{Packet: &pdkg.GossipPacket_Accept{Accept: &pdkg.AcceptProposal{Acceptor: w.g2.part}}}, w.g2.kp, w.g2.part)
	mk("reject", &pdkg.GossipPacket{Packet: &pdkg.GossipPacket_Reject{Reject: &pdkg.RejectProposal{Rejector: w.g2.part, Reason: "c14", Secret: []byte("s"), PreviousGroupHash: make([]byte, 32), ProposalHash: make([]byte, 32)}}}, w.g2.kp, w.g2.part)
	mk("execute", &pdkg.GossipPacket{Packet: &pdkg.GossipPacket_Execute{Execute: &pdkg.StartExecution{Time: timestamppb.New(time.Now().Add(time.Hour))}}}, leaderKP, leader)
	mk("abort", &pdkg.GossipPacket{Packet: &pdkg.GossipPacket_Abort{Abort: &pdkg.AbortDKG{Reason: "c14"}}}, leaderKP, leader)
	for i, b := range w.bundles(pick(id, w.terms)) {
		b = proto.Clone(b).(*pdkg.Packet)
		b.Metadata = mdFor(id)
		mk(fmt.Sprintf("dkg-%d", i), &pdkg.GossipPacket{Packet: &pdkg.GossipPacket_Dkg{Dkg: &pdkg.DKGPacket{Dkg: b}}}, leaderKP, leader)
	}
	return out
}

func pick(id string, terms map[string]*pdkg.ProposalTerms) string {
	if terms[id] != nil {
		return id
	}
	return "mid2"
}

// bases enumerates, for every endpoint a remote party can reach and every node state, a well-formed request.
func (w *World) bases(targets []string) []request {
	var out []request
	heads := map[string]uint64{}
	for _, id := range []string{"default", "run2"} {
		heads[id] = w.head(id)
	}
	for _, id := range targets {
		st := stateOf(id)
		md := mdFor(id)
		add := func(method string, stream bool, name string, m proto.Message) {
			out = append(out, request{method: method, stream: stream, target: id, state: st, name: name, msg: m})
		}
		add("/drand.Public/PublicRand", false, "rand", &pb.PublicRandRequest{Round: 2, Metadata: md})
		add("/drand.Public/PublicRandStream", true, "rand-stream", &pb.PublicRandRequest{Round: 2, Metadata: md})
		add("/drand.Public/ChainInfo", false, "info", &pb.ChainInfoRequest{Metadata: md})
		add("/drand.Protocol/GetIdentity", false, "identity", &pb.IdentityRequest{Metadata: md})
		add("/drand.Protocol/SyncChain", true, "sync", &pb.SyncRequest{FromRound: 2, Metadata: md})
		add("/drand.Protocol/Status", false, "status", &pb.StatusRequest{Metadata: md, CheckConn: []*pb.Address{{Address: w.Addr}, {Address: "127.0.0.1:1"}}})
		// a well-formed partial: signed with the chain's only share when the harness knows it
		partial := &pb.PartialBeaconPacket{Round: heads[id] + 1, PreviousSignature: make([]byte, 96), PartialSig: make([]byte, 98), Metadata: md}
		if c := w.Chains[id]; c != nil && c.Share != nil && heads[id] > 0 {
			ctx, cancel := context.WithTimeout(context.Background(), 10*time.Second)
			last, err := w.Public.PublicRand(ctx, &pb.PublicRandRequest{Round: heads[id], Metadata: md})
			cancel()
			if err == nil {
				msg := c.Scheme.DigestBeacon(&common.Beacon{Round: last.Round + 1, PreviousSig: last.Signature})
				if ps, err := c.Scheme.ThresholdScheme.Sign(c.Share.PrivateShare(), msg); err == nil {
					partial = &pb.PartialBeaconPacket{Round: last.Round + 1, PreviousSignature: last.Signature, PartialSig: ps, Metadata: md}
				}
			}
		}
		add("/drand.Protocol/PartialBeacon", false, "partial", partial)
		if c := w.Chains[id]; c != nil && len(c.Shares) > 1 {
			// a valid partial of member 1 for the next round (rebuilt at send time: each one that is accepted completes a round)
			id := id
			mk := func(w *World) proto.Message {
				c := w.Chains[id]
				round, prev := uint64(1), c.Group.GenesisSeed
				ctx, cancel := context.WithTimeout(context.Background(), 10*time.Second)
				defer cancel()
				if last, err := w.Public.PublicRand(ctx, &pb.PublicRandRequest{Metadata: mdFor(id)}); err == nil && last.Round > 0 {
					round, prev = last.Round+1, last.Signature
				}
				ps, err := c.Scheme.ThresholdScheme.Sign(c.Shares[1].PrivateShare(), c.Scheme.DigestBeacon(&common.Beacon{Round: round, PreviousSig: prev}))
				if err != nil {
					ps = nil
				}
				return &pb.PartialBeaconPacket{Round: round, PreviousSignature: prev, PartialSig: ps, Metadata: mdFor(id)}
			}
			out = append(out, request{method: "/drand.Protocol/PartialBeacon", target: id, state: st, name: "member-partial", msg: mk(w), rebase: mk})
		}
		out = append(out, w.gossipBases(id)...)
		for i, b := range w.bundles(pick(id, w.terms)) {
			b = proto.Clone(b).(*pdkg.Packet)
			b.Metadata = mdFor(id)
			r := request{method: "/dkg.DKGPublic/BroadcastDKG", target: id, state: st, name: fmt.Sprintf("bundle-%d", i), msg: &pdkg.DKGPacket{Dkg: b}}
			r.resign = func(m proto.Message) bool {
				p := m.(*pdkg.DKGPacket)
				if p.Dkg == nil || p.Dkg.Bundle == nil {
					return false
				}
				return w.signBundle(p.Dkg)
			}
			out = append(out, r)
		}
	}
	out = append(out, request{method: "/drand.Public/ListBeaconIDs", target: "-", state: "daemon", name: "list", msg: &pb.ListBeaconIDsRequest{}})
	out = append(out, request{method: "/drand.Metrics/Metrics", target: "-", state: "daemon", name: "metrics", msg: &pb.MetricsRequest{}})
	return out
}

func AllIDs() []string {
	ids := allChainIDs()
	sort.Strings(ids)
	return append(ids, "nope")
}

var _ = os.Getenv

// DKGCtl is the DKG control client (operator side) of the daemon.
func (w *World) DKGCtl() pdkg.DKGControlClient { return w.dkgCtl }
