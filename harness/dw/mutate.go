//go:build conn_insecure

package dw

import (
	"bytes"
	"fmt"
	"math"
	"strings"

	"google.golang.org/protobuf/proto"
	"google.golang.org/protobuf/reflect/protoreflect"
)

// A variant is one request: the base message with exactly one field changed (or the base itself).
type variant struct {
	desc string
	msg  proto.Message
	mut  func(root proto.Message) // applies the same change to another instance of the base message (nil for the base)
}

type pstep struct {
	fd  protoreflect.FieldDescriptor
	idx int // element of a list, -1 for a singular field
}

func pathString(p []pstep) string {
	var sb strings.Builder
	for _, s := range p {
		sb.WriteString(string(s.fd.Name()))
		if s.idx >= 0 {
			fmt.Fprintf(&sb, "[%d]", s.idx)
		}
		sb.WriteByte('.')
	}
	return sb.String()
}

func navigate(m protoreflect.Message, path []pstep) protoreflect.Message {
	for _, s := range path {
		if s.idx >= 0 {
			m = m.Mutable(s.fd).List().Get(s.idx).Message()
		} else {
			m = m.Mutable(s.fd).Message()
		}
	}
	return m
}

type fvar struct {
	name  string
	apply func(m protoreflect.Message)
}

type MutCfg struct {
	IDs    []string          // beacon ids known to the daemon (plus unknown ones)
	Hashes map[string][]byte // chain hashes of the daemon's chains
	Big    int               // size of the oversize byte / string fields
	Many   int               // length of the long repeated fields
}

func (c MutCfg) scalarVariants(fd protoreflect.FieldDescriptor, cur protoreflect.Value, set func(m protoreflect.Message, v protoreflect.Value)) []fvar {
	var out []fvar
	add := func(name string, v protoreflect.Value) {
		out = append(out, fvar{name, func(m protoreflect.Message) { set(m, v) }})
	}
	switch fd.Kind() {
	case protoreflect.BytesKind:
		b := cur.Bytes()
		if strings.Contains(strings.ToLower(string(fd.Name())), "chain_hash") {
			for _, id := range c.IDs {
				if h := c.Hashes[id]; h != nil && !bytes.Equal(h, b) {
					add("hash-of:"+id, protoreflect.ValueOfBytes(h))
				}
			}
		}
		add("one-byte", protoreflect.ValueOfBytes([]byte{0}))
		add("32xff", protoreflect.ValueOfBytes(bytes.Repeat([]byte{0xff}, 32)))
		add("96x00", protoreflect.ValueOfBytes(make([]byte, 96)))
		add("big", protoreflect.ValueOfBytes(make([]byte, c.Big)))
		if len(b) > 1 {
			add("truncated", protoreflect.ValueOfBytes(append([]byte{}, b[:len(b)-1]...)))
			add("two-bytes", protoreflect.ValueOfBytes(append([]byte{}, b[:2]...)))
			add("extended", protoreflect.ValueOfBytes(append(append([]byte{}, b...), 0)))
			f := append([]byte{}, b...)
			f[len(f)/2] ^= 0x10
			add("bitflip", protoreflect.ValueOfBytes(f))
			h := append([]byte{}, b...)
			h[0] ^= 0x80
			h[1] ^= 0x01
			add("head-flip", protoreflect.ValueOfBytes(h))
		}
	case protoreflect.StringKind:
		add("unknown", protoreflect.ValueOfString("nope"))
		add("big", protoreflect.ValueOfString(strings.Repeat("a", c.Big/16)))
		add("odd", protoreflect.ValueOfString("[::1/\x01 %zz"))
		add("odd-host", protoreflect.ValueOfString("h%zz.example.org:4444")) // host:port syntax, not a host name
		if strings.Contains(strings.ToLower(string(fd.Name())), "beaconid") {
			for _, id := range c.IDs {
				if id != cur.String() {
					add("id:"+id, protoreflect.ValueOfString(id))
				}
			}
		}
	case protoreflect.Uint64Kind, protoreflect.Fixed64Kind:
		for _, v := range []uint64{0, 1, cur.Uint() + 1, cur.Uint() + 2, cur.Uint() + 1000, math.MaxInt64, math.MaxUint64} {
			if v != cur.Uint() {
				add(fmt.Sprint(v), protoreflect.ValueOfUint64(v))
			}
		}
	case protoreflect.Uint32Kind, protoreflect.Fixed32Kind:
		for _, v := range []uint32{0, 1, uint32(cur.Uint()) + 1, 1000, math.MaxInt32, math.MaxUint32} {
			if uint64(v) != cur.Uint() {
				add(fmt.Sprint(v), protoreflect.ValueOfUint32(v))
			}
		}
	case protoreflect.Int64Kind, protoreflect.Sint64Kind, protoreflect.Sfixed64Kind:
		for _, v := range []int64{0, -1, 1, cur.Int() + 1, math.MinInt64, math.MaxInt64, 253402300800 /* year 10000 */} {
			if v != cur.Int() {
				add(fmt.Sprint(v), protoreflect.ValueOfInt64(v))
			}
		}
	case protoreflect.Int32Kind, protoreflect.Sint32Kind, protoreflect.Sfixed32Kind:
		for _, v := range []int32{0, -1, 1, math.MinInt32, math.MaxInt32} {
			if int64(v) != cur.Int() {
				add(fmt.Sprint(v), protoreflect.ValueOfInt32(v))
			}
		}
	case protoreflect.BoolKind:
		add(fmt.Sprint(!cur.Bool()), protoreflect.ValueOfBool(!cur.Bool()))
	case protoreflect.EnumKind:
		add("enum-99", protoreflect.ValueOfEnum(99))
	}
	return out
}

func (c MutCfg) fieldVariants(fd protoreflect.FieldDescriptor, m protoreflect.Message) []fvar {
	var out []fvar
	switch {
	case fd.IsMap():
		return nil
	case fd.IsList():
		l := m.Get(fd).List()
		out = append(out, fvar{"empty-list", func(mm protoreflect.Message) { mm.Clear(fd) }})
		if fd.Kind() == protoreflect.MessageKind {
			out = append(out, fvar{"one-empty-element", func(mm protoreflect.Message) {
				mm.Clear(fd)
				ll := mm.Mutable(fd).List()
				ll.Append(ll.NewElement())
			}})
			if l.Len() > 0 {
				out = append(out, fvar{"duplicated", func(mm protoreflect.Message) {
					ll := mm.Mutable(fd).List()
					n := ll.Len()
					for i := 0; i < n; i++ {
						ll.Append(protoreflect.ValueOfMessage(proto.Clone(ll.Get(i).Message().Interface()).ProtoReflect()))
					}
				}})
				out = append(out, fvar{"many", func(mm protoreflect.Message) {
					ll := mm.Mutable(fd).List()
					first := ll.Get(0).Message().Interface()
					for i := 0; i < c.Many; i++ {
						ll.Append(protoreflect.ValueOfMessage(proto.Clone(first).ProtoReflect()))
					}
				}})
				out = append(out, fvar{"first-dropped", func(mm protoreflect.Message) {
					ll := mm.Mutable(fd).List()
					var keep []protoreflect.Value
					for i := 1; i < ll.Len(); i++ {
						keep = append(keep, ll.Get(i))
					}
					mm.Clear(fd)
					ll = mm.Mutable(fd).List()
					for _, v := range keep {
						ll.Append(v)
					}
				}})
			}
		} else {
			out = append(out, fvar{"one-zero-element", func(mm protoreflect.Message) {
				mm.Clear(fd)
				ll := mm.Mutable(fd).List()
				ll.Append(ll.NewElement())
			}})
			if l.Len() > 0 {
				// element variants of the first element
				for _, sv := range c.scalarVariants(fd, l.Get(0), func(mm protoreflect.Message, v protoreflect.Value) { mm.Mutable(fd).List().Set(0, v) }) {
					out = append(out, fvar{"[0]=" + sv.name, sv.apply})
				}
				out = append(out, fvar{"many", func(mm protoreflect.Message) {
					ll := mm.Mutable(fd).List()
					first := ll.Get(0)
					for i := 0; i < c.Many; i++ {
						ll.Append(first)
					}
				}})
				out = append(out, fvar{"last-dropped", func(mm protoreflect.Message) { ll := mm.Mutable(fd).List(); ll.Truncate(ll.Len() - 1) }})
			}
		}
	case fd.Kind() == protoreflect.MessageKind || fd.Kind() == protoreflect.GroupKind:
		if m.Has(fd) {
			out = append(out, fvar{"absent", func(mm protoreflect.Message) { mm.Clear(fd) }})
		}
		out = append(out, fvar{"empty-message", func(mm protoreflect.Message) { mm.Set(fd, protoreflect.ValueOfMessage(mm.NewField(fd).Message())) }})
	default:
		if m.Has(fd) || fd.HasPresence() {
			out = append(out, fvar{"absent", func(mm protoreflect.Message) { mm.Clear(fd) }})
		}
		out = append(out, c.scalarVariants(fd, m.Get(fd), func(mm protoreflect.Message, v protoreflect.Value) { mm.Set(fd, v) })...)
	}
	return out
}

// variants enumerates the base message and every single-field change of it, recursively through the nested
// messages that are present (first element of repeated messages).
func (c MutCfg) variants(root proto.Message) []variant {
	out := []variant{{desc: "base", msg: proto.Clone(root)}}
	var rec func(path []pstep, m protoreflect.Message)
	rec = func(path []pstep, m protoreflect.Message) {
		fields := m.Descriptor().Fields()
		for i := 0; i < fields.Len(); i++ {
			fd := fields.Get(i)
			for _, v := range c.fieldVariants(fd, m) {
				cl := proto.Clone(root)
				v.apply(navigate(cl.ProtoReflect(), path))
				pp, vv := append([]pstep{}, path...), v
				out = append(out, variant{pathString(path) + string(fd.Name()) + "=" + v.name, cl, func(r proto.Message) { vv.apply(navigate(r.ProtoReflect(), pp)) }})
			}
			if fd.Kind() != protoreflect.MessageKind || fd.IsMap() {
				continue
			}
			if fd.IsList() {
				if m.Get(fd).List().Len() > 0 {
					rec(append(append([]pstep{}, path...), pstep{fd, 0}), m.Get(fd).List().Get(0).Message())
				}
			} else if m.Has(fd) {
				rec(append(append([]pstep{}, path...), pstep{fd, -1}), m.Get(fd).Message())
			}
		}
	}
	rec(nil, root.ProtoReflect())
	return out
}
