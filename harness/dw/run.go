//go:build conn_insecure

// Package dw ("daemon world") runs a real drand daemon in a child process with chains in every node state, generates
// the request alphabet from the protobuf descriptors, sends requests over loopback gRPC/HTTP and probes the daemon.
// Shared by the C14 (robustness) and C15 (secrecy) checks.
package dw

import (
	"bytes"
	"context"
	"encoding/hex"
	"fmt"
	"io"
	"net/http"
	"os"
	"strings"
	"time"

	"google.golang.org/grpc"
	"google.golang.org/grpc/codes"
	"google.golang.org/grpc/status"
	"google.golang.org/protobuf/encoding/protojson"
	"google.golang.org/protobuf/proto"
	"google.golang.org/protobuf/types/known/emptypb"

	"github.com/drand/drand/v2/common"
	pdkg "github.com/drand/drand/v2/protobuf/dkg"
	pb "github.com/drand/drand/v2/protobuf/drand"
)

const (
	CallDeadline    = 20 * time.Second
	ConfirmDeadline = 90 * time.Second
	ProbeDeadline   = 30 * time.Second
)

type Outcome struct {
	Class    string `json:"class"` // ok | <grpc code> | open (stream waiting) | timeout
	Err      string `json:"error,omitempty"`
	Ms       int64  `json:"ms"`
	TimedOut bool   `json:"timed_out,omitempty"`
	// Body is everything the daemon sent back: the response message bytes (first item of a stream), the HTTP body,
	// and the complete error text
	Body []byte `json:"-"`
}

// body keeps the raw bytes of an answer (the reply is decoded as an empty message, which preserves every field as
// unknown field bytes) and the full error text.
func body(resp proto.Message, err error) []byte {
	b, _ := proto.Marshal(resp)
	if err != nil {
		b = append(b, []byte(err.Error())...)
	}
	return b
}

func classify(err error) (string, string) {
	if err == nil {
		return "ok", ""
	}
	if err == io.EOF {
		return "eof", ""
	}
	st, _ := status.FromError(err)
	msg := st.Message()
	if len(msg) > 160 {
		msg = msg[:160]
	}
	return st.Code().String(), msg
}

func (w *World) call(r request, m proto.Message, deadline time.Duration) Outcome {
	t0 := time.Now()
	ctx, cancel := context.WithTimeout(context.Background(), deadline)
	defer cancel()
	var o Outcome
	if !r.stream {
		resp := &emptypb.Empty{}
		err := w.Conn.Invoke(ctx, r.method, m, resp)
		o.Class, o.Err = classify(err)
		o.Body = body(resp, err)
		o.TimedOut = status.Code(err) == codes.DeadlineExceeded
	} else {
		// a stream: send the request, wait (a little more than two periods) for the first Item or the end
		sctx, scancel := context.WithTimeout(ctx, 2500*time.Millisecond)
		defer scancel()
		st, err := w.Conn.NewStream(sctx, &grpc.StreamDesc{ServerStreams: true}, r.method)
		if err == nil {
			if err = st.SendMsg(m); err == nil {
				_ = st.CloseSend()
				resp := &emptypb.Empty{}
				err = st.RecvMsg(resp)
				o.Body = body(resp, err)
			}
		}
		o.Class, o.Err = classify(err)
		if status.Code(err) == codes.DeadlineExceeded {
			o.Class, o.Err = "open", "" // a stream with nothing to deliver yet stays open: legitimate
		}
	}
	o.Ms = time.Since(t0).Milliseconds()
	return o
}

func (w *World) httpCall(method, path string, deadline time.Duration) Outcome {
	t0 := time.Now()
	ctx, cancel := context.WithTimeout(context.Background(), deadline)
	defer cancel()
	var o Outcome
	req, err := http.NewRequestWithContext(ctx, method, "http://"+w.PubAddr+path, nil)
	if err != nil {
		return Outcome{Class: "client-refused", Err: err.Error()}
	}
	resp, err := (&http.Client{}).Do(req)
	if err != nil {
		o.Class, o.Err = "transport-error", err.Error()
		o.TimedOut = ctx.Err() != nil
	} else {
		o.Body, _ = io.ReadAll(resp.Body)
		for k, v := range resp.Header {
			o.Body = append(o.Body, []byte(fmt.Sprintf("\n%s: %s", k, strings.Join(v, ",")))...)
		}
		_ = resp.Body.Close()
		o.Class = fmt.Sprint(resp.StatusCode)
	}
	o.Ms = time.Since(t0).Milliseconds()
	return o
}

// probe sends valid requests to every endpoint, one through each internal lock; it returns the probes that failed.
func (w *World) Probe() []string {
	var bad []string
	fail := func(name string, err error) { bad = append(bad, fmt.Sprintf("%s: %v", name, err)) }
	ctx, cancel := context.WithTimeout(context.Background(), ProbeDeadline)
	defer cancel()
	for _, id := range []string{"default", "run2"} {
		c := w.Chains[id]
		r, err := w.Public.PublicRand(ctx, &pb.PublicRandRequest{Metadata: mdFor(id)})
		if err != nil {
			fail("rand/"+id, err)
			continue
		}
		b := &common.Beacon{Round: r.Round, Signature: r.Signature, PreviousSig: r.PreviousSignature}
		if err := c.Scheme.VerifyBeacon(b, c.PubKey); err != nil {
			fail("rand/"+id, fmt.Errorf("latest beacon does not verify: %w", err))
		}
		// the service loop: the head keeps advancing (period 1 s; generous allowance for a loaded machine)
		if r.Round > w.lastHead[id] {
			w.lastHead[id], w.lastHeadAt[id] = r.Round, time.Now()
		} else if time.Since(w.lastHeadAt[id]) > 45*time.Second {
			fail("production/"+id, fmt.Errorf("head stuck at round %d for %s", r.Round, time.Since(w.lastHeadAt[id]).Round(time.Second)))
		}
	}
	if info, err := w.Public.ChainInfo(ctx, &pb.ChainInfoRequest{Metadata: mdFor("run2")}); err != nil {
		fail("info/run2", err)
	} else if !bytes.Equal(info.Hash, w.Chains["run2"].Hash) {
		fail("info/run2", fmt.Errorf("wrong chain hash"))
	}
	if _, err := w.Protocol.GetIdentity(ctx, &pb.IdentityRequest{Metadata: mdFor("default")}); err != nil {
		fail("identity/default", err)
	}
	if _, err := w.Protocol.GetIdentity(ctx, &pb.IdentityRequest{Metadata: mdFor("fresh1")}); err != nil {
		fail("identity/fresh1", err)
	}
	sctx, scancel := context.WithTimeout(ctx, ProbeDeadline)
	if st, err := w.Protocol.SyncChain(sctx, &pb.SyncRequest{FromRound: 1, Metadata: mdFor("default")}); err != nil {
		fail("sync/default", err)
	} else if p, err := st.Recv(); err != nil || p.Round != 1 {
		fail("sync/default", fmt.Errorf("first packet: %v %v", p.GetRound(), err))
	}
	scancel()
	if _, err := w.Protocol.PartialBeacon(ctx, &pb.PartialBeaconPacket{Round: 1, PartialSig: make([]byte, 98), PreviousSignature: make([]byte, 96), Metadata: mdFor("default")}); status.Code(err) == codes.DeadlineExceeded || status.Code(err) == codes.Unavailable {
		fail("partial/default", err)
	}
	// through the DKG process lock: an abort of somebody who is not the leader (refused, but only after the lock was taken)
	for _, id := range []string{"mid1", "mid3"} {
		pkt := &pdkg.GossipPacket{Packet: &pdkg.GossipPacket_Abort{Abort: &pdkg.AbortDKG{Reason: "probe"}}}
		w.sign(w.g2.kp, id, pkt, w.terms[id], w.g2.part)
		if _, err := w.DKG.Packet(ctx, pkt); status.Code(err) == codes.DeadlineExceeded || status.Code(err) == codes.Unavailable {
			fail("dkg-packet/"+id, fmt.Errorf("probe abort by a non-leader: %v", err))
		}
	}
	// through the broadcast board lock of the running DKG: a bundle with a wrong signature
	bd := proto.Clone(w.probeBundle).(*pdkg.Packet)
	if _, err := w.DKG.BroadcastDKG(ctx, &pdkg.DKGPacket{Dkg: bd}); status.Code(err) == codes.DeadlineExceeded || status.Code(err) == codes.Unavailable {
		// (no error is legitimate too: the board answers a bundle whose hash it has already seen before looking at the signature)
		fail("dkg-broadcast/mid2", fmt.Errorf("probe bundle with a wrong signature: %v", err))
	}
	for _, p := range []string{"/chains", "/" + hex.EncodeToString(w.Chains["default"].Hash) + "/public/latest", "/" + hex.EncodeToString(w.Chains["run2"].Hash) + "/info", "/public/1"} {
		if o := w.httpCall("GET", p, ProbeDeadline); o.Class != "200" {
			fail("http"+p[:min(len(p), 12)], fmt.Errorf("%s %s", o.Class, o.Err))
		}
	}
	if err := w.Ctrl.Ping(); err != nil {
		fail("control/ping", err)
	}
	return bad
}

// stateChanged compares the DKG status of every DKG chain with the one recorded after set-up.
func (w *World) StateChanged() string {
	for _, id := range dkgChains {
		if s := w.DKGStatus(id); s != w.status0[id] {
			return fmt.Sprintf("%s: %s -> %s", id, w.status0[id], s)
		}
	}
	return ""
}

type Item struct {
	Kind   string `json:"kind"` // grpc | http
	Method string `json:"method"`
	Stream bool   `json:"stream,omitempty"`
	State  string `json:"node_state"`
	Target string `json:"target"`
	Base   string `json:"base"`
	Desc   string `json:"variant"`
	Signed string `json:"signed,omitempty"` // stale | resigned
	JSON   string `json:"request_json,omitempty"`
	Hex    string `json:"request_hex,omitempty"`
	msg    proto.Message
	mut    func(proto.Message)
	req    request
}

func (it Item) ID() string {
	s := it.Method + "/" + it.State + "/" + it.Base + "/" + it.Desc
	if it.Signed != "" {
		s += "/" + it.Signed
	}
	return s
}

func (w *World) Do(it Item, deadline time.Duration) Outcome {
	if it.Kind == "http" {
		return w.httpCall(it.Method, it.Desc, deadline)
	}
	m := it.msg
	if it.req.rebase != nil {
		m = it.req.rebase(w)
		if it.mut != nil {
			it.mut(m)
		}
	}
	return w.call(it.req, m, deadline)
}

// alphabet builds the requests; it needs a world because signatures and rounds are those of the running daemon's chains
// (key material is deterministic, so every world yields the same alphabet up to timestamps).
func Alphabet(w *World, cfg MutCfg, targets []string) []Item {
	var out []Item
	for _, r := range w.bases(targets) {
		vs := cfg.variants(r.msg)
		if r.baseOnly {
			vs = vs[:1]
		}
		for _, v := range vs {
			it := Item{Kind: "grpc", Method: r.method, Stream: r.stream, State: r.state, Target: r.target, Base: r.name, Desc: v.desc, msg: v.msg, mut: v.mut, req: r}
			if r.resign == nil {
				out = append(out, it)
				continue
			}
			it.Signed = "stale"
			if v.desc == "base" {
				it.Signed = "valid"
			}
			out = append(out, it)
			if v.desc != "base" && !strings.Contains(v.desc, "ignature") {
				cl := proto.Clone(v.msg)
				if r.resign(cl) {
					it2 := it
					it2.Signed, it2.msg = "resigned", cl
					out = append(out, it2)
				}
			}
		}
	}
	return out
}

func HTTPAlphabet(w *World) []Item {
	var out []Item
	hashes := []string{hex.EncodeToString(w.Chains["default"].Hash), hex.EncodeToString(w.Chains["run2"].Hash), hex.EncodeToString(w.Chains["stopped1"].Hash),
		strings.Repeat("00", 32), "zz", "0", strings.Repeat("ab", 4096), "%00", "..", "public"}
	h := w.head("default")
	rounds := []string{"0", "1", fmt.Sprint(h), fmt.Sprint(h + 1), fmt.Sprint(h + 2), fmt.Sprint(h + 1000), "18446744073709551615", "18446744073709551616", "-1", "abc", "1e3", "0x10", "01",
		strings.Repeat("9", 400), "latest", "", "%20", "1/2"}
	var paths []string
	for _, r := range rounds {
		paths = append(paths, "/public/"+r)
	}
	paths = append(paths, "/info", "/health", "/chains", "/", "", "/nope", "/public", "/public/", "//public//latest", "/info/", "/chains/x", "/%", "/public/latest?x="+strings.Repeat("y", 5000))
	for _, hs := range hashes {
		for _, r := range rounds {
			paths = append(paths, "/"+hs+"/public/"+r)
		}
		paths = append(paths, "/"+hs+"/info", "/"+hs+"/health", "/"+hs, "/"+hs+"/", "/"+hs+"/nope")
	}
	for _, m := range []string{"GET", "HEAD", "POST", "PUT", "DELETE", "OPTIONS", "PATCH"} {
		for _, p := range paths {
			if m != "GET" && strings.Count(p, "/") > 2 && !strings.HasPrefix(p, "/"+hashes[0]) {
				continue // other methods: default paths and one hash
			}
			out = append(out, Item{Kind: "http", Method: m, State: "daemon", Target: "-", Base: "http", Desc: p})
		}
	}
	return out
}

func (w *World) ChainHashes() map[string][]byte {
	m := map[string][]byte{}
	for id, c := range w.Chains {
		if c.Hash != nil {
			m[id] = c.Hash
		}
	}
	return m
}

func (it *Item) Fill() {
	if it.msg != nil {
		b, _ := protojson.Marshal(it.msg)
		if len(b) > 1500 {
			b = append(b[:1500], []byte("...")...)
		}
		it.JSON = string(b)
		raw, _ := proto.Marshal(it.msg)
		if len(raw) <= 8192 {
			it.Hex = hex.EncodeToString(raw)
		}
	}
}

func (w *World) StderrTail() string {
	b, err := os.ReadFile(w.Spec.Dir + "/stderr.log")
	if err != nil {
		return ""
	}
	s := string(b)
	if i := strings.Index(s, "panic:"); i >= 0 {
		s = s[i:]
	} else if i := strings.Index(s, "fatal error:"); i >= 0 {
		s = s[i:]
	}
	if len(s) > 1200 {
		s = s[:1200]
	}
	return s
}

// RawItem rebuilds a request from its recorded bytes (replay of a request that is not in the current alphabet).
func RawItem(it Item, raw []byte) (Item, error) {
	it.msg = ReqType(it.Method)
	if it.msg == nil || len(raw) == 0 {
		return it, fmt.Errorf("the request is not in this run's alphabet and its bytes were too large to keep")
	}
	if err := proto.Unmarshal(raw, it.msg); err != nil {
		return it, err
	}
	it.req = request{method: it.Method, stream: it.Stream}
	return it, nil
}
