//go:build verif

package dkg

import (
	drand "github.com/drand/drand/v2/protobuf/dkg"
)

// Accessors used by /verif harnesses (overlaid at build time, never committed to the repository).

// VerifMessageForSigning exposes the real signing pre-image so that the harness can sign packets with keys of
// its choosing.
func VerifMessageForSigning(beaconID string, packet *drand.GossipPacket, proposal *drand.ProposalTerms) []byte {
	return messageForSigning(beaconID, packet, proposal)
}

// VerifTermsFromState is the terms reconstruction used when verifying a packet against a stored state.
func VerifTermsFromState(s *DBState) *drand.ProposalTerms { return termsFromState(s) }
