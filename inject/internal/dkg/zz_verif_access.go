//go:build verif

package dkg

import (
	"github.com/drand/drand/v2/crypto"
	drand "github.com/drand/drand/v2/protobuf/dkg"
)

// Accessors used by /verif harnesses (overlaid at build time, never committed to the repository).

// VerifMessageForSigning exposes the real signing pre-image so that the harness can sign packets with keys of
// its choosing.
func VerifMessageForSigning(beaconID string, packet *drand.GossipPacket, proposal *drand.ProposalTerms) []byte {
	return messageForSigning(beaconID, packet, proposal)
}

// VerifTermsFromState is the terms reconstruction used when verifying a packet against a stored state.
func VerifTermsFromState(s *DBState) *drand.ProposalTerms { return termsFromState(s) }

// VerifBundleHash converts a wire bundle with the real conversion routine and returns the hash the protocol signs.
func VerifBundleHash(p *drand.Packet, sch *crypto.Scheme) ([]byte, error) {
	k, err := protoToDKGPacket(p, sch)
	if err != nil {
		return nil, err
	}
	return k.Hash(), nil
}

// VerifNonce is the session id of an epoch.
func VerifNonce(epoch uint32) []byte { return nonceFor(&DBState{Epoch: epoch}) }
