//go:build verif

package beacon

import (
	"context"

	"github.com/drand/drand/v2/internal/chain"
)

// Accessors used by /verif harnesses (overlaid at build time, never committed to the repository).

func VerifNewAppendStore(ctx context.Context, s chain.Store) (chain.Store, error) {
	return newAppendStore(ctx, s)
}
