//go:build verif

package beacon

import (
	"context"
	"sort"

	clock "github.com/jonboulle/clockwork"

	"github.com/drand/drand/v2/common/key"
	"github.com/drand/drand/v2/common/log"
	"github.com/drand/drand/v2/crypto"
	"github.com/drand/drand/v2/internal/chain"
	"github.com/drand/drand/v2/protobuf/drand"
	"github.com/drand/kyber/sign"
)

// Accessors used by /verif harnesses (overlaid at build time, never committed to the repository).

func VerifNewAppendStore(ctx context.Context, s chain.Store) (chain.Store, error) {
	return newAppendStore(ctx, s)
}

// VerifPartialCache exposes the real partial-signature cache of the aggregator.
type VerifPartialCache struct{ c *partialCache }

func VerifNewPartialCache(l log.Logger, s *crypto.Scheme) *VerifPartialCache {
	return &VerifPartialCache{newPartialCache(l, s)}
}
func (v *VerifPartialCache) Append(p *drand.PartialBeaconPacket) error { return v.c.Append(p) }
func (v *VerifPartialCache) Flush(round uint64)                         { v.c.FlushRounds(round) }

// Rounds returns, per cached (round, previous) entry, the signer indices present.
func (v *VerifPartialCache) Rounds() map[string][]int {
	out := map[string][]int{}
	for id, rc := range v.c.rounds {
		l := []int{}
		for idx := range rc.sigs {
			l = append(l, idx)
		}
		sort.Ints(l)
		out[id] = l
	}
	return out
}

// Rcvd returns the per-signer bookkeeping lists.
func (v *VerifPartialCache) Rcvd() map[int][]string {
	out := map[int][]string{}
	for k, l := range v.c.rcvd {
		out[k] = append([]string{}, l...)
	}
	return out
}
func VerifRoundID(round uint64, prev []byte) string { return roundID(round, prev) }
func VerifMaxPartialsPerNode() int                  { return MaxPartialsPerNode }
func VerifCallbackWorkerQueue() int                 { return CallbackWorkerQueue }

// VerifStopMonitor stops the native helper goroutine of the handler's threshold monitor.
func VerifStopMonitor(h *Handler) { h.thresholdMonitor.Stop() }

// VerifVaultGroup returns the live group of the handler's vault.
func VerifVaultGroup(h *Handler) *key.Group { return h.crypto.GetGroup() }

// VerifSyncManager builds the handler's sync manager pieces for direct driving.
func VerifHandlerSyncManager(h *Handler) *SyncManager { return h.chain.syncm }

// VerifSetSyncThresholdScheme replaces the threshold-signature implementation used by the handler's sync
// manager (the harness passes a memoising decorator of the very same implementation; the scheme's digest
// function and VerifyBeacon remain the repository's).
func VerifSetSyncThresholdScheme(h *Handler, ts sign.ThresholdScheme) { h.chain.syncm.scheme.ThresholdScheme = ts }

// VerifSetSyncManagerThresholdScheme: see VerifSetSyncThresholdScheme.
func VerifSetSyncManagerThresholdScheme(s *SyncManager, ts sign.ThresholdScheme) { s.scheme.ThresholdScheme = ts }

// VerifNewDiscrepancyStore is the bottom layer of the handler's store stack (newChainStore builds
// callback -> append -> scheme -> discrepancy -> database).
func VerifNewDiscrepancyStore(s chain.Store, l log.Logger, group *key.Group, cl clock.Clock) chain.Store {
	return newDiscrepancyStore(s, l, group, cl)
}
