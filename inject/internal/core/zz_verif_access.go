//go:build verif

package core

import (
	"context"

	clock "github.com/jonboulle/clockwork"

	"github.com/drand/drand/v2/common"
	"github.com/drand/drand/v2/common/key"
	"github.com/drand/drand/v2/common/log"
	"github.com/drand/drand/v2/internal/chain/beacon"
	"github.com/drand/drand/v2/internal/dkg"
)

// Accessors used by /verif harnesses (overlaid at build time, never committed to the repository).

// VerifSetClock gives the configuration the harness' clock and a no-op DKG callback.
func VerifSetClock(c *Config, clk clock.Clock) {
	c.clock = clk
	c.dkgCallback = func(context.Context, *key.Group) {}
}

// VerifSetHandler attaches a beacon handler built by the harness (what StartBeacon does after loading).
func (bp *BeaconProcess) VerifSetHandler(h *beacon.Handler) { bp.beacon = h }

// VerifOnDKGCompleted is the entry point the DKG layer's output reaches.
func (bp *BeaconProcess) VerifOnDKGCompleted(ctx context.Context, out *dkg.SharingOutput) error {
	return bp.onDKGCompleted(ctx, out)
}

func (bp *BeaconProcess) VerifGroup() *key.Group { return bp.group }
func (bp *BeaconProcess) VerifShare() *key.Share { return bp.share }
func (bp *BeaconProcess) VerifChainHash() []byte  { return bp.getChainHash() }

// VerifServingProcess is a BeaconProcess that only serves (public endpoints) on top of a handler built by the harness.
func VerifServingProcess(beaconID string, chainHash []byte, group *key.Group, h *beacon.Handler, l log.Logger) *BeaconProcess {
	return &BeaconProcess{beaconID: beaconID, chainHash: chainHash, group: group, version: common.GetAppVersion(), log: l, beacon: h}
}
