// Package vcrash is the crash-point runtime of engine E3: the instrumenter inserts vcrash.Point(label) before every
// persistence operation (file create/open/remove/chmod/mkdir/rename, bolt Open/Update) of the instrumented packages
// and routes file-backed TOML encoders through vcrash.W. A process started with VERIF_CRASH_AT="<label>#<n>" kills
// itself (SIGKILL: no deferred function, no flush, every thread gone) when it reaches the n-th execution of that
// point after it was armed; "<label>:torn#<n>" kills it after half of the n-th write through that writer has
// reached the file. Every point reached is appended to VERIF_CRASH_LOG.
//
// Crashing before operation k+1 leaves the same files as crashing after operation k, so "before every operation,
// plus torn writes, plus the end of the run" covers before / after / in the middle of each operation.
package vcrash

import (
	"fmt"
	"io"
	"os"
	"strconv"
	"strings"
	"sync"
	"syscall"
	"time"
)

var (
	mu      sync.Mutex
	counts  = map[string]int{}
	atLabel string
	atOcc   int
	armFile = os.Getenv("VERIF_CRASH_ARM")
	// pause mode (used to interleave requests with a state transition): VERIF_PAUSE_AT="<label>#<n>" makes the process
	// sleep VERIF_PAUSE_MS milliseconds at that point, after creating the file VERIF_PAUSE_FLAG
	pauseLabel string
	pauseOcc   int
	pauseMs    int
	pauseFlag  = os.Getenv("VERIF_PAUSE_FLAG")
	pauseCnt   = map[string]int{}
	logFile *os.File
	armed   bool
)

func init() {
	if s := os.Getenv("VERIF_CRASH_AT"); s != "" {
		if i := strings.LastIndex(s, "#"); i > 0 {
			atLabel = s[:i]
			atOcc, _ = strconv.Atoi(s[i+1:])
		}
	}
	if s := os.Getenv("VERIF_PAUSE_AT"); s != "" {
		if i := strings.LastIndex(s, "#"); i > 0 {
			pauseLabel = s[:i]
			pauseOcc, _ = strconv.Atoi(s[i+1:])
			pauseMs, _ = strconv.Atoi(os.Getenv("VERIF_PAUSE_MS"))
		}
	}
	if p := os.Getenv("VERIF_CRASH_LOG"); p != "" {
		logFile, _ = os.OpenFile(p, os.O_CREATE|os.O_WRONLY|os.O_APPEND, 0o644)
	}
}

func isArmed() bool {
	if armed || armFile == "" {
		return true
	}
	if _, err := os.Stat(armFile); err == nil {
		armed = true
	}
	return armed
}

// hit counts one execution of a point and reports whether the process has to die here.
func hit(label string) bool {
	if logFile == nil && atLabel == "" {
		return false
	}
	mu.Lock()
	defer mu.Unlock()
	if !isArmed() {
		return false
	}
	counts[label]++
	n := counts[label]
	die := label == atLabel && n == atOcc
	if logFile != nil {
		mark := ""
		if die {
			mark = " CRASH"
		}
		fmt.Fprintf(logFile, "%s#%d%s\n", label, n, mark)
	}
	return die
}

func die() {
	_ = syscall.Kill(os.Getpid(), syscall.SIGKILL)
	select {}
}

// Point is a crash point before a persistence operation.
func Point(label string) {
	if pauseLabel != "" && label == pauseLabel {
		mu.Lock()
		pauseCnt[label]++
		now := pauseCnt[label] == pauseOcc
		mu.Unlock()
		if now {
			if pauseFlag != "" {
				_ = os.WriteFile(pauseFlag, []byte(label), 0o644)
			}
			time.Sleep(time.Duration(pauseMs) * time.Millisecond)
		}
	}
	if hit(label) {
		die()
	}
}

type writer struct {
	f     *os.File
	label string
}

// W wraps a file that is about to receive encoded content: every Write is a crash point, and a torn write (half of
// the bytes reach the file) is another.
func W(f *os.File, label string) io.Writer { return &writer{f, label} }

func (w *writer) Write(p []byte) (int, error) {
	Point(w.label + ":write")
	if hit(w.label + ":torn") {
		_, _ = w.f.Write(p[:len(p)/2])
		die()
	}
	return w.f.Write(p)
}
