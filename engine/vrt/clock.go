package vrt

import (
	"time"

	"github.com/jonboulle/clockwork"
)

// Clock is a clockwork.Clock bound to the run of the calling thread, with a per-node offset (skew).
// Outside a run Now() is Epoch+Offset and timers are real.
type Clock struct{ Offset time.Duration }

var _ clockwork.Clock = (*Clock)(nil)

func (c *Clock) Now() time.Time {
	s := Current()
	if s == nil {
		return Epoch.Add(c.Offset)
	}
	return s.now.Add(c.Offset)
}
func (c *Clock) Since(t time.Time) time.Duration { return c.Now().Sub(t) }
func (c *Clock) Until(t time.Time) time.Duration { return t.Sub(c.Now()) }

func (c *Clock) After(d time.Duration) <-chan time.Time {
	s, _ := active()
	if s == nil {
		return time.After(d)
	}
	t := &vtimer{off: c.Offset, at: s.now.Add(d), ch: make(chan time.Time, 1)}
	s.addTimer(t)
	return t.ch
}

func (c *Clock) Sleep(d time.Duration) {
	if d <= 0 {
		Yield()
		return
	}
	s, t := active()
	if s == nil {
		if killedOp(t) {
			return
		}
		time.Sleep(d)
		return
	}
	Recv(c.After(d))
}

type vTicker struct {
	s *Sched
	t *vtimer
}

func (v *vTicker) Chan() <-chan time.Time { return v.t.ch }
func (v *vTicker) Reset(d time.Duration)  { v.t.period = d; v.t.at = v.s.now.Add(d) }
func (v *vTicker) Stop()                  { v.t.dead = true }

func (c *Clock) NewTicker(d time.Duration) clockwork.Ticker {
	s, _ := active()
	if s == nil {
		return clockwork.NewRealClock().NewTicker(d)
	}
	t := &vtimer{off: c.Offset, at: s.now.Add(d), ch: make(chan time.Time, 1), period: d}
	s.addTimer(t)
	return &vTicker{s, t}
}

type vTimer struct {
	s *Sched
	t *vtimer
}

func (v *vTimer) Chan() <-chan time.Time { return v.t.ch }
func (v *vTimer) Reset(d time.Duration) bool {
	was := !v.t.dead
	v.t.dead = false
	v.t.at = v.s.now.Add(d)
	if !was {
		v.s.addTimer(v.t)
	}
	return was
}
func (v *vTimer) Stop() bool { was := !v.t.dead; v.t.dead = true; return was }

func (c *Clock) NewTimer(d time.Duration) clockwork.Timer {
	s, _ := active()
	if s == nil {
		return clockwork.NewRealClock().NewTimer(d)
	}
	t := &vtimer{off: c.Offset, at: s.now.Add(d), ch: make(chan time.Time, 1)}
	s.addTimer(t)
	return &vTimer{s, t}
}

func (c *Clock) AfterFunc(d time.Duration, f func()) clockwork.Timer {
	s, _ := active()
	if s == nil {
		return clockwork.NewRealClock().AfterFunc(d, f)
	}
	t := &vtimer{at: s.now.Add(d), fn: f}
	s.addTimer(t)
	return &vTimer{s, t}
}
