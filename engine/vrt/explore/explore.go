// Package explore is the stateless search driver of engine E1: it enumerates every execution of a harness
// whose schedule/environment choices differ from the default policy in at most Bound places (delay-bounded
// exploration, uniform cost), level by level (0 deviations, then 1, then 2, ...), or — with Bound < 0 —
// every execution of a finite choice tree (saturation), depth first.
package explore

import (
	"fmt"
	"sort"
	"sync"
	"sync/atomic"
	"time"

	vrt "verif.local/vrt"
)

type Violation struct {
	Fingerprint string `json:"fingerprint"`
	Detail      string `json:"detail"`
}

// Exec is what a harness returns for one execution.
type Exec struct {
	S          *vrt.Sched
	Outcome    string
	Violations []Violation
	// Tags are counted over all executions (Stats.Tags): used for existential oracles ("some execution of
	// scenario X reached the target").
	Tags []string
}

type RunFunc func(devs []vrt.Dev) *Exec

type Config struct {
	Bound    int // maximal number of deviations; <0: unbounded
	Workers  int
	MaxExecs int64
	Deadline time.Time
	// Shard i of NShards (NShards>1): the root execution is run by every shard, its children are dealt round
	// robin; only shard 0 accounts for the root.
	Shard, NShards int
}

type Found struct {
	Devs      []vrt.Dev
	Violation Violation
	Outcome   string
}

type Stats struct {
	Execs          int64
	Steps          int64 // scheduler steps over all executions (transitions)
	Nodes          int64 // choice-tree nodes created (= executions) plus choice points first visited
	ChoicePoints   int64 // choice points visited beyond the replayed prefix, over all executions
	MaxTrace       int
	ExecsByCost    []int64
	CompletedBound int  // largest K such that every execution with <= K deviations was run; -1 none
	Saturated      bool // the whole tree was enumerated
	Capped         string
	Tags           map[string]int64
	Outcomes       map[string]int64
	OutcomeSample  map[string][]vrt.Dev
	Found          []Found // first occurrence per fingerprint
	FoundCount     map[string]int64
	EngineErrors   []string
	Wall           time.Duration
}

type item struct {
	devs []vrt.Dev
	cost int // deviations charged so far (free choices cost nothing)
}

// Explore runs the search. run must be safe for concurrent use (each call builds fresh objects).
func Explore(cfg Config, run RunFunc) *Stats {
	if cfg.Workers <= 0 {
		cfg.Workers = 1
	}
	st := &Stats{Tags: map[string]int64{}, Outcomes: map[string]int64{}, OutcomeSample: map[string][]vrt.Dev{}, FoundCount: map[string]int64{}, CompletedBound: -1}
	start := time.Now()
	var mu sync.Mutex
	var execs atomic.Int64
	var truncated atomic.Bool
	capped := func() string {
		if cfg.MaxExecs > 0 && execs.Load() >= cfg.MaxExecs {
			return fmt.Sprintf("max executions %d", cfg.MaxExecs)
		}
		if !cfg.Deadline.IsZero() && time.Now().After(cfg.Deadline) {
			return "time budget"
		}
		return ""
	}
	// process runs one item and returns its children
	process := func(it item) []item {
		x := run(it.devs)
		isRoot := len(it.devs) == 0
		skipAccount := isRoot && cfg.NShards > 1 && cfg.Shard != 0
		execs.Add(1)
		s := x.S
		var kids []item
		from := 0
		if n := len(it.devs); n > 0 {
			from = it.devs[n-1].Pos + 1
		}
		if s.ReplayDivergence == "" && s.NativeBlock == "" {
			for i := from; i < len(s.Trace); i++ {
				c := 1
				if s.Trace[i].Kind == 'f' {
					c = 0
				}
				if cfg.Bound >= 0 && it.cost+c > cfg.Bound {
					if s.Trace[i].N > 1 {
						truncated.Store(true)
					}
					continue
				}
				for alt := 1; alt < s.Trace[i].N; alt++ {
					nd := make([]vrt.Dev, len(it.devs)+1)
					copy(nd, it.devs)
					nd[len(it.devs)] = vrt.Dev{Pos: i, Alt: alt}
					kids = append(kids, item{nd, it.cost + c})
				}
			}
		}
		if isRoot && cfg.NShards > 1 {
			mine := kids[:0]
			for i, k := range kids {
				if i%cfg.NShards == cfg.Shard {
					mine = append(mine, k)
				}
			}
			kids = mine
		}
		if skipAccount {
			return kids
		}
		mu.Lock()
		st.Execs++
		st.Steps += int64(s.Steps)
		if len(s.Trace) > from {
			st.ChoicePoints += int64(len(s.Trace) - from)
		}
		if len(s.Trace) > st.MaxTrace {
			st.MaxTrace = len(s.Trace)
		}
		c := it.cost
		for len(st.ExecsByCost) <= c {
			st.ExecsByCost = append(st.ExecsByCost, 0)
		}
		st.ExecsByCost[c]++
		for _, tg := range x.Tags {
			st.Tags[tg]++
		}
		st.Outcomes[x.Outcome]++
		if _, ok := st.OutcomeSample[x.Outcome]; !ok {
			st.OutcomeSample[x.Outcome] = it.devs
		}
		if s.ReplayDivergence != "" {
			st.EngineErrors = append(st.EngineErrors, fmt.Sprintf("replay divergence devs=%v: %s", it.devs, s.ReplayDivergence))
		}
		if s.NativeBlock != "" {
			st.EngineErrors = append(st.EngineErrors, fmt.Sprintf("native block devs=%v: %.2000s", it.devs, s.NativeBlock))
		}
		for _, v := range x.Violations {
			if st.FoundCount[v.Fingerprint] == 0 {
				st.Found = append(st.Found, Found{Devs: it.devs, Violation: v, Outcome: x.Outcome})
			} else {
				for i := range st.Found {
					if st.Found[i].Violation.Fingerprint == v.Fingerprint && len(it.devs) < len(st.Found[i].Devs) {
						st.Found[i] = Found{Devs: it.devs, Violation: v, Outcome: x.Outcome}
					}
				}
			}
			st.FoundCount[v.Fingerprint]++
		}
		mu.Unlock()
		return kids
	}

	if cfg.Bound < 0 {
		// depth first, shared LIFO
		var qmu sync.Mutex
		cond := sync.NewCond(&qmu)
		stack := []item{{nil, 0}}
		inflight := 0
		stop := ""
		var wg sync.WaitGroup
		for w := 0; w < cfg.Workers; w++ {
			wg.Add(1)
			go func() {
				defer wg.Done()
				for {
					qmu.Lock()
					for len(stack) == 0 && inflight > 0 && stop == "" {
						cond.Wait()
					}
					if stop != "" || (len(stack) == 0 && inflight == 0) {
						qmu.Unlock()
						cond.Broadcast()
						return
					}
					it := stack[len(stack)-1]
					stack = stack[:len(stack)-1]
					inflight++
					qmu.Unlock()
					kids := process(it)
					qmu.Lock()
					// push in reverse so that lower alternatives are explored first
					for i := len(kids) - 1; i >= 0; i-- {
						stack = append(stack, kids[i])
					}
					inflight--
					if c := capped(); c != "" {
						stop = c
					}
					qmu.Unlock()
					cond.Broadcast()
				}
			}()
		}
		wg.Wait()
		st.Capped = stop
		st.Saturated = stop == ""
		if st.Saturated {
			st.CompletedBound = len(st.ExecsByCost) - 1
		}
	} else {
		level := []item{{nil, 0}}
		for k := 0; k <= cfg.Bound && len(level) > 0; k++ {
			// items of cost k; children reached through free choices stay in this level
			var qmu sync.Mutex
			cond := sync.NewCond(&qmu)
			queue := level
			var next []item
			inflight := 0
			stop := ""
			var wg sync.WaitGroup
			for w := 0; w < cfg.Workers; w++ {
				wg.Add(1)
				go func() {
					defer wg.Done()
					for {
						qmu.Lock()
						for len(queue) == 0 && inflight > 0 && stop == "" {
							cond.Wait()
						}
						if stop != "" || (len(queue) == 0 && inflight == 0) {
							qmu.Unlock()
							cond.Broadcast()
							return
						}
						it := queue[len(queue)-1]
						queue = queue[:len(queue)-1]
						inflight++
						qmu.Unlock()
						kids := process(it)
						qmu.Lock()
						for _, kd := range kids {
							if kd.cost == k {
								queue = append(queue, kd)
							} else {
								next = append(next, kd)
							}
						}
						inflight--
						if c := capped(); c != "" {
							stop = c
						}
						qmu.Unlock()
						cond.Broadcast()
					}
				}()
			}
			wg.Wait()
			if stop != "" {
				st.Capped = stop
				break
			}
			st.CompletedBound = k
			level = next
			if len(level) == 0 && !truncated.Load() {
				st.Saturated = true
			}
		}
	}
	st.Nodes = st.Execs + st.ChoicePoints
	st.Wall = time.Since(start)
	sort.Slice(st.Found, func(i, j int) bool { return len(st.Found[i].Devs) < len(st.Found[j].Devs) })
	return st
}
