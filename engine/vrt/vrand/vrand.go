// Package vrand mirrors the part of math/rand used by instrumented files: Perm is an explorer choice
// inside a vrt run (default: identity permutation), everything else is native.
package vrand

import (
	"math/rand"

	vrt "verif.local/vrt"
)

type Rand = rand.Rand
type Source = rand.Source

func New(s Source) *Rand          { return rand.New(s) }
func NewSource(seed int64) Source { return rand.NewSource(seed) }
func Intn(n int) int {
	if vrt.Active() {
		return vrt.Choose(n, "rand.Intn")
	}
	return rand.Intn(n)
}
func Int63n(n int64) int64 { return rand.Int63n(n) }
func Int63() int64         { return rand.Int63() }
func Int() int             { return rand.Int() }
func Float64() float64     { return rand.Float64() }
func Shuffle(n int, swap func(i, j int)) {
	if vrt.Active() {
		return
	}
	rand.Shuffle(n, swap)
}
func Perm(n int) []int {
	if vrt.Active() {
		return vrt.Perm(n)
	}
	return rand.Perm(n)
}
