module verif.local/vrt

go 1.25.0

require github.com/jonboulle/clockwork v0.5.0
