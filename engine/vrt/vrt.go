// Package vrt is the controlled-scheduler runtime of engine E1.
//
// Instrumented code (see engine/instr) calls into this package at every channel operation, select, go
// statement, close, mutex operation and timer. Inside a run exactly one registered goroutine ("thread")
// executes at a time; every such call is a scheduling *point* at which the scheduler picks which thread
// continues. Goroutines the scheduler does not know (and every call made while no run is active) are
// passed through to the native operation, so instrumented packages behave normally outside a run.
//
// Several runs may be active in one process at the same time (one Sched each, e.g. one per explorer
// worker): a thread is identified by its goroutine id, never by a global "current" pointer.
package vrt

import (
	"cmp"
	"fmt"
	"reflect"
	"runtime"
	"slices"
	"sort"
	"strings"
	"sync"
	"sync/atomic"
	"time"
	"unsafe"
)

type opKind int

const (
	opStart opKind = iota
	opSend
	opRecv
	opSelect
	opLock
	opRLock
	opYield
	opClose
	opWait  // WaitGroup.Wait
	opBlock // harness-defined blocking predicate
	opIdle  // enabled only when no other thread is enabled (quiescence hook for harness threads)
)

func (k opKind) String() string {
	return [...]string{"start", "send", "recv", "select", "lock", "rlock", "yield", "close", "wgwait", "block", "idle"}[k]
}

type thread struct {
	id     int
	s      *Sched
	wake   chan struct{}
	kind   opKind
	ch     reflect.Value // send/recv
	cases  []selCase
	hasDef bool
	mu     *MutexState
	wg     *int64
	pred   func() bool
	done   bool
	killed bool
	name   string
	goid   int64
	// rendezvous partner bookkeeping
	rdvPartner bool
	// off is the clock offset of the node this thread works for (package-level vtime functions add it);
	// spawned threads inherit it
	off time.Duration
}

// MutexState is the logical state of a vsync mutex.
type MutexState struct {
	Writer  bool
	Readers int
}

// Point is one recorded choice. Only choices with N>1 alternatives are recorded.
type Point struct {
	Kind           byte // 't' thread, 's' select case, 'e' environment, 'p' permutation pick
	N              int  // number of alternatives
	Chosen         int
	RunningEnabled bool   // thread points: the previously running thread was still enabled (alt 0)
	Label          string // optional, only filled when Sched.Labels
}

// Dev is one deviation from the default policy: at choice point Pos take alternative Alt (>0).
type Dev struct{ Pos, Alt int }

type Sched struct {
	counter uint64 // NextCounter
	threads []*thread
	toSched chan *thread
	closed  map[uintptr]bool
	keep    []reflect.Value // closed channels are kept alive so that their address cannot be reused within the run
	devs    []Dev
	devIdx  int
	pos     int

	Trace   []Point
	Killing bool
	Steps   int
	// MaxSteps>0 bounds the number of scheduler steps; exceeding it sets HorizonHit.
	MaxSteps   int
	HorizonHit bool
	// Deadlock is set when the run ended with unfinished threads, none enabled and no timer to fire
	// (before Until). Blocked lists them.
	Deadlock bool
	Blocked  []string
	// Panic holds the value+stack of a panic that escaped a thread.
	Panic string
	// ReplayDivergence is set if a deviation named an alternative that does not exist.
	ReplayDivergence string
	// NativeBlock is set when the running thread did not reach a point within the watchdog interval.
	NativeBlock string

	now        time.Time
	timers     []*vtimer
	timerSeq   int
	Until      time.Time
	TimerFires int
	// EarlyTimers: offer "fire the earliest timer now" as the last alternative of every thread choice.
	EarlyTimers bool
	// FreePerm: picks of Perm (e.g. the random peer order of a sync) are configuration choices (cost 0)
	FreePerm bool
	Labels   bool
	Log      []string // event log filled by Logf when Labels

	Watchdog time.Duration
	running  int
	// user data for harnesses
	Data any
}

var (
	threads sync.Map // goid -> *thread
	nActive atomic.Int32
	Epoch   = time.Unix(1700000000, 0)
)

// cur returns the calling goroutine's thread if it belongs to an active run and is not being killed.
func cur() *thread {
	if nActive.Load() == 0 {
		return nil
	}
	v, ok := threads.Load(goid())
	if !ok {
		return nil
	}
	return v.(*thread)
}

func active() (*Sched, *thread) {
	t := cur()
	if t == nil || t.killed || t.s.Killing {
		return nil, t
	}
	return t.s, t
}

// Active reports whether the caller runs inside a controlled execution.
func Active() bool { s, _ := active(); return s != nil }

// NextCounter numbers the calls of an execution (only one thread runs at a time, so the order is the schedule's).
func NextCounter() uint64 {
	s, _ := active()
	if s == nil {
		return 0
	}
	s.counter++
	return s.counter
}

// Current returns the Sched of the calling thread (nil outside a run).
func Current() *Sched {
	t := cur()
	if t == nil {
		return nil
	}
	return t.s
}

// ThreadID returns the id of the calling thread or -1.
func ThreadID() int {
	t := cur()
	if t == nil {
		return -1
	}
	return t.id
}

func (s *Sched) enabled(t *thread) bool {
	switch t.kind {
	case opStart, opYield, opClose:
		return true
	case opSend:
		if s.closed[t.ch.Pointer()] {
			return true
		}
		if t.ch.Cap() == 0 {
			return s.findReceiver(t) != nil
		}
		return t.ch.Len() < t.ch.Cap()
	case opRecv:
		if !t.ch.IsValid() || t.ch.IsNil() {
			return false
		}
		if t.ch.Len() > 0 || s.isClosed(t.ch) {
			return true
		}
		return false // unbuffered rendezvous is driven from the sender side
	case opSelect:
		if t.hasDef {
			return true
		}
		for _, c := range t.cases {
			if s.caseReady(c) {
				return true
			}
		}
		return false
	case opLock:
		return !t.mu.Writer && t.mu.Readers == 0
	case opRLock:
		return !t.mu.Writer
	case opWait:
		return atomic.LoadInt64(t.wg) <= 0
	case opBlock:
		return t.pred()
	}
	return false
}

// findReceiver returns a thread parked in a receive (plain or select case) on the unbuffered channel
// that sender snd wants to send on.
func (s *Sched) findReceiver(snd *thread) *thread {
	p := snd.ch.Pointer()
	for _, t := range s.threads {
		if t.done || t == snd {
			continue
		}
		switch t.kind {
		case opRecv:
			if t.ch.IsValid() && !t.ch.IsNil() && t.ch.Pointer() == p {
				return t
			}
		case opSelect:
			for _, c := range t.cases {
				if rc, ok := c.(recvAny); ok {
					v := rc.chanValue()
					if v.IsValid() && !v.IsNil() && v.Pointer() == p {
						return t
					}
				}
			}
		}
	}
	return nil
}

func (s *Sched) isClosed(ch reflect.Value) bool {
	if s.closed[ch.Pointer()] {
		return true
	}
	// probe signal-only channels (zero-size element, unbuffered): these are closed by uninstrumented code
	// (context cancellation) and never carry values in the instrumented packages.
	if ch.Cap() == 0 && ch.Type().Elem().Size() == 0 {
		chosen, _, ok := reflect.Select([]reflect.SelectCase{{Dir: reflect.SelectRecv, Chan: ch}, {Dir: reflect.SelectDefault}})
		if chosen == 0 && !ok {
			s.closed[ch.Pointer()] = true
			s.keep = append(s.keep, ch)
			return true
		}
	}
	return false
}

func (s *Sched) caseReady(c selCase) bool {
	switch cc := c.(type) {
	case recvAny:
		return cc.ready(s)
	case *SCase:
		v := reflect.ValueOf(cc.ch)
		if !v.IsValid() || v.IsNil() {
			return false
		}
		return v.Len() < v.Cap() || s.closed[v.Pointer()]
	}
	return false
}

// point: called by the running thread; parks until scheduled again.
func (s *Sched) point(t *thread) {
	s.toSched <- t
	<-t.wake
	if t.killed {
		runtime.Goexit()
	}
}

// choose records a choice among n alternatives and returns the chosen one (default 0).
// It is called either by the scheduler loop or by the single running thread, never concurrently.
func (s *Sched) choose(kind byte, n int, runningEnabled bool, label func() string) int {
	if n <= 1 {
		return 0
	}
	c := 0
	if s.devIdx < len(s.devs) && s.devs[s.devIdx].Pos == s.pos {
		c = s.devs[s.devIdx].Alt
		s.devIdx++
		if c >= n {
			s.ReplayDivergence = fmt.Sprintf("choice point %d (kind %c): alternative %d of %d", s.pos, kind, c, n)
			c = 0
		}
	}
	s.pos++
	p := Point{Kind: kind, N: n, Chosen: c, RunningEnabled: runningEnabled}
	if s.Labels && label != nil {
		p.Label = label()
	}
	s.Trace = append(s.Trace, p)
	return c
}

// Options configure one run.
type Options struct {
	Devs        []Dev
	MaxSteps    int
	Until       time.Time // virtual-time horizon for firing timers (zero: no limit)
	Start       time.Time // virtual start time (zero: Epoch)
	EarlyTimers bool
	FreePerm    bool
	Labels      bool
	Watchdog    time.Duration
}

// Run executes main under a fresh scheduler and returns it after teardown.
func Run(o Options, main func()) *Sched {
	s := &Sched{toSched: make(chan *thread), closed: map[uintptr]bool{}, devs: o.Devs, MaxSteps: o.MaxSteps,
		now: o.Start, Until: o.Until, EarlyTimers: o.EarlyTimers, FreePerm: o.FreePerm, Labels: o.Labels, Watchdog: o.Watchdog, running: -1}
	if s.now.IsZero() {
		s.now = Epoch
	}
	if s.Watchdog == 0 {
		s.Watchdog = 20 * time.Second
	}
	nActive.Add(1)
	s.newThread(main, "main")
	s.loop()
	s.teardown()
	nActive.Add(-1)
	return s
}

func (s *Sched) newThread(f func(), name string) *thread {
	t := &thread{id: len(s.threads), s: s, wake: make(chan struct{}), kind: opStart, name: name}
	s.threads = append(s.threads, t)
	ready := make(chan struct{})
	go func() {
		t.goid = goid()
		threads.Store(t.goid, t)
		close(ready)
		<-t.wake
		defer func() {
			r := recover()
			threads.Delete(t.goid)
			t.done = true
			if r != nil {
				buf := make([]byte, 1<<14)
				buf = buf[:runtime.Stack(buf, false)]
				s.Panic = fmt.Sprintf("%v\n%s", r, buf)
			}
			s.toSched <- t
		}()
		if t.killed {
			return
		}
		f()
	}()
	<-ready
	return t
}

func (s *Sched) threadLabel(t *thread) string {
	return fmt.Sprintf("T%d:%s", t.id, t.kind)
}

func (s *Sched) loop() {
	wd := time.NewTimer(time.Hour)
	defer wd.Stop()
	for {
		if s.Panic != "" || s.ReplayDivergence != "" {
			return
		}
		var en []*thread
		var runT *thread
		for _, t := range s.threads {
			if t.done {
				continue
			}
			if s.enabled(t) {
				if t.id == s.running {
					runT = t
				} else {
					en = append(en, t)
				}
			}
		}
		if runT != nil {
			en = append([]*thread{runT}, en...)
		}
		if s.MaxSteps > 0 && s.Steps >= s.MaxSteps {
			s.HorizonHit = true
			return
		}
		if len(en) == 0 {
			for _, t := range s.threads {
				if !t.done && t.kind == opIdle {
					en = append(en, t)
				}
			}
		}
		if len(en) == 0 {
			if s.fireNext() {
				continue
			}
			for _, t := range s.threads {
				if !t.done {
					s.Blocked = append(s.Blocked, s.threadLabel(t))
				}
			}
			// a run that ends with parked threads is a deadlock only if no timer is pending at all; with an
			// Until horizon pending timers mean "the system is idle until later".
			if len(s.Blocked) > 0 && !s.hasLiveTimer() {
				s.Deadlock = true
			}
			return
		}
		n := len(en)
		early := s.EarlyTimers && s.canFire()
		if early {
			n++
		}
		choice := s.choose('t', n, runT != nil, func() string {
			var b strings.Builder
			for i, t := range en {
				if i > 0 {
					b.WriteByte(' ')
				}
				b.WriteString(s.threadLabel(t))
			}
			return b.String()
		})
		if early && choice == n-1 {
			s.fireNext()
			continue
		}
		t := en[choice]
		s.running = t.id
		s.Steps++
		reports := 1
		if t.kind == opSend && t.ch.Cap() == 0 && !s.closed[t.ch.Pointer()] {
			// rendezvous: release the receiver as well; it performs the receive and parks again at once
			r := s.findReceiver(t)
			r.rdvPartner = true
			if r.kind == opSelect {
				// force the select to take the matching recv case
				for i, c := range r.cases {
					if rc, ok := c.(recvAny); ok && rc.chanValue().Pointer() == t.ch.Pointer() {
						r.cases = []selCase{c}
						r.hasDef = false
						rc.setIndex(i)
						break
					}
				}
			}
			t.wake <- struct{}{}
			r.wake <- struct{}{}
			reports = 2
		} else {
			t.wake <- struct{}{}
		}
		for reports > 0 {
			wd.Reset(s.Watchdog)
			select {
			case <-s.toSched:
				reports--
			case <-wd.C:
				buf := make([]byte, 1<<20)
				buf = buf[:runtime.Stack(buf, true)]
				s.NativeBlock = fmt.Sprintf("thread T%d (%s) did not reach a scheduling point within %v\n%s", t.id, t.name, s.Watchdog, buf)
				return
			}
		}
	}
}

func (s *Sched) teardown() {
	s.Killing = true
	if s.NativeBlock != "" {
		// cannot unwind a natively blocked goroutine; leave the rest parked (the process should exit)
		return
	}
	for _, t := range s.threads {
		if !t.done {
			t.killed = true
			t.wake <- struct{}{}
			<-s.toSched
		}
	}
	for _, tm := range s.timers {
		tm.dead = true
	}
}

// ---- ops ----

type RCase[T any] struct {
	ch          <-chan T
	Val         T
	Ok          bool
	idx         int
	ptr         uintptr
	closedKnown bool
}
type SCase struct {
	ch any
	do func()
}
type selCase interface{ isCase() }

func (*RCase[T]) isCase() {}
func (*SCase) isCase()    {}

type recvAny interface {
	chanValue() reflect.Value
	ready(s *Sched) bool
	recvNow()
	setIndex(int)
	getIndex() int
}

func (r *RCase[T]) chanValue() reflect.Value { return reflect.ValueOf(r.ch) }

// ready: typed fast path of caseReady for receive cases (no reflection on the hot path).
func (r *RCase[T]) ready(s *Sched) bool {
	if r.ch == nil {
		return false
	}
	if len(r.ch) > 0 {
		return true
	}
	if r.closedKnown {
		return true
	}
	if r.ptr == 0 {
		r.ptr = reflect.ValueOf(r.ch).Pointer()
	}
	if s.closed[r.ptr] {
		r.closedKnown = true
		return true
	}
	var z T
	if cap(r.ch) == 0 && unsafe.Sizeof(z) == 0 {
		// signal-only channel: closed by uninstrumented code (context cancellation), never carries values
		select {
		case _, ok := <-r.ch:
			if !ok {
				s.closed[r.ptr] = true
				s.keep = append(s.keep, reflect.ValueOf(r.ch))
				r.closedKnown = true
				return true
			}
		default:
		}
	}
	return false
}
func (r *RCase[T]) recvNow()       { r.Val, r.Ok = <-r.ch }
func (r *RCase[T]) setIndex(i int) { r.idx = i + 1 }
func (r *RCase[T]) getIndex() int  { return r.idx - 1 }

func RecvCase[T any](ch <-chan T) *RCase[T] { return &RCase[T]{ch: ch} }
func SendCase(ch any, do func()) *SCase     { return &SCase{ch: ch, do: do} }

// killedOp is what a blocking operation does on a thread that is being torn down: never block.
func killedOp(t *thread) bool { return t != nil && (t.killed || t.s.Killing) }

func Send(ch any, do func()) {
	s, t := active()
	if s == nil {
		if killedOp(t) {
			trySend(ch, do)
			return
		}
		do()
		return
	}
	t.kind, t.ch = opSend, reflect.ValueOf(ch)
	s.point(t)
	do()
}

func trySend(ch any, do func()) {
	v := reflect.ValueOf(ch)
	if v.Len() < v.Cap() {
		defer func() { _ = recover() }()
		do()
	}
}

func Recv[T any](ch <-chan T) T {
	v, _ := Recv2(ch)
	return v
}

func Recv2[T any](ch <-chan T) (T, bool) {
	s, t := active()
	if s == nil {
		if killedOp(t) {
			select {
			case v, ok := <-ch:
				return v, ok
			default:
				runtime.Goexit()
			}
		}
		v, ok := <-ch
		return v, ok
	}
	t.kind, t.ch = opRecv, reflect.ValueOf(ch)
	s.point(t)
	v, ok := <-ch
	if t.rdvPartner {
		t.rdvPartner = false
		t.kind = opYield
		s.point(t)
	}
	return v, ok
}

func Close(ch any, do func()) {
	s, t := active()
	if s == nil {
		if killedOp(t) {
			defer func() { _ = recover() }()
		}
		do()
		return
	}
	t.kind = opClose
	s.point(t)
	v := reflect.ValueOf(ch)
	s.closed[v.Pointer()] = true
	s.keep = append(s.keep, v)
	do()
}

func Go(f func()) {
	s, t := active()
	if s == nil {
		if killedOp(t) {
			return
		}
		go f()
		return
	}
	s.newThread(f, "go").off = t.off
}

// SetThreadOffset sets the clock offset seen by the calling thread through the package-level vtime functions
// (the harness switches it to the target node's skew around an RPC or a command) and returns the previous one.
func SetThreadOffset(d time.Duration) time.Duration {
	t := cur()
	if t == nil {
		return 0
	}
	old := t.off
	t.off = d
	return old
}

// GoNamed spawns a named thread (harness use).
func GoNamed(name string, f func()) {
	s, t := active()
	if s == nil {
		go f()
		return
	}
	s.newThread(f, name).off = t.off
}

// Yield is an explicit scheduling point.
func Yield() {
	s, t := active()
	if s == nil {
		return
	}
	t.kind = opYield
	s.point(t)
}

// BlockUntil parks the calling thread until pred() holds (pred is evaluated by the scheduler while all
// threads are parked). Harness use: modelling environment waits without spinning.
func BlockUntil(pred func() bool) {
	s, t := active()
	if s == nil {
		if killedOp(t) {
			runtime.Goexit()
		}
		for !pred() {
			runtime.Gosched()
		}
		return
	}
	t.kind, t.pred = opBlock, pred
	s.point(t)
}

// WaitIdle parks the calling thread until no other thread is enabled (timers are not fired for it).
func WaitIdle() {
	s, t := active()
	if s == nil {
		if killedOp(t) {
			runtime.Goexit()
		}
		return
	}
	t.kind = opIdle
	s.point(t)
}

// Choose is an environment choice among n alternatives; the default policy answers 0.
func Choose(n int, label string) int {
	s, _ := active()
	if s == nil {
		return 0
	}
	return s.choose('e', n, false, func() string { return label })
}

// ChooseFree is a choice that belongs to the *configuration* of the run rather than to its schedule (which
// input sequence, which scenario): the explorer enumerates all n alternatives without charging a deviation.
func ChooseFree(n int, label string) int {
	s, _ := active()
	if s == nil {
		return 0
	}
	return s.choose('f', n, false, func() string { return label })
}

// Perm returns a permutation of [0,n) chosen by the explorer; the default is the identity.
func Perm(n int) []int {
	s, _ := active()
	out := make([]int, 0, n)
	rest := make([]int, n)
	for i := range rest {
		rest[i] = i
	}
	for len(rest) > 0 {
		k := 0
		if s != nil {
			kind := byte('p')
			if s.FreePerm {
				kind = 'f'
			}
			k = s.choose(kind, len(rest), false, func() string { return "perm" })
		}
		out = append(out, rest[k])
		rest = append(rest[:k], rest[k+1:]...)
	}
	return out
}

// Logf appends to the run's event log when labels are on (replays).
func Logf(format string, a ...any) {
	t := cur()
	if t == nil || !t.s.Labels {
		return
	}
	t.s.Log = append(t.s.Log, fmt.Sprintf("[%s T%d] ", t.s.now.Sub(Epoch), t.id)+fmt.Sprintf(format, a...))
}

func Select(hasDefault bool, cases ...selCase) int {
	s, t := active()
	if s == nil {
		if killedOp(t) {
			i := selectNative(true, cases)
			if i == -1 && !hasDefault {
				runtime.Goexit()
			}
			return i
		}
		return selectNative(hasDefault, cases)
	}
	t.kind, t.cases, t.hasDef = opSelect, cases, hasDefault
	s.point(t)
	if t.rdvPartner {
		// the scheduler reduced cases to the one matching a rendezvous sender
		rc := t.cases[0].(recvAny)
		rc.recvNow()
		t.rdvPartner = false
		t.kind = opYield
		s.point(t)
		return rc.getIndex()
	}
	var ready []int
	for i, c := range cases {
		if s.caseReady(c) {
			ready = append(ready, i)
		}
	}
	if len(ready) == 0 {
		if hasDefault {
			return -1
		}
		panic("vrt: select scheduled with no ready case")
	}
	k := s.choose('s', len(ready), false, func() string { return fmt.Sprintf("T%d select ready=%v", t.id, ready) })
	i := ready[k]
	switch cc := cases[i].(type) {
	case recvAny:
		cc.recvNow()
	case *SCase:
		cc.do()
	}
	return i
}

func selectNative(hasDefault bool, cases []selCase) int {
	for {
		rc := make([]reflect.SelectCase, 0, len(cases)+1)
		idx := make([]int, 0, len(cases)+1)
		sendSeen := false
		for i, c := range cases {
			switch cc := c.(type) {
			case recvAny:
				v := cc.chanValue()
				rc = append(rc, reflect.SelectCase{Dir: reflect.SelectRecv, Chan: v})
				idx = append(idx, i)
			case *SCase:
				sendSeen = true
				v := reflect.ValueOf(cc.ch)
				if v.IsValid() && !v.IsNil() && v.Len() < v.Cap() {
					cc.do()
					return i
				}
			}
		}
		if hasDefault || sendSeen {
			rc = append(rc, reflect.SelectCase{Dir: reflect.SelectDefault})
			idx = append(idx, -1)
		}
		chosen, v, ok := reflect.Select(rc)
		if idx[chosen] == -1 {
			if hasDefault {
				return -1
			}
			// a pending send case on a full channel: poll (native mode only; good enough for pass-through)
			time.Sleep(50 * time.Microsecond)
			continue
		}
		setRecv(cases[idx[chosen]], v, ok)
		return idx[chosen]
	}
}

func setRecv(c selCase, v reflect.Value, ok bool) {
	c.(interface{ setAny(reflect.Value, bool) }).setAny(v, ok)
}
func (r *RCase[T]) setAny(v reflect.Value, ok bool) {
	if ok {
		r.Val, _ = v.Interface().(T)
	}
	r.Ok = ok
}

// ---- mutex / waitgroup ops used by vsync ----

func LockOp(m *MutexState, lock func()) {
	s, t := active()
	if s == nil {
		if killedOp(t) {
			return
		}
		lock()
		return
	}
	t.kind, t.mu = opLock, m
	s.point(t)
	m.Writer = true
}

func UnlockOp(m *MutexState, unlock func()) {
	s, t := active()
	if s == nil {
		if killedOp(t) {
			m.Writer = false
			return
		}
		unlock()
		return
	}
	if !m.Writer {
		panic("vrt: unlock of unlocked mutex")
	}
	m.Writer = false
}

func TryLockOp(m *MutexState, try func() bool) bool {
	s, t := active()
	if s == nil {
		if killedOp(t) {
			return true
		}
		return try()
	}
	if m.Writer || m.Readers > 0 {
		return false
	}
	m.Writer = true
	return true
}

func RLockOp(m *MutexState, rlock func()) {
	s, t := active()
	if s == nil {
		if killedOp(t) {
			return
		}
		rlock()
		return
	}
	t.kind, t.mu = opRLock, m
	s.point(t)
	m.Readers++
}

func RUnlockOp(m *MutexState, runlock func()) {
	s, t := active()
	if s == nil {
		if killedOp(t) {
			if m.Readers > 0 {
				m.Readers--
			}
			return
		}
		runlock()
		return
	}
	if m.Readers <= 0 {
		panic("vrt: runlock of unlocked rwmutex")
	}
	m.Readers--
}

// WaitOp parks until *cnt <= 0.
func WaitOp(cnt *int64, wait func()) {
	s, t := active()
	if s == nil {
		if killedOp(t) {
			if atomic.LoadInt64(cnt) > 0 {
				runtime.Goexit()
			}
			return
		}
		wait()
		return
	}
	t.kind, t.wg = opWait, cnt
	s.point(t)
}

// ---- virtual time ----

type vtimer struct {
	off    time.Duration // offset of the clock that created the timer: values delivered are in that clock's time
	at     time.Time
	seq    int
	ch     chan time.Time
	period time.Duration
	dead   bool
	fn     func()
}

func (s *Sched) Now() time.Time { return s.now }

func (s *Sched) addTimer(t *vtimer) {
	s.timerSeq++
	t.seq = s.timerSeq
	s.timers = append(s.timers, t)
}

func (s *Sched) liveTimers() []*vtimer {
	live := s.timers[:0]
	for _, t := range s.timers {
		if !t.dead {
			live = append(live, t)
		}
	}
	s.timers = live
	sort.SliceStable(s.timers, func(i, j int) bool {
		if !s.timers[i].at.Equal(s.timers[j].at) {
			return s.timers[i].at.Before(s.timers[j].at)
		}
		return s.timers[i].seq < s.timers[j].seq
	})
	return s.timers
}

func (s *Sched) hasLiveTimer() bool { return len(s.liveTimers()) > 0 }

func (s *Sched) canFire() bool {
	l := s.liveTimers()
	if len(l) == 0 {
		return false
	}
	return s.Until.IsZero() || !l[0].at.After(s.Until)
}

// fireNext advances virtual time to the earliest live timer and fires it.
func (s *Sched) fireNext() bool {
	if !s.canFire() {
		return false
	}
	t := s.timers[0]
	if t.at.After(s.now) {
		s.now = t.at
	}
	s.TimerFires++
	if t.fn != nil {
		t.dead = true
		s.newThread(t.fn, "afterfunc")
		return true
	}
	select {
	case t.ch <- s.now.Add(t.off):
	default:
	}
	if t.period > 0 {
		t.at = t.at.Add(t.period)
	} else {
		t.dead = true
	}
	return true
}

// SetEarlyTimers switches the "fire the earliest timer now" deviation on or off for the calling thread's run
// (harnesses keep it off while they build their objects).
func SetEarlyTimers(on bool) {
	if t := cur(); t != nil {
		t.s.EarlyTimers = on
	}
}

// Advance moves virtual time forward by d without firing timers whose time has not come; timers that
// became due fire (in order) the next time the system is idle. Harness use.
func Advance(d time.Duration) {
	t := cur()
	if t == nil {
		return
	}
	t.s.now = t.s.now.Add(d)
}

// VNow returns the virtual time of the calling thread's run.
func VNow() time.Time {
	t := cur()
	if t == nil {
		return Epoch
	}
	return t.s.now
}

// VNowLocal is VNow plus the calling thread's clock offset (what package time shows to instrumented code).
func VNowLocal() time.Time {
	t := cur()
	if t == nil {
		return Epoch
	}
	return t.s.now.Add(t.off)
}

// SortedKeys returns the keys of m in ascending order; instrumented code iterates maps through it so that
// iteration order is not a hidden source of nondeterminism.
func SortedKeys[M ~map[K]V, K cmp.Ordered, V any](m M) []K {
	keys := make([]K, 0, len(m))
	for k := range m {
		keys = append(keys, k)
	}
	slices.Sort(keys)
	return keys
}
