// Package vtime mirrors the part of package time used by instrumented packages: the clock and timers are
// virtual inside a vrt run and native outside.
package vtime

import (
	"time"

	vrt "verif.local/vrt"
)

type Duration = time.Duration
type Time = time.Time
type Month = time.Month
type Weekday = time.Weekday
type Location = time.Location

const (
	Nanosecond  = time.Nanosecond
	Microsecond = time.Microsecond
	Millisecond = time.Millisecond
	Second      = time.Second
	Minute      = time.Minute
	Hour        = time.Hour
	RFC3339     = time.RFC3339
	RFC3339Nano = time.RFC3339Nano
	RFC1123     = time.RFC1123
	RFC850      = time.RFC850
	ANSIC       = time.ANSIC
	Kitchen     = time.Kitchen
	DateTime    = time.DateTime
	DateOnly    = time.DateOnly
	TimeOnly    = time.TimeOnly
	UnixDate    = time.UnixDate
	StampMilli  = time.StampMilli
)

var (
	UTC   = time.UTC
	Local = time.Local
)

func Unix(s, ns int64) Time   { return time.Unix(s, ns) }
func UnixMilli(ms int64) Time { return time.UnixMilli(ms) }
func Date(y int, m Month, d, h, mi, s, ns int, l *Location) Time {
	return time.Date(y, m, d, h, mi, s, ns, l)
}
func Parse(l, v string) (Time, error)          { return time.Parse(l, v) }
func ParseDuration(s string) (Duration, error) { return time.ParseDuration(s) }
func LoadLocation(n string) (*Location, error) { return time.LoadLocation(n) }

func Now() Time {
	if vrt.Active() {
		return vrt.VNowLocal()
	}
	return time.Now()
}
func Since(t Time) Duration { return Now().Sub(t) }
func Until(t Time) Duration { return t.Sub(Now()) }
func After(d Duration) <-chan Time {
	if vrt.Active() {
		return (&vrt.Clock{}).After(d)
	}
	return time.After(d)
}
func Tick(d Duration) <-chan Time {
	if vrt.Active() {
		return (&vrt.Clock{}).NewTicker(d).Chan()
	}
	return time.Tick(d)
}
func Sleep(d Duration) {
	if vrt.Active() {
		(&vrt.Clock{}).Sleep(d)
		return
	}
	time.Sleep(d)
}

type stopper interface{ Stop() bool }
type resetter interface{ Reset(Duration) bool }

type Timer struct {
	C <-chan Time
	v interface {
		Stop() bool
		Reset(Duration) bool
	}
	n *time.Timer
}

func NewTimer(d Duration) *Timer {
	if vrt.Active() {
		t := (&vrt.Clock{}).NewTimer(d)
		return &Timer{C: t.Chan(), v: t}
	}
	n := time.NewTimer(d)
	return &Timer{C: n.C, n: n}
}
func AfterFunc(d Duration, f func()) *Timer {
	if vrt.Active() {
		t := (&vrt.Clock{}).AfterFunc(d, f)
		return &Timer{v: t}
	}
	return &Timer{n: time.AfterFunc(d, f)}
}
func (t *Timer) Stop() bool {
	if t.v != nil {
		return t.v.Stop()
	}
	return t.n.Stop()
}
func (t *Timer) Reset(d Duration) bool {
	if t.v != nil {
		return t.v.Reset(d)
	}
	return t.n.Reset(d)
}

type Ticker struct {
	C <-chan Time
	v interface{ Stop() }
	n *time.Ticker
}

func NewTicker(d Duration) *Ticker {
	if vrt.Active() {
		t := (&vrt.Clock{}).NewTicker(d)
		return &Ticker{C: t.Chan(), v: t}
	}
	n := time.NewTicker(d)
	return &Ticker{C: n.C, n: n}
}
func (t *Ticker) Stop() {
	if t.v != nil {
		t.v.Stop()
		return
	}
	t.n.Stop()
}
func (t *Ticker) Reset(d Duration) {
	if t.n != nil {
		t.n.Reset(d)
	}
}
