package vrt

import (
	"bytes"
	"runtime"
	"strconv"
	"unsafe"
)

func getg() unsafe.Pointer

// goidOffset is the byte offset of the goid field inside the runtime's g structure, found by calibration at
// start-up (the slow, always-correct way to learn a goroutine id is to parse runtime.Stack, which walks the
// whole stack: measured at ~50% of exploration time). 0 means "not found, use the slow way".
var goidOffset uintptr

func slowGoid() int64 {
	var buf [64]byte
	n := runtime.Stack(buf[:], false)
	b := buf[10:n] // "goroutine 123 ["
	i := bytes.IndexByte(b, ' ')
	id, _ := strconv.ParseInt(string(b[:i]), 10, 64)
	return id
}

func init() {
	// candidates: offsets at which the g structure holds this goroutine's id, intersected over several goroutines
	cand := map[uintptr]int{}
	const rounds = 6
	for r := 0; r < rounds; r++ {
		done := make(chan struct{})
		go func() {
			defer close(done)
			id := slowGoid()
			g := getg()
			for off := uintptr(0); off < 600; off += 8 {
				if *(*int64)(unsafe.Add(g, off)) == id {
					cand[off]++
				}
			}
		}()
		<-done
	}
	var found []uintptr
	for off, n := range cand {
		if n == rounds {
			found = append(found, off)
		}
	}
	if len(found) == 1 {
		goidOffset = found[0]
	}
}

func goid() int64 {
	if goidOffset != 0 {
		return *(*int64)(unsafe.Add(getg(), goidOffset))
	}
	return slowGoid()
}

// FastGoid reports whether the calibrated fast path is in use (evidence / self-test).
func FastGoid() bool { return goidOffset != 0 }
