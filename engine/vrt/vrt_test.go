package vrt_test

import (
	"fmt"
	"testing"
	"time"

	vrt "verif.local/vrt"
	"verif.local/vrt/explore"
	sync "verif.local/vrt/vsync"
)

// lost update: two threads do an unprotected read-modify-write split by a Yield.
func TestLostUpdate(t *testing.T) {
	run := func(d []vrt.Dev) *explore.Exec {
		x := 0
		s := vrt.Run(vrt.Options{Devs: d}, func() {
			var wg sync.WaitGroup
			for i := 0; i < 2; i++ {
				wg.Add(1)
				vrt.Go(func() { defer wg.Done(); v := x; vrt.Yield(); x = v + 1 })
			}
			wg.Wait()
		})
		return &explore.Exec{S: s, Outcome: fmt.Sprint(x)}
	}
	st := explore.Explore(explore.Config{Bound: -1, Workers: 4}, run)
	if !st.Saturated || st.Outcomes["1"] == 0 || st.Outcomes["2"] == 0 {
		t.Fatalf("%+v", st)
	}
	t.Logf("execs=%d outcomes=%v", st.Execs, st.Outcomes)
	st1 := explore.Explore(explore.Config{Bound: 0, Workers: 1}, run)
	if st1.Execs != 1 || st1.Outcomes["2"] != 1 || st1.Saturated {
		t.Fatalf("%+v", st1)
	}
}

func TestMutexChanSelectTimer(t *testing.T) {
	run := func(d []vrt.Dev) *explore.Exec {
		var log []string
		s := vrt.Run(vrt.Options{Devs: d}, func() {
			var mu sync.Mutex
			ch := make(chan int, 1)
			un := make(chan int)
			done := make(chan struct{})
			clk := &vrt.Clock{}
			vrt.Go(func() {
				mu.Lock()
				log = append(log, "a")
				mu.Unlock()
				c := ch
				vrt.Send(c, func() { c <- 1 })
				u := un
				vrt.Send(u, func() { u <- 7 })
			})
			vrt.Go(func() {
				mu.Lock()
				log = append(log, "b")
				mu.Unlock()
				r := vrt.RecvCase(ch)
				tm := vrt.RecvCase(clk.After(time.Second))
				switch vrt.Select(false, r, tm) {
				case 0:
					log = append(log, fmt.Sprint("got", r.Val))
				case 1:
					log = append(log, "timeout")
				}
				v := vrt.Recv(un)
				log = append(log, fmt.Sprint("un", v))
				vrt.Close(done, func() { close(done) })
			})
			vrt.Recv(done)
		})
		if s.Deadlock || s.Panic != "" {
			return &explore.Exec{S: s, Outcome: "BAD " + s.Panic + fmt.Sprint(s.Blocked)}
		}
		return &explore.Exec{S: s, Outcome: fmt.Sprint(log)}
	}
	st := explore.Explore(explore.Config{Bound: -1, Workers: 4}, run)
	t.Logf("execs=%d outcomes=%v", st.Execs, st.Outcomes)
	for k := range st.Outcomes {
		if len(k) > 3 && k[:3] == "BAD" {
			t.Fatal(k)
		}
	}
	if len(st.Outcomes) != 2 {
		t.Fatalf("want 2 outcomes (a b / b a), got %v", st.Outcomes)
	}
}

func TestDeadlockAndKill(t *testing.T) {
	for i := 0; i < 200; i++ {
		s := vrt.Run(vrt.Options{}, func() {
			var a, b sync.Mutex
			vrt.Go(func() { a.Lock(); defer a.Unlock(); vrt.Yield(); b.Lock(); b.Unlock() })
			b.Lock()
			defer b.Unlock()
			vrt.Yield()
			vrt.Yield()
			a.Lock()
			a.Unlock()
		})
		_ = s
	}
	st := explore.Explore(explore.Config{Bound: -1, Workers: 2}, func(d []vrt.Dev) *explore.Exec {
		s := vrt.Run(vrt.Options{Devs: d}, func() {
			var a, b sync.Mutex
			vrt.Go(func() { a.Lock(); defer a.Unlock(); vrt.Yield(); b.Lock(); b.Unlock() })
			b.Lock()
			defer b.Unlock()
			vrt.Yield()
			a.Lock()
			a.Unlock()
		})
		return &explore.Exec{S: s, Outcome: fmt.Sprint(s.Deadlock)}
	})
	if st.Outcomes["true"] == 0 || st.Outcomes["false"] == 0 {
		t.Fatalf("%v", st.Outcomes)
	}
	t.Logf("execs=%d outcomes=%v", st.Execs, st.Outcomes)
}

func TestDeterminism(t *testing.T) {
	run := func(d []vrt.Dev) string {
		var log []int
		s := vrt.Run(vrt.Options{Devs: d, Labels: true}, func() {
			ch := make(chan int, 3)
			for i := 0; i < 3; i++ {
				vrt.Go(func() { c := ch; vrt.Send(c, func() { c <- i }) })
			}
			for i := 0; i < 3; i++ {
				log = append(log, vrt.Recv(ch))
			}
		})
		return fmt.Sprint(log, len(s.Trace))
	}
	d := []vrt.Dev{{0, 1}, {2, 1}}
	a, b := run(d), run(d)
	if a != b {
		t.Fatal(a, b)
	}
}

func TestFastGoid(t *testing.T) {
	if !vrt.FastGoid() {
		t.Fatal("fast goid calibration failed")
	}
}
