// Package vsync mirrors the part of package sync used by instrumented packages; Lock/RLock/Wait are
// scheduling points of the vrt runtime inside a run and native operations outside.
package vsync

import (
	"sync"
	"sync/atomic"

	vrt "verif.local/vrt"
)

type Locker = sync.Locker
type Map = sync.Map
type Pool = sync.Pool
type Cond = sync.Cond

func NewCond(l Locker) *Cond { return sync.NewCond(l) }

type Mutex struct {
	st vrt.MutexState
	n  sync.Mutex
}

func (m *Mutex) Lock()         { vrt.LockOp(&m.st, m.n.Lock) }
func (m *Mutex) Unlock()       { vrt.UnlockOp(&m.st, m.n.Unlock) }
func (m *Mutex) TryLock() bool { return vrt.TryLockOp(&m.st, m.n.TryLock) }

type RWMutex struct {
	st vrt.MutexState
	n  sync.RWMutex
}

func (m *RWMutex) Lock()           { vrt.LockOp(&m.st, m.n.Lock) }
func (m *RWMutex) Unlock()         { vrt.UnlockOp(&m.st, m.n.Unlock) }
func (m *RWMutex) RLock()          { vrt.RLockOp(&m.st, m.n.RLock) }
func (m *RWMutex) RUnlock()        { vrt.RUnlockOp(&m.st, m.n.RUnlock) }
func (m *RWMutex) RLocker() Locker { return (*rlocker)(m) }

type rlocker RWMutex

func (r *rlocker) Lock()   { (*RWMutex)(r).RLock() }
func (r *rlocker) Unlock() { (*RWMutex)(r).RUnlock() }

// WaitGroup keeps a logical counter next to the native one so that Wait can be a scheduling point.
type WaitGroup struct {
	cnt int64
	n   sync.WaitGroup
}

func (w *WaitGroup) Add(d int) { atomic.AddInt64(&w.cnt, int64(d)); w.n.Add(d) }
func (w *WaitGroup) Done()     { w.Add(-1) }
func (w *WaitGroup) Wait()     { vrt.WaitOp(&w.cnt, w.n.Wait) }
func (w *WaitGroup) Go(f func()) {
	w.Add(1)
	vrt.Go(func() { defer w.Done(); f() })
}

// Once is implemented over Mutex so that a Do that blocks inside f does not block the scheduler natively.
type Once struct {
	done atomic.Bool
	m    Mutex
}

func (o *Once) Do(f func()) {
	if o.done.Load() {
		return
	}
	o.m.Lock()
	defer o.m.Unlock()
	if !o.done.Load() {
		defer o.done.Store(true)
		f()
	}
}

func OnceFunc(f func()) func() { var o Once; return func() { o.Do(f) } }
