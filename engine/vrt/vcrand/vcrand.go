// Package vcrand mirrors the part of crypto/rand used by instrumented files. Inside a vrt run Read is deterministic
// (the n-th call of an execution always yields the same bytes), so that identifiers drawn from it (callback ids that
// end up as map keys) do not make two executions of the same schedule differ; outside a run it is the real thing.
package vcrand

import (
	"crypto/rand"
	"crypto/sha256"
	"encoding/binary"

	vrt "verif.local/vrt"
)

var Reader = rand.Reader

func Read(b []byte) (int, error) {
	if !vrt.Active() {
		return rand.Read(b)
	}
	n := vrt.NextCounter()
	var seed [8]byte
	binary.BigEndian.PutUint64(seed[:], n)
	off := 0
	for ctr := uint32(0); off < len(b); ctr++ {
		var c [4]byte
		binary.BigEndian.PutUint32(c[:], ctr)
		h := sha256.Sum256(append(append([]byte("vcrand"), seed[:]...), c[:]...))
		off += copy(b[off:], h[:])
	}
	return len(b), nil
}
