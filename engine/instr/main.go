// instr is the source-to-source instrumenter of engine E1. It loads packages of the *current* /repo tree
// (go/packages, type-checked), rewrites every concurrency construct into a call on the vrt runtime, and
// writes the rewritten files plus a `go build -overlay` map to the output directory; /repo is not touched.
//
//	instr -out DIR [-dir /repo] [-tags t1,t2] [-vtime pkgpath,...] [-vrand pkgpath,...]
//	      [-const pkgpath.Name=expr ...] pkgpattern...
package main

import (
	"bytes"
	"encoding/json"
	"flag"
	"fmt"
	"go/ast"
	"go/printer"
	"go/token"
	"go/types"
	"os"
	"path/filepath"
	"strconv"
	"strings"

	"golang.org/x/tools/go/ast/astutil"
	"golang.org/x/tools/go/packages"
)

const vrtPath = "verif.local/vrt"

var pkgPathOf string
var vtimePkgs, vrandPkgs, vcrandPkgs = map[string]bool{}, map[string]bool{}, map[string]bool{}

const vsyncPath = "verif.local/vrt/vsync"

type rw struct {
	fset *token.FileSet
	info *types.Info
	n    int
	used bool
}

func (r *rw) tmp(p string) string { r.n++; return fmt.Sprintf("_v%s%d", p, r.n) }

func sel(name string) ast.Expr {
	return &ast.SelectorExpr{X: ast.NewIdent("vrt"), Sel: ast.NewIdent(name)}
}
func call(name string, args ...ast.Expr) *ast.CallExpr {
	return &ast.CallExpr{Fun: sel(name), Args: args}
}

func (r *rw) isConstOrNil(e ast.Expr) bool {
	tv, ok := r.info.Types[e]
	if !ok {
		return false
	}
	return tv.Value != nil || tv.IsNil()
}

// orderedMapKey reports whether e is a map whose key type is a string or integer kind.
func (r *rw) orderedMapKey(e ast.Expr) (types.Type, bool) {
	tv, ok := r.info.Types[e]
	if !ok {
		return nil, false
	}
	m, ok := tv.Type.Underlying().(*types.Map)
	if !ok {
		return nil, false
	}
	b, ok := m.Key().Underlying().(*types.Basic)
	if !ok || b.Info()&(types.IsInteger|types.IsString) == 0 {
		return nil, false
	}
	return m.Key(), true
}

func (r *rw) isChan(e ast.Expr) bool {
	tv, ok := r.info.Types[e]
	if !ok {
		return false
	}
	_, ok = tv.Type.Underlying().(*types.Chan)
	return ok
}

// sendStmts returns statements implementing `ch <- v` as a scheduled op
func (r *rw) sendStmts(s *ast.SendStmt) []ast.Stmt {
	r.used = true
	c := r.tmp("c")
	stmts := []ast.Stmt{&ast.AssignStmt{Lhs: []ast.Expr{ast.NewIdent(c)}, Tok: token.DEFINE, Rhs: []ast.Expr{s.Chan}}}
	var val ast.Expr = s.Value
	if !r.isConstOrNil(s.Value) {
		v := r.tmp("x")
		stmts = append(stmts, &ast.AssignStmt{Lhs: []ast.Expr{ast.NewIdent(v)}, Tok: token.DEFINE, Rhs: []ast.Expr{s.Value}})
		val = ast.NewIdent(v)
	}
	fn := &ast.FuncLit{Type: &ast.FuncType{Params: &ast.FieldList{}}, Body: &ast.BlockStmt{List: []ast.Stmt{
		&ast.SendStmt{Chan: ast.NewIdent(c), Value: val}}}}
	stmts = append(stmts, &ast.ExprStmt{X: call("Send", ast.NewIdent(c), fn)})
	return stmts
}

func (r *rw) rewriteSelect(s *ast.SelectStmt) ast.Stmt {
	r.used = true
	var pre []ast.Stmt
	var args []ast.Expr
	hasDefault := false
	sw := &ast.SwitchStmt{Body: &ast.BlockStmt{}}
	idx := 0
	for _, cc0 := range s.Body.List {
		cc := cc0.(*ast.CommClause)
		if cc.Comm == nil {
			hasDefault = true
			sw.Body.List = append(sw.Body.List, &ast.CaseClause{List: nil, Body: cc.Body})
			continue
		}
		name := r.tmp("s")
		var body []ast.Stmt
		switch c := cc.Comm.(type) {
		case *ast.SendStmt:
			ch := r.tmp("c")
			pre = append(pre, &ast.AssignStmt{Lhs: []ast.Expr{ast.NewIdent(ch)}, Tok: token.DEFINE, Rhs: []ast.Expr{c.Chan}})
			var val ast.Expr = c.Value
			if !r.isConstOrNil(c.Value) {
				v := r.tmp("x")
				pre = append(pre, &ast.AssignStmt{Lhs: []ast.Expr{ast.NewIdent(v)}, Tok: token.DEFINE, Rhs: []ast.Expr{c.Value}})
				val = ast.NewIdent(v)
			}
			fn := &ast.FuncLit{Type: &ast.FuncType{Params: &ast.FieldList{}}, Body: &ast.BlockStmt{List: []ast.Stmt{
				&ast.SendStmt{Chan: ast.NewIdent(ch), Value: val}}}}
			pre = append(pre, &ast.AssignStmt{Lhs: []ast.Expr{ast.NewIdent(name)}, Tok: token.DEFINE, Rhs: []ast.Expr{call("SendCase", ast.NewIdent(ch), fn)}})
		case *ast.ExprStmt:
			u := c.X.(*ast.UnaryExpr)
			pre = append(pre, &ast.AssignStmt{Lhs: []ast.Expr{ast.NewIdent(name)}, Tok: token.DEFINE, Rhs: []ast.Expr{call("RecvCase", u.X)}})
		case *ast.AssignStmt:
			u := c.Rhs[0].(*ast.UnaryExpr)
			pre = append(pre, &ast.AssignStmt{Lhs: []ast.Expr{ast.NewIdent(name)}, Tok: token.DEFINE, Rhs: []ast.Expr{call("RecvCase", u.X)}})
			rhs := []ast.Expr{&ast.SelectorExpr{X: ast.NewIdent(name), Sel: ast.NewIdent("Val")}}
			if len(c.Lhs) == 2 {
				rhs = append(rhs, &ast.SelectorExpr{X: ast.NewIdent(name), Sel: ast.NewIdent("Ok")})
			}
			body = append(body, &ast.AssignStmt{Lhs: c.Lhs, Tok: c.Tok, Rhs: rhs})
		default:
			panic(fmt.Sprintf("unsupported comm %T", c))
		}
		args = append(args, ast.NewIdent(name))
		body = append(body, cc.Body...)
		sw.Body.List = append(sw.Body.List, &ast.CaseClause{List: []ast.Expr{&ast.BasicLit{Kind: token.INT, Value: strconv.Itoa(idx)}}, Body: body})
		idx++
	}
	def := "false"
	if hasDefault {
		def = "true"
	} else {
		sw.Body.List = append(sw.Body.List, &ast.CaseClause{List: nil, Body: []ast.Stmt{&ast.ExprStmt{X: &ast.CallExpr{Fun: ast.NewIdent("panic"), Args: []ast.Expr{&ast.BasicLit{Kind: token.STRING, Value: `"vrt: bad select index"`}}}}}})
	}
	sw.Tag = call("Select", append([]ast.Expr{ast.NewIdent(def)}, args...)...)
	return &ast.BlockStmt{List: append(pre, sw)}
}

func (r *rw) rewriteGo(g *ast.GoStmt) ast.Stmt {
	r.used = true
	var pre []ast.Stmt
	f := r.tmp("f")
	pre = append(pre, &ast.AssignStmt{Lhs: []ast.Expr{ast.NewIdent(f)}, Tok: token.DEFINE, Rhs: []ast.Expr{g.Call.Fun}})
	var args []ast.Expr
	for _, a := range g.Call.Args {
		if r.isConstOrNil(a) {
			args = append(args, a)
			continue
		}
		v := r.tmp("a")
		pre = append(pre, &ast.AssignStmt{Lhs: []ast.Expr{ast.NewIdent(v)}, Tok: token.DEFINE, Rhs: []ast.Expr{a}})
		args = append(args, ast.NewIdent(v))
	}
	inner := &ast.CallExpr{Fun: ast.NewIdent(f), Args: args, Ellipsis: g.Call.Ellipsis}
	fn := &ast.FuncLit{Type: &ast.FuncType{Params: &ast.FieldList{}}, Body: &ast.BlockStmt{List: []ast.Stmt{&ast.ExprStmt{X: inner}}}}
	pre = append(pre, &ast.ExprStmt{X: call("Go", fn)})
	return &ast.BlockStmt{List: pre}
}

func (r *rw) file(f *ast.File) {
	// pass 1: statements that expand (select, go, send, range-over-chan)
	astutil.Apply(f, nil, func(c *astutil.Cursor) bool {
		switch n := c.Node().(type) {
		case *ast.SelectStmt:
			c.Replace(r.rewriteSelect(n))
		case *ast.GoStmt:
			c.Replace(r.rewriteGo(n))
		case *ast.SendStmt:
			// not inside our generated closures: those have no position
			if n.Pos() == token.NoPos {
				return true
			}
			if cc, ok := c.Parent().(*ast.CommClause); ok && cc.Comm == ast.Stmt(n) {
				return true // the communication of a select case is handled by rewriteSelect
			}
			c.Replace(&ast.BlockStmt{List: r.sendStmts(n)})
		case *ast.RangeStmt:
			if kt, ok := r.orderedMapKey(n.X); ok && n.Pos() != token.NoPos {
				// for k, v := range m {B}  =>  for _, _vk := range vrt.SortedKeys(m) { v, ok := m[_vk]; if !ok {continue}; k := _vk; B }
				// (deterministic iteration order; entries deleted before they are reached are skipped, as in Go)
				_ = kt
				r.used = true
				kv := r.tmp("k")
				okv := r.tmp("ok")
				var pre []ast.Stmt
				var valLhs ast.Expr = ast.NewIdent("_")
				if n.Value != nil {
					valLhs = n.Value
				}
				tok := n.Tok
				if tok == token.ILLEGAL {
					tok = token.DEFINE
				}
				if id, isId := valLhs.(*ast.Ident); (isId && id.Name == "_") || tok == token.ASSIGN {
					// value not bound by :=  -> check presence separately
					pre = append(pre, &ast.AssignStmt{Lhs: []ast.Expr{ast.NewIdent("_"), ast.NewIdent(okv)}, Tok: token.DEFINE, Rhs: []ast.Expr{&ast.IndexExpr{X: n.X, Index: ast.NewIdent(kv)}}})
					pre = append(pre, &ast.IfStmt{Cond: &ast.UnaryExpr{Op: token.NOT, X: ast.NewIdent(okv)}, Body: &ast.BlockStmt{List: []ast.Stmt{&ast.BranchStmt{Tok: token.CONTINUE}}}})
					if tok == token.ASSIGN && n.Value != nil {
						pre = append(pre, &ast.AssignStmt{Lhs: []ast.Expr{n.Value}, Tok: token.ASSIGN, Rhs: []ast.Expr{&ast.IndexExpr{X: n.X, Index: ast.NewIdent(kv)}}})
					}
				} else {
					pre = append(pre, &ast.AssignStmt{Lhs: []ast.Expr{valLhs, ast.NewIdent(okv)}, Tok: token.DEFINE, Rhs: []ast.Expr{&ast.IndexExpr{X: n.X, Index: ast.NewIdent(kv)}}})
					pre = append(pre, &ast.IfStmt{Cond: &ast.UnaryExpr{Op: token.NOT, X: ast.NewIdent(okv)}, Body: &ast.BlockStmt{List: []ast.Stmt{&ast.BranchStmt{Tok: token.CONTINUE}}}})
					// keep "declared and not used" quiet if the body never reads the value
					pre = append(pre, &ast.AssignStmt{Lhs: []ast.Expr{ast.NewIdent("_")}, Tok: token.ASSIGN, Rhs: []ast.Expr{valLhs}})
				}
				if n.Key != nil {
					if id, isId := n.Key.(*ast.Ident); !isId || id.Name != "_" {
						pre = append(pre, &ast.AssignStmt{Lhs: []ast.Expr{n.Key}, Tok: tok, Rhs: []ast.Expr{ast.NewIdent(kv)}})
						if tok == token.DEFINE {
							pre = append(pre, &ast.AssignStmt{Lhs: []ast.Expr{ast.NewIdent("_")}, Tok: token.ASSIGN, Rhs: []ast.Expr{n.Key}})
						}
					}
				}
				n.Body.List = append(pre, n.Body.List...)
				n.Key = ast.NewIdent("_")
				n.Value = ast.NewIdent(kv)
				n.Tok = token.DEFINE
				n.X = call("SortedKeys", n.X)
				return true
			}
			if r.isChan(n.X) {
				r.used = true
				// for k := range ch {B}  =>  for { k, ok := vrt.Recv2(ch); if !ok {break}; B }  (labels/continue keep working)
				chv := r.tmp("c")
				okv := r.tmp("ok")
				var lhs ast.Expr = ast.NewIdent("_")
				if n.Key != nil {
					lhs = n.Key
				}
				tok := token.DEFINE
				body := []ast.Stmt{
					&ast.AssignStmt{Lhs: []ast.Expr{lhs, ast.NewIdent(okv)}, Tok: tok, Rhs: []ast.Expr{call("Recv2", ast.NewIdent(chv))}},
					&ast.IfStmt{Cond: &ast.UnaryExpr{Op: token.NOT, X: ast.NewIdent(okv)}, Body: &ast.BlockStmt{List: []ast.Stmt{&ast.BranchStmt{Tok: token.BREAK}}}},
				}
				body = append(body, n.Body.List...)
				c.Replace(&ast.BlockStmt{List: []ast.Stmt{
					&ast.AssignStmt{Lhs: []ast.Expr{ast.NewIdent(chv)}, Tok: token.DEFINE, Rhs: []ast.Expr{n.X}},
					&ast.ForStmt{Body: &ast.BlockStmt{List: body}},
				}})
			}
		}
		return true
	})
	// pass 2: expressions (recv, close)
	astutil.Apply(f, nil, func(c *astutil.Cursor) bool {
		switch n := c.Node().(type) {
		case *ast.AssignStmt:
			if len(n.Lhs) == 2 && len(n.Rhs) == 1 {
				if u, ok := n.Rhs[0].(*ast.UnaryExpr); ok && u.Op == token.ARROW {
					r.used = true
					n.Rhs[0] = call("Recv2", u.X)
				}
			}
		case *ast.UnaryExpr:
			if n.Op == token.ARROW {
				r.used = true
				c.Replace(call("Recv", n.X))
			}
		case *ast.CallExpr:
			if id, ok := n.Fun.(*ast.Ident); ok && id.Name == "close" && len(n.Args) == 1 {
				if obj, ok := r.info.Uses[id]; ok {
					if _, isB := obj.(*types.Builtin); isB {
						r.used = true
						a := n.Args[0]
						c.Replace(call("Close", a, &ast.FuncLit{Type: &ast.FuncType{Params: &ast.FieldList{}}, Body: &ast.BlockStmt{List: []ast.Stmt{&ast.ExprStmt{X: &ast.CallExpr{Fun: ast.NewIdent("close"), Args: []ast.Expr{a}}}}}}))
					}
				}
			}
		}
		return true
	})
	// imports
	for _, imp := range f.Imports {
		switch imp.Path.Value {
		case `"time"`:
			if vtimePkgs[pkgPathOf] {
				imp.Path.Value = strconv.Quote(vrtPath + "/vtime")
				if imp.Name == nil {
					imp.Name = ast.NewIdent("time")
				}
			}
		case `"math/rand"`:
			if vrandPkgs[pkgPathOf] {
				imp.Path.Value = strconv.Quote(vrtPath + "/vrand")
				if imp.Name == nil {
					imp.Name = ast.NewIdent("rand")
				}
			}
		case `"crypto/rand"`:
			if vcrandPkgs[pkgPathOf] {
				imp.Path.Value = strconv.Quote(vrtPath + "/vcrand")
				if imp.Name == nil {
					imp.Name = ast.NewIdent("rand")
				}
			}
		case `"sync"`:
			imp.Path.Value = strconv.Quote(vsyncPath)
			if imp.Name == nil {
				imp.Name = ast.NewIdent("sync")
			}
		}
	}
	if r.used {
		astutil.AddNamedImport(r.fset, f, "vrt", vrtPath)
	}
}

// ---- crash-point pass (engine E3) ----

var persistFuncs = map[string]bool{
	"os.Create": true, "os.OpenFile": true, "os.MkdirAll": true, "os.Mkdir": true, "os.RemoveAll": true, "os.Remove": true, "os.Chmod": true,
	"os.Rename": true, "os.WriteFile": true, "os.CreateTemp": true, "os.Truncate": true,
	"go.etcd.io/bbolt.Open": true, "(*go.etcd.io/bbolt.DB).Update": true, "(*go.etcd.io/bbolt.DB).Batch": true,
}

const vcrashPath = vrtPath + "/vcrash"

// persistVars: package-level variables initialised with one of the functions above (`var chmodFunc = os.Chmod`):
// a call through such a variable is a persistence operation too.
var persistVars = map[types.Object]string{}

func collectPersistVars(files []*ast.File, info *types.Info) {
	persistVars = map[types.Object]string{}
	for _, f := range files {
		for _, d := range f.Decls {
			gd, ok := d.(*ast.GenDecl)
			if !ok || gd.Tok != token.VAR {
				continue
			}
			for _, sp := range gd.Specs {
				vs, ok := sp.(*ast.ValueSpec)
				if !ok || len(vs.Names) != 1 || len(vs.Values) != 1 {
					continue
				}
				var id *ast.Ident
				switch v := vs.Values[0].(type) {
				case *ast.SelectorExpr:
					id = v.Sel
				case *ast.Ident:
					id = v
				}
				if id == nil {
					continue
				}
				if fn, ok := info.Uses[id].(*types.Func); ok && persistFuncs[fn.FullName()] {
					if obj := info.Defs[vs.Names[0]]; obj != nil {
						persistVars[obj] = fn.FullName()
					}
				}
			}
		}
	}
}

func (r *rw) calleeName(c *ast.CallExpr) string {
	var id *ast.Ident
	switch f := c.Fun.(type) {
	case *ast.SelectorExpr:
		id = f.Sel
	case *ast.Ident:
		id = f
	default:
		return ""
	}
	if fn, ok := r.info.Uses[id].(*types.Func); ok {
		return fn.FullName()
	}
	if name, ok := persistVars[r.info.Uses[id]]; ok {
		return name
	}
	return ""
}

// crashFile inserts a vcrash.Point before every statement that performs a persistence call and wraps file-backed
// TOML encoders.
func (r *rw) crashFile(f *ast.File) {
	fn := r.fset.Position(f.Pos()).Filename
	base := filepath.Base(filepath.Dir(fn)) + "/" + filepath.Base(fn)
	type span struct {
		lo, hi token.Pos
		name   string
	}
	var funcs []span
	for _, d := range f.Decls {
		if fd, ok := d.(*ast.FuncDecl); ok && fd.Body != nil {
			name := fd.Name.Name
			if fd.Recv != nil && len(fd.Recv.List) == 1 {
				t := fd.Recv.List[0].Type
				if st, ok := t.(*ast.StarExpr); ok {
					t = st.X
				}
				if id, ok := t.(*ast.Ident); ok {
					name = id.Name + "." + name
				}
			}
			funcs = append(funcs, span{fd.Pos(), fd.End(), name})
		}
	}
	ordinal := map[string]int{}
	short := func(name string) string {
		name = strings.ReplaceAll(name, "go.etcd.io/bbolt", "bolt")
		return strings.NewReplacer("(*", "", ")", "").Replace(name)
	}
	labelOf := func(c *ast.CallExpr, name string) string {
		in := "?"
		for _, s := range funcs {
			if c.Pos() >= s.lo && c.Pos() < s.hi {
				in = s.name
			}
		}
		l := fmt.Sprintf("%s@%s:%s", short(name), base, in)
		ordinal[l]++
		if ordinal[l] > 1 {
			l = fmt.Sprintf("%s/%d", l, ordinal[l])
		}
		return l
	}
	scan := func(st ast.Stmt) []string {
		var labels []string
		ast.Inspect(st, func(n ast.Node) bool {
			switch x := n.(type) {
			case *ast.BlockStmt:
				return ast.Node(x) == ast.Node(st)
			case *ast.FuncLit:
				return false
			case *ast.CallExpr:
				name := r.calleeName(x)
				if persistFuncs[name] {
					labels = append(labels, labelOf(x, name))
				}
				if name == "github.com/BurntSushi/toml.NewEncoder" && len(x.Args) == 1 {
					if tv, ok := r.info.Types[x.Args[0]]; ok && tv.Type.String() == "*os.File" {
						x.Args[0] = &ast.CallExpr{Fun: &ast.SelectorExpr{X: ast.NewIdent("vcrash"), Sel: ast.NewIdent("W")},
							Args: []ast.Expr{x.Args[0], &ast.BasicLit{Kind: token.STRING, Value: strconv.Quote(labelOf(x, "toml.Encode"))}}}
						r.used = true
					}
				}
			}
			return true
		})
		return labels
	}
	ast.Inspect(f, func(n ast.Node) bool {
		var list *[]ast.Stmt
		switch b := n.(type) {
		case *ast.BlockStmt:
			list = &b.List
		case *ast.CaseClause:
			list = &b.Body
		case *ast.CommClause:
			list = &b.Body
		}
		if list == nil {
			return true
		}
		var out []ast.Stmt
		for _, st := range *list {
			if _, isBlock := st.(*ast.BlockStmt); !isBlock {
				for _, l := range scan(st) {
					out = append(out, &ast.ExprStmt{X: &ast.CallExpr{Fun: &ast.SelectorExpr{X: ast.NewIdent("vcrash"), Sel: ast.NewIdent("Point")},
						Args: []ast.Expr{&ast.BasicLit{Kind: token.STRING, Value: strconv.Quote(l)}}}})
					r.used = true
				}
			}
			out = append(out, st)
		}
		*list = out
		return true
	})
	if r.used {
		astutil.AddNamedImport(r.fset, f, "vcrash", vcrashPath)
	}
}

type multi []string

func (m *multi) String() string     { return strings.Join(*m, ",") }
func (m *multi) Set(v string) error { *m = append(*m, v); return nil }

// rewriteConst replaces the initialiser of exactly one package-level const/var named name.
func rewriteConst(files []*ast.File, name, expr string) int {
	n := 0
	for _, f := range files {
		for _, d := range f.Decls {
			gd, ok := d.(*ast.GenDecl)
			if !ok || (gd.Tok != token.CONST && gd.Tok != token.VAR) {
				continue
			}
			for _, sp := range gd.Specs {
				vs := sp.(*ast.ValueSpec)
				for i, id := range vs.Names {
					if id.Name == name && i < len(vs.Values) {
						vs.Values[i] = &ast.BasicLit{Kind: token.INT, Value: expr}
						n++
					}
				}
			}
		}
	}
	return n
}

func main() {
	var out, dir, tags, vt, vr, vcr string
	var consts multi
	var inplace, crash bool
	flag.StringVar(&out, "out", "", "output directory")
	flag.StringVar(&dir, "dir", "/repo", "module directory to load from")
	flag.StringVar(&tags, "tags", "", "build tags")
	flag.StringVar(&vt, "vtime", "", "comma-separated package paths whose time import becomes vtime")
	flag.StringVar(&vr, "vrand", "", "comma-separated package paths whose math/rand import becomes vrand")
	flag.StringVar(&vcr, "vcrand", "", "comma-separated package paths whose crypto/rand import becomes vcrand (deterministic inside a run)")
	flag.Var(&consts, "const", "pkgpath.Name=expr (repeatable)")
	flag.BoolVar(&inplace, "inplace", false, "overwrite the loaded files (scratch copies only)")
	flag.BoolVar(&crash, "crash", false, "insert crash points before persistence operations instead of scheduling points")
	flag.Parse()
	for _, p := range strings.Split(vt, ",") {
		if p != "" {
			vtimePkgs[p] = true
		}
	}
	for _, p := range strings.Split(vr, ",") {
		if p != "" {
			vrandPkgs[p] = true
		}
	}
	for _, p := range strings.Split(vcr, ",") {
		if p != "" {
			vcrandPkgs[p] = true
		}
	}
	if out == "" && !inplace {
		fmt.Fprintln(os.Stderr, "instr: -out required")
		os.Exit(2)
	}
	if out != "" {
		if err := os.MkdirAll(out, 0o755); err != nil {
			panic(err)
		}
	}
	cfg := &packages.Config{Mode: packages.NeedName | packages.NeedFiles | packages.NeedSyntax | packages.NeedTypes | packages.NeedTypesInfo | packages.NeedCompiledGoFiles, Dir: dir}
	if tags != "" {
		cfg.BuildFlags = []string{"-tags=" + tags}
	}
	loaded, err := packages.Load(cfg, flag.Args()...)
	if err != nil {
		panic(err)
	}
	overlay := map[string]string{}
	constDone := map[string]int{}
	for _, p := range loaded {
		if len(p.Errors) > 0 {
			fmt.Fprintln(os.Stderr, "instr: load errors:", p.Errors)
			os.Exit(2)
		}
		pkgPathOf = p.PkgPath
		for _, c := range consts {
			eq := strings.Index(c, "=")
			dot := strings.LastIndex(c[:eq], ".")
			if c[:dot] == p.PkgPath {
				constDone[c] += rewriteConst(p.Syntax, c[dot+1:eq], c[eq+1:])
			}
		}
		if crash {
			collectPersistVars(p.Syntax, p.TypesInfo)
		}
		for i, f := range p.Syntax {
			r := &rw{fset: p.Fset, info: p.TypesInfo}
			if crash {
				r.crashFile(f)
				if !r.used {
					continue // untouched file: no overlay entry
				}
			} else {
				r.file(f)
			}
			var buf bytes.Buffer
			if err := printer.Fprint(&buf, p.Fset, f); err != nil {
				panic(err)
			}
			src := p.CompiledGoFiles[i]
			dst := src
			if !inplace {
				dst = filepath.Join(out, strings.ReplaceAll(strings.TrimPrefix(src, "/"), "/", "__"))
			}
			if err := os.WriteFile(dst, buf.Bytes(), 0o644); err != nil {
				panic(err)
			}
			overlay[src] = dst
		}
	}
	for _, c := range consts {
		if constDone[c] != 1 {
			fmt.Fprintf(os.Stderr, "instr: -const %s matched %d declarations (want exactly 1)\n", c, constDone[c])
			os.Exit(2)
		}
	}
	if out != "" {
		b, _ := json.MarshalIndent(map[string]any{"Replace": overlay}, "", " ")
		if err := os.WriteFile(filepath.Join(out, "overlay.json"), b, 0o644); err != nil {
			panic(err)
		}
	}
	fmt.Println("instr: rewrote", len(overlay), "files")
}
